#!/usr/bin/env python3
"""Evaluate one seeded change:  tools/seed_eval.py C07 /tmp/mut/C07/_seed/A [--all-checks]

1. confirms the claim in a scratch worktree of /repo (outside /repo and /verif): the patch applies, the pinned test
   suite gives the baseline result, demo.py fails with the patch and passes without;
2. applies the patch to /repo, runs ./check <prop> (and optionally every other check), undoes it (git checkout -- .);
3. prints a JSON summary.
Nothing is ever committed to /repo."""
import json
import os
import re
import shutil
import subprocess
import sys

REPO, VERIF = '/repo', '/verif'
PY = '/venv/bin/python'


def sh(cmd, cwd=None, env=None, timeout=1800):
    p = subprocess.run(cmd, cwd=cwd, env=env, shell=isinstance(cmd, str), stdout=subprocess.PIPE, stderr=subprocess.STDOUT,
                       timeout=timeout)
    return p.returncode, p.stdout.decode('utf-8', 'replace')


def confirm(seed):
    wt = '/tmp/seedwt-%d' % os.getpid()
    sh(['git', '-C', REPO, 'worktree', 'add', '-q', '--detach', wt, 'HEAD'])
    res = {}
    try:
        patch = os.path.join(seed, 'patch.diff')
        rc, out = sh(['git', 'apply', '--whitespace=nowarn', patch], cwd=wt)
        res['applies'] = rc == 0
        if rc != 0:
            res['apply_error'] = out[-400:]
            return res
        env = dict(os.environ, PYTHONPATH=wt, OSLO_POLICY_ROOT=wt)
        # the demo may locate the checkout through __file__: run a copy placed at the same relative path
        x = os.path.basename(seed)
        os.makedirs(os.path.join(wt, '_seed', x), exist_ok=True)
        demo = os.path.join(wt, '_seed', x, 'demo.py')
        shutil.copy(os.path.join(seed, 'demo.py'), demo)
        rc, out = sh([PY, '-m', 'pytest', '-q', '-p', 'no:cacheprovider', '-x', '--deselect',
                      'oslo_policy/tests/test_cache_handler.py::CacheHandlerTest::test_reloading_cache_with_permission_denied'],
                     cwd=wt, env=env)
        m = re.search(r'(\d+) passed', out)
        res['tests_passed'] = int(m.group(1)) if m else 0
        res['tests_ok'] = rc == 0 and res['tests_passed'] >= 345   # a change may bring tests of its own; the pinned 345 must still pass (rc 0)
        if not res['tests_ok']:
            res['tests_tail'] = out[-600:]
        rc1, out1 = sh([PY, demo], cwd=wt, env=env, timeout=600)
        res['demo_fails_with_patch'] = rc1 != 0
        res['demo_msg'] = out1.strip()[-300:]
        sh(['git', 'checkout', '--', '.'], cwd=wt)
        rc2, out2 = sh([PY, demo], cwd=wt, env=env, timeout=600)
        res['demo_passes_without'] = rc2 == 0
        if rc2 != 0:
            res['demo_clean_msg'] = out2.strip()[-300:]
    finally:
        sh(['git', '-C', REPO, 'worktree', 'remove', '--force', wt])
        shutil.rmtree(wt, ignore_errors=True)
    return res


def run_checks(seed, props, tier='quick'):
    out = {}
    rc, o = sh(['git', '-C', REPO, 'status', '--porcelain'])
    if o.strip():
        raise SystemExit('/repo is not clean: ' + o)
    rc, o = sh(['git', '-C', REPO, 'apply', '--whitespace=nowarn', os.path.join(seed, 'patch.diff')])
    if rc != 0:
        raise SystemExit('cannot apply to /repo: ' + o)
    try:
        for p in props:
            rc, o = sh(['./check', p, '--tier', tier], cwd=VERIF, timeout=3600)
            lines = [l for l in o.splitlines() if l.startswith(('VIOLATION', 'KNOWN-FINDING', 'OK ', 'TOOL FAILURE'))]
            v = [l for l in lines if l.startswith('VIOLATION')]
            detail = ''
            if v:
                idx = o.splitlines().index(v[0])
                detail = '\n'.join(o.splitlines()[idx:idx + 2])
            out[p] = {'exit': rc, 'violation': bool(v), 'no_failing_input': bool(v) and 'no-failing-input-found' in v[0],
                      'detail': detail[:500] if v else (lines[-1] if lines else o[-300:])}
    finally:
        sh(['git', '-C', REPO, 'checkout', '--', '.'])
        # regenerate the tables for the clean tree
        sh(['./check', props[0], '--tier', 'quick'], cwd=VERIF) if False else None
    return out


def main():
    prop, seed = sys.argv[1], sys.argv[2].rstrip('/')
    allc = '--all-checks' in sys.argv
    res = {'property': prop, 'seed': seed, 'confirm': confirm(seed)}
    c = res['confirm']
    res['valid'] = bool(c.get('applies') and c.get('tests_ok') and c.get('demo_fails_with_patch') and c.get('demo_passes_without'))
    props = [prop]
    if allc:
        props += ['C%02d' % i for i in range(1, 21) if 'C%02d' % i != prop]
    res['checks'] = run_checks(seed, props) if c.get('applies') else {}
    print(json.dumps(res, indent=1))


if __name__ == '__main__':
    main()
