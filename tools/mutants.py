#!/usr/bin/env python3
"""Mechanical first-order mutants of oslo_policy's eight source files, as a systematic complement to the seeded changes.

For every mutant: write it into a scratch git worktree of /repo (one per worker, under /tmp/mt), run the pinned test suite
(stop at the first failure); a mutant the tests do not notice (a *survivor*) is then put before the checks
(`./check P --no-build`, PYTHONPATH = the worktree, evidence redirected) in an order that tries the likely properties first,
until one reports a violation. Output: /verif/seeded/MUTANTS.json — per survivor the mutation and which check caught it
(with a failing input, or only through the correspondence), or `undetected`. Undetected survivors are what to look at:
each is either an equivalent mutant, outside all twenty properties, or a gap in a suite.

usage: mutants.py [--files a.py,b.py] [--workers N] [--limit N]
"""
import ast
import concurrent.futures
import hashlib
import json
import os
import re
import shutil
import subprocess
import sys

FILES = ['_parser.py', '_checks.py', 'policy.py', '_cache_handler.py', '_external.py', 'generator.py', 'shell.py', 'opts.py']
PRIORITY = {
    '_parser.py': ['C02', 'C01', 'C15', 'C14', 'C04', 'C05', 'C06'],
    '_checks.py': ['C05', 'C04', 'C06', 'C14', 'C01', 'C15', 'C03', 'C16', 'C07'],
    'policy.py': ['C10', 'C11', 'C09', 'C03', 'C07', 'C08', 'C12', 'C13', 'C06', 'C15', 'C18', 'C20'],
    '_cache_handler.py': ['C10', 'C12', 'C09', 'C20'],
    '_external.py': ['C16'],
    'generator.py': ['C17', 'C18', 'C13'],
    'shell.py': ['C19'],
    'opts.py': ['C09', 'C03', 'C08', 'C11', 'C16'],
}
ALL = ['C%02d' % i for i in range(1, 21)]
OPS2 = False      # second operator family (--ops2): variable replacement, argument swap, dropped keyword, emptied else, …
CMP = {'==': '!=', '!=': '==', '<': '<=', '<=': '<', '>': '>=', '>=': '>', 'in': 'not in', 'not in': 'in', 'is': 'is not',
       'is not': 'is'}
METHODS = {'lstrip': 'strip', 'rstrip': 'strip', 'strip': 'lstrip', 'startswith': 'endswith', 'endswith': 'startswith',
           'lower': 'upper', 'append': 'extend', 'update': 'setdefault', 'get': 'pop', 'pop': 'get', 'items': 'keys',
           'any': 'all', 'all': 'any', 'min': 'max', 'max': 'min', 'sorted': 'list', 'split': 'rsplit', 'setdefault': 'get'}


def sh(cmd, **kw):
    p = subprocess.run(cmd, stdout=subprocess.PIPE, stderr=subprocess.STDOUT, **kw)
    return p.returncode, p.stdout.decode('utf-8', 'replace')


class Src:
    def __init__(self, text):
        self.text = text
        self.lines = text.split('\n')
        self.off = [0]
        for ln in self.lines:
            self.off.append(self.off[-1] + len(ln.encode('utf-8')) + 1)
        self.bytes = text.encode('utf-8')

    def pos(self, lineno, col):
        return self.off[lineno - 1] + col

    def seg(self, a, b):
        return self.bytes[a:b].decode('utf-8')

    def replace(self, a, b, new):
        return (self.bytes[:a] + new.encode('utf-8') + self.bytes[b:]).decode('utf-8')


def mutants_of(path):
    text = open(path).read()
    src = Src(text)
    tree = ast.parse(text)
    out = []            # (description, line, new_text)
    skip_str = set()    # ids of string constants that are docstrings / log or help texts

    for node in ast.walk(tree):
        if isinstance(node, (ast.FunctionDef, ast.ClassDef, ast.Module)) and node.body and isinstance(node.body[0], ast.Expr) \
                and isinstance(getattr(node.body[0], 'value', None), ast.Constant) and isinstance(node.body[0].value.value, str):
            skip_str.add(id(node.body[0].value))
        if isinstance(node, ast.Call):
            f = node.func
            name = f.attr if isinstance(f, ast.Attribute) else getattr(f, 'id', '')
            base = f.value.id if isinstance(f, ast.Attribute) and isinstance(f.value, ast.Name) else ''
            if base in ('LOG', 'warnings', 'logging') or name in ('_', 'warn', 'debug', 'info', 'warning', 'error', 'exception'):
                for sub in ast.walk(node):
                    if isinstance(sub, ast.Constant):
                        skip_str.add(id(sub))
            for kw in node.keywords:
                if kw.arg in ('help', 'deprecated_reason', 'title'):
                    for sub in ast.walk(kw.value):
                        if isinstance(sub, ast.Constant):
                            skip_str.add(id(sub))
        if isinstance(node, ast.Raise):
            for sub in ast.walk(node):
                if isinstance(sub, ast.Constant):
                    skip_str.add(id(sub))

    def span(n):
        return src.pos(n.lineno, n.col_offset), src.pos(n.end_lineno, n.end_col_offset)

    def add(desc, line, new_text):
        if new_text != text:
            out.append((desc, line, new_text))

    for node in ast.walk(tree):
        if isinstance(node, ast.Compare):
            left = node.left
            for op, comp in zip(node.ops, node.comparators):
                a = span(left)[1]
                b = span(comp)[0]
                gap = src.seg(a, b)
                m = re.search(r'(not\s+in|is\s+not|==|!=|<=|>=|<|>|\bin\b|\bis\b)', gap)
                if m:
                    tok = re.sub(r'\s+', ' ', m.group(1))
                    if tok in CMP:
                        add('compare %s -> %s' % (tok, CMP[tok]), node.lineno,
                            src.replace(a + len(gap[:m.start()].encode()), a + len(gap[:m.end()].encode()), CMP[tok]))
                left = comp
        elif isinstance(node, ast.BoolOp):
            word = 'and' if isinstance(node.op, ast.And) else 'or'
            other = 'or' if word == 'and' else 'and'
            for x, y in zip(node.values, node.values[1:]):
                a, b = span(x)[1], span(y)[0]
                gap = src.seg(a, b)
                m = re.search(r'\b%s\b' % word, gap)
                if m:
                    add('%s -> %s' % (word, other), x.end_lineno,
                        src.replace(a + len(gap[:m.start()].encode()), a + len(gap[:m.end()].encode()), other))
        elif isinstance(node, ast.UnaryOp) and isinstance(node.op, ast.Not):
            a, b = span(node)
            oa, ob = span(node.operand)
            add('drop not', node.lineno, src.replace(a, b, '(' + src.seg(oa, ob) + ')'))
        elif isinstance(node, (ast.If, ast.While)) and not (isinstance(node.test, ast.UnaryOp) and isinstance(node.test.op, ast.Not)):
            a, b = span(node.test)
            add('negate condition', node.lineno, src.replace(a, b, 'not (' + src.seg(a, b) + ')'))
        elif isinstance(node, ast.IfExp):
            a, b = span(node.test)
            add('negate conditional expression', node.lineno, src.replace(a, b, 'not (' + src.seg(a, b) + ')'))
        elif isinstance(node, ast.Constant) and id(node) not in skip_str:
            a, b = span(node)
            v = node.value
            if v is True or v is False:
                add('%s -> %s' % (v, not v), node.lineno, src.replace(a, b, str(not v)))
            elif v is None:
                pass
            elif isinstance(v, int):
                add('%d -> %d' % (v, v + 1), node.lineno, src.replace(a, b, str(v + 1)))
                if v != 0:
                    add('%d -> %d' % (v, v - 1), node.lineno, src.replace(a, b, str(v - 1)))
            elif isinstance(v, str) and node.lineno == node.end_lineno and len(v) <= 40:
                if v == '':
                    add("'' -> 'x'", node.lineno, src.replace(a, b, "'x'"))
                else:
                    add('string %r -> %r' % (v, v + 'x'), node.lineno, src.replace(a, b, repr(v + 'x')))
        elif isinstance(node, ast.Return) and node.value is not None and not (isinstance(node.value, ast.Constant) and node.value.value is None):
            a, b = span(node.value)
            if isinstance(node.value, ast.Constant) and isinstance(node.value.value, bool):
                pass     # covered by the constant flip
            else:
                add('return None', node.lineno, src.replace(a, b, 'None'))
        elif isinstance(node, (ast.Break, ast.Continue)):
            a, b = span(node)
            add('break <-> continue', node.lineno, src.replace(a, b, 'continue' if isinstance(node, ast.Break) else 'break'))
        elif isinstance(node, ast.Attribute) and node.attr in METHODS:
            b = span(node)[1]
            a = b - len(node.attr)
            add('.%s -> .%s' % (node.attr, METHODS[node.attr]), node.lineno, src.replace(a, b, METHODS[node.attr]))
        elif isinstance(node, ast.Name) and node.id in ('any', 'all', 'min', 'max', 'sorted') and isinstance(node.ctx, ast.Load):
            a, b = span(node)
            add('%s -> %s' % (node.id, METHODS[node.id]), node.lineno, src.replace(a, b, METHODS[node.id]))
        elif isinstance(node, ast.ExceptHandler) and node.type is not None:
            a, b = span(node.type)
            if isinstance(node.type, ast.Tuple) and len(node.type.elts) >= 2:
                for e in node.type.elts:
                    ea, eb = span(e)
                    add('except: only %s' % src.seg(ea, eb), node.lineno, src.replace(a, b, src.seg(ea, eb)))
            elif src.seg(a, b) in ('Exception', 'BaseException'):
                add('except Exception -> ValueError', node.lineno, src.replace(a, b, 'ValueError'))
            else:
                add('except %s -> LookupError' % src.seg(a, b), node.lineno,
                    src.replace(a, b, 'LookupError' if src.seg(a, b) != 'KeyError' else 'IndexError'))
        elif isinstance(node, ast.Subscript) and isinstance(node.slice, ast.Slice):
            sl = node.slice
            if sl.lower is not None and sl.upper is None:
                a, b = span(sl.lower)
                add('slice lower dropped', node.lineno, src.replace(a, b, ''))
        # statement deletion: single-line expression statements (calls) and plain assignments
        if isinstance(node, (ast.Expr, ast.Assign, ast.AugAssign)) and node.lineno == node.end_lineno:
            if isinstance(node, ast.Expr) and not isinstance(node.value, ast.Call):
                continue
            if isinstance(node, ast.Expr) and isinstance(node.value.func, ast.Attribute) and \
                    isinstance(node.value.func.value, ast.Name) and node.value.func.value.id in ('LOG', 'warnings'):
                continue
            a, b = span(node)
            add('delete statement: %s' % src.seg(a, b)[:60], node.lineno, src.replace(a, b, 'pass'))
    if OPS2:
        out = []
        for fn in [n for n in ast.walk(tree) if isinstance(n, (ast.FunctionDef, ast.AsyncFunctionDef))]:
            # names bound in this function (parameters and assignment targets)
            bound = [a.arg for a in fn.args.args + fn.args.kwonlyargs if a.arg not in ('self', 'cls')]
            for n in ast.walk(fn):
                if isinstance(n, ast.Name) and isinstance(n.ctx, ast.Store) and n.id not in bound:
                    bound.append(n.id)
            for n in ast.walk(fn):
                # (1) a variable read replaced by another variable of the same function
                if isinstance(n, ast.Name) and isinstance(n.ctx, ast.Load) and n.id in bound:
                    a, b = span(n)
                    alts = [x for x in bound if x != n.id][:2]
                    for alt in alts:
                        add('variable %s -> %s' % (n.id, alt), n.lineno, src.replace(a, b, alt))
                # (2) the first two positional arguments of a call swapped; (3) a keyword argument dropped
                if isinstance(n, ast.Call):
                    if len(n.args) >= 2 and not any(isinstance(x, ast.Starred) for x in n.args[:2]):
                        a0, b0 = span(n.args[0])
                        a1, b1 = span(n.args[1])
                        t = src.seg(a0, b0), src.seg(a1, b1)
                        if t[0] != t[1]:
                            add('swap arguments of %s' % src.seg(*span(n.func))[:30], n.lineno,
                                (src.bytes[:a0] + t[1].encode() + src.bytes[b0:a1] + t[0].encode() + src.bytes[b1:]).decode())
                    for kw in n.keywords:
                        if kw.arg is None:
                            continue
                        ka, kb = span(kw.value)
                        # from the keyword name to the end of its value, plus a following or preceding comma
                        start = src.bytes.rfind(kw.arg.encode(), 0, ka)
                        end = kb
                        rest = src.bytes[end:end + 40].decode('utf-8', 'replace')
                        m = re.match(r'\s*,\s*', rest)
                        if m:
                            end += len(m.group(0).encode())
                        else:
                            pre = src.bytes[max(0, start - 40):start].decode('utf-8', 'replace')
                            m2 = re.search(r',\s*$', pre)
                            if m2:
                                start -= len(m2.group(0).encode())
                        add('drop keyword argument %s=' % kw.arg, n.lineno, src.replace(start, end, ''))
                # (4) an else / elif branch emptied; (5) the bodies of if and else exchanged is covered by negation
                if isinstance(n, ast.If) and n.orelse and not (len(n.orelse) == 1 and isinstance(n.orelse[0], ast.If)):
                    first, last = n.orelse[0], n.orelse[-1]
                    a = src.pos(first.lineno, first.col_offset)
                    b = src.pos(last.end_lineno, last.end_col_offset)
                    add('empty else branch', first.lineno, src.replace(a, b, 'pass'))
                if isinstance(n, (ast.For, ast.While)) and len(n.body) >= 1:
                    # (6) a loop body's last statement dropped (when it has several)
                    if len(n.body) >= 2 and n.body[-1].lineno == n.body[-1].end_lineno:
                        a, b = span(n.body[-1])
                        add('drop last statement of loop body', n.body[-1].lineno, src.replace(a, b, 'pass'))
                # (7) an element removed from a tuple / list / set display of constants or names (>= 2 elements)
                if isinstance(n, (ast.Tuple, ast.List, ast.Set)) and len(n.elts) >= 2 and isinstance(getattr(n, 'ctx', ast.Load()), ast.Load):
                    for i, e in enumerate(n.elts[:3]):
                        ea, eb = span(e)
                        rest = src.bytes[eb:eb + 40].decode('utf-8', 'replace')
                        m = re.match(r'\s*,\s*', rest)
                        if m:
                            add('drop element %d of a display' % i, n.lineno, src.replace(ea, eb + len(m.group(0).encode()), ''))
                # (8) a subscript index / dict key string changed to a sibling constant is covered by constants
    # de-duplicate
    seen, uniq = set(), []
    for d, ln, t in out:
        h = hashlib.sha1(t.encode()).hexdigest()
        if h not in seen:
            seen.add(h)
            uniq.append((d, ln, t))
    return uniq


def work(job):
    wid, items = job
    wt = '/tmp/mt/w%d' % wid
    if not os.path.isdir(wt):
        sh(['git', '-C', '/repo', 'worktree', 'add', '-q', '--detach', wt, 'HEAD'])
    res = []
    for mid, fname, desc, line, new_text in items:
        path = os.path.join(wt, 'oslo_policy', fname)
        orig = open(path).read()
        open(path, 'w').write(new_text)
        try:
            try:
                compile(new_text, path, 'exec')
            except SyntaxError:
                continue
            env = dict(os.environ, PYTHONPATH=wt, PYTHONDONTWRITEBYTECODE='1')
            try:
                rc, o = sh(['/venv/bin/python', '-m', 'pytest', '-x', '-q', '-p', 'no:cacheprovider', '--deselect',
                            'oslo_policy/tests/test_cache_handler.py::CacheHandlerTest::test_reloading_cache_with_permission_denied'],
                           cwd=wt, env=env, timeout=300)
            except subprocess.TimeoutExpired:
                rc, o = 1, 'timeout'
            if rc != 0:
                res.append({'id': mid, 'file': fname, 'line': line, 'mutation': desc, 'tests': 'killed'})
                continue
            order = PRIORITY.get(fname, []) + [p for p in ALL if p not in PRIORITY.get(fname, [])]
            verdict, by, first_corr = 'undetected', None, None
            for prop in order:
                outd = '/tmp/mt/out/%s' % mid
                os.makedirs(outd, exist_ok=True)
                try:
                    rc, o = sh(['/verif/check', prop, '--no-build'], cwd='/verif',
                               env=dict(env, VERIF_OUT=outd), timeout=1500)
                except subprocess.TimeoutExpired:
                    rc, o = 2, 'timeout'
                v = [l for l in o.splitlines() if l.startswith('VIOLATION')]
                if v and 'no-failing-input-found' not in v[0]:
                    verdict, by = 'caught', prop
                    break
                if v and first_corr is None:
                    first_corr = prop
                if rc == 2 and first_corr is None:
                    first_corr = prop + '(tool)'
                shutil.rmtree(outd, ignore_errors=True)
            if verdict != 'caught' and first_corr:
                verdict, by = 'correspondence', first_corr
            res.append({'id': mid, 'file': fname, 'line': line, 'mutation': desc, 'tests': 'survived', 'verdict': verdict, 'by': by})
            print(mid, fname, line, desc, '->', verdict, by, flush=True)
        finally:
            open(path, 'w').write(orig)
    return res


def main():
    args = sys.argv[1:]
    files = FILES
    workers, limit, recheck = 14, None, False
    while args:
        a = args.pop(0)
        if a == '--files':
            files = args.pop(0).split(',')
        elif a == '--workers':
            workers = int(args.pop(0))
        elif a == '--limit':
            limit = int(args.pop(0))
        elif a == '--ops2':
            global OPS2
            OPS2 = True
        elif a == '--recheck':      # only the survivors recorded as undetected / correspondence-only in MUTANTS.json
            recheck = True
    items = []
    for f in files:
        ms = mutants_of(os.path.join('/repo/oslo_policy', f))
        for i, (d, ln, t) in enumerate(ms):
            items.append(('%s%s:%d:%d' % ('ops2/' if OPS2 else '', f, ln, i), f, d, ln, t))
    if recheck:
        old = json.load(open('/verif/seeded/MUTANTS.json'))
        want = {k for k, v in old.items() if v.get('verdict') in ('undetected', 'correspondence')}
        items = [it for it in items if it[0] in want]
    if limit:
        items = items[:limit]
    print('mutants:', len(items), flush=True)
    os.makedirs('/tmp/mt/out', exist_ok=True)
    jobs = [(w, items[w::workers]) for w in range(workers)]
    allres = []
    with concurrent.futures.ProcessPoolExecutor(max_workers=workers) as ex:
        for r in ex.map(work, jobs):
            allres.extend(r)
    for w in range(workers):
        sh(['git', '-C', '/repo', 'worktree', 'remove', '--force', '/tmp/mt/w%d' % w])
    shutil.rmtree('/tmp/mt', ignore_errors=True)
    dst = '/verif/seeded/MUTANTS.json'
    old = json.load(open(dst)) if os.path.exists(dst) else {}
    for r in allres:
        old[r['id']] = r
    json.dump(old, open(dst, 'w'), indent=1, sort_keys=True)
    surv = [r for r in allres if r['tests'] == 'survived']
    print('total %d, killed by tests %d, survivors %d: caught %d, correspondence only %d, undetected %d' % (
        len(allres), len(allres) - len(surv), len(surv), sum(r['verdict'] == 'caught' for r in surv),
        sum(r['verdict'] == 'correspondence' for r in surv), sum(r['verdict'] == 'undetected' for r in surv)))


if __name__ == '__main__':
    main()
