#!/usr/bin/env python3
"""Evaluate every finished seeded change under /tmp/mut/C*/_seed/{A,B} that is not yet in /verif/seeded/, keep the
valid ones as /verif/seeded/<prop>-<X>/ (patch.diff, demo.py, NOTES.md, meta.json)."""
import glob
import json
import os
import shutil
import subprocess
import sys

done_marker = 'meta.json'
ROOT = os.environ.get('SEED_ROOT', '/tmp/mut')
SUFFIX = os.environ.get('SEED_SUFFIX', '')
only = sys.argv[1:] or None
for seed in sorted(glob.glob(ROOT + '/C*/_seed/[A-C]')):
    prop = seed.split('/')[3]
    x = os.path.basename(seed)
    if only and prop not in only:
        continue
    sid = '%s-%s%s' % (prop, x, SUFFIX)
    dst = os.path.join('/verif/seeded', sid)
    if os.path.exists(os.path.join(dst, done_marker)):
        continue
    if not all(os.path.exists(os.path.join(seed, f)) for f in ('patch.diff', 'demo.py', 'NOTES.md')):
        continue
    p = subprocess.run(['/verif/tools/seed_eval.py', prop, seed], stdout=subprocess.PIPE, stderr=subprocess.STDOUT)
    try:
        res = json.loads(p.stdout.decode())
    except Exception:
        print(sid, 'EVAL FAILED', p.stdout.decode()[-500:])
        continue
    os.makedirs(dst, exist_ok=True)
    for f in ('patch.diff', 'demo.py', 'NOTES.md'):
        shutil.copy(os.path.join(seed, f), os.path.join(dst, f))
    notes = open(os.path.join(seed, 'NOTES.md')).read()
    meta = {'id': sid, 'breaks_property': prop, 'valid': res['valid'], 'confirmation': res['confirm'],
            'needs_to_manifest': '(see NOTES.md)', 'what_was_run': [
                'scratch worktree of /repo: git apply patch.diff; pinned test suite (345 pass); demo.py fails; revert; demo.py passes',
                'git -C /repo apply patch.diff; ./check %s --tier quick; git -C /repo checkout -- .' % prop],
            'check_results': res['checks']}
    with open(os.path.join(dst, done_marker), 'w') as fh:
        json.dump(meta, fh, indent=1)
    c = res['checks'].get(prop, {})
    print(sid, 'valid' if res['valid'] else 'INVALID %r' % res['confirm'], '| caught' if c.get('violation') else '| MISSED',
          '(no-failing-input)' if c.get('no_failing_input') else '', '|', c.get('detail', '')[:160].replace('\n', ' '))
