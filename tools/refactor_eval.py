#!/usr/bin/env python3
"""False-alarm measurement: run every check against behaviour-preserving refactorings of /repo.

For each /tmp/ref/R*/_ref/*/patch.diff: scratch worktree with the patch; confirm the pinned suite still passes; run every
check's suite against it (PYTHONPATH puts the worktree first; --no-build); separately regenerate the tables from the worktree
into a scratch copy of lean/ and build the Tie modules there (so /verif/lean is not disturbed). Prints one line per refactoring:
which checks raised a failing-input VIOLATION (= false alarm), which only lost a correspondence / tie (no-failing-input-found)."""
import concurrent.futures
import glob
import json
import os
import shutil
import subprocess
import sys

PROPS = ['C%02d' % i for i in range(1, 21)]
TIES = ['OsloPolicy.Properties.TieParser', 'OsloPolicy.Properties.TieOpts', 'OsloPolicy.Properties.TieKinds',
        'OsloPolicy.Properties.TieApi', 'OsloPolicy.Properties.TieLower']


def sh(cmd, **kw):
    p = subprocess.run(cmd, stdout=subprocess.PIPE, stderr=subprocess.STDOUT, **kw)
    return p.returncode, p.stdout.decode('utf-8', 'replace')


def one(job):
    rid, prop, wt = job
    out = '/tmp/rx/out/%s/%s' % (rid, prop)
    os.makedirs(out, exist_ok=True)
    env = dict(os.environ, PYTHONPATH=wt, VERIF_OUT=out)
    rc, o = sh(['/verif/check', prop, '--no-build'], cwd='/verif', env=env, timeout=1800)
    v = [l for l in o.splitlines() if l.startswith('VIOLATION')]
    if v and 'no-failing-input-found' not in v[0]:
        idx = o.splitlines().index(v[0])
        return rid, prop, 'ALARM', '\n'.join(o.splitlines()[idx:idx + 2])[:400]
    if v:
        return rid, prop, 'corr', ''
    return rid, prop, 'ok' if rc == 0 else 'tool%d' % rc, o[-300:] if rc else ''


def main():
    pats = sorted(glob.glob('/tmp/ref/R*/_ref/*/patch.diff'))
    if len(sys.argv) > 1:      # only the named refactorers, e.g. R02 R06
        pats = [p for p in pats if p.split('/')[3] in sys.argv[1:]]
    archived = not pats
    if archived:               # re-evaluation of the archived refactorings
        pats = sorted(glob.glob('/verif/seeded/refactorings/R*/patch.diff'))
    os.makedirs('/tmp/rx', exist_ok=True)
    jobs, info = [], {}
    for pth in pats:
        rid = pth.split('/')[4] if pth.startswith('/verif/seeded/refactorings/') else pth.split('/')[3] + '-' + pth.split('/')[5]
        wt = '/tmp/rx/' + rid
        if not os.path.isdir(wt):
            sh(['git', '-C', '/repo', 'worktree', 'add', '-q', '--detach', wt, 'HEAD'])
            rc, o = sh(['git', 'apply', '--whitespace=nowarn', pth], cwd=wt)
            if rc:
                print(rid, 'cannot apply', o[-200:])
                continue
        rc, o = sh(['/venv/bin/python', '-m', 'pytest', '-q', '-p', 'no:cacheprovider', '--deselect',
                    'oslo_policy/tests/test_cache_handler.py::CacheHandlerTest::test_reloading_cache_with_permission_denied'],
                   cwd=wt, env=dict(os.environ, PYTHONPATH=wt))
        info[rid] = {'tests_ok': rc == 0 and '345 passed' in o, 'lines': sum(1 for l in open(pth) if l.startswith(('+', '-')))}
        for p in PROPS:
            jobs.append((rid, p, wt))
    res = {}
    with concurrent.futures.ThreadPoolExecutor(max_workers=14) as ex:
        for rid, prop, r, detail in ex.map(one, jobs):
            res.setdefault(rid, {})[prop] = (r, detail)
    # tie obligations, in a scratch copy of the Lean project
    lean2 = '/tmp/rx/lean'
    if not os.path.isdir(lean2):
        shutil.copytree('/verif/lean', lean2, symlinks=True)
    for rid in sorted(info):
        wt = '/tmp/rx/' + rid
        code = ("import sys; sys.path.insert(0, '/verif/harness'); from opverif import tables; "
                "tables.GEN = '%s/OsloPolicy/Generated'; print(tables.regenerate())" % lean2)
        sh(['/venv/bin/python', '-c', code], env=dict(os.environ, PYTHONPATH=wt))
        broken = []
        for t in TIES:
            rc, o = sh(['lake', 'build', t], cwd=lean2)
            if rc:
                broken.append(t.split('.')[-1])
        info[rid]['ties_broken'] = broken
    for rid in sorted(info):
        sh(['git', '-C', '/repo', 'worktree', 'remove', '--force', '/tmp/rx/' + rid])
    out = {}
    for rid in sorted(info):
        row = res.get(rid, {})
        alarms = {p: d for p, (r, d) in row.items() if r == 'ALARM'}
        corr = sorted(p for p, (r, d) in row.items() if r == 'corr')
        tools = {p: d for p, (r, d) in row.items() if r.startswith('tool')}
        out[rid] = {'tests_ok': info[rid]['tests_ok'], 'changed_lines': info[rid]['lines'], 'alarms': alarms,
                    'correspondence_only': corr, 'ties_broken': info[rid]['ties_broken'], 'tool_failures': tools}
        print(rid, 'tests_ok=%s' % info[rid]['tests_ok'], 'lines=%d' % info[rid]['lines'], 'ALARMS=%s' % sorted(alarms),
              'corr=%s' % corr, 'ties=%s' % info[rid]['ties_broken'], 'tool=%s' % sorted(tools))
        for p, d in alarms.items():
            print('    ', p, d.replace('\n', ' | ')[:300])
    dst = '/verif/seeded/REFACTORINGS.json'
    if os.path.exists(dst):
        out = dict(json.load(open(dst)), **out)
    json.dump(out, open(dst, 'w'), indent=1, sort_keys=True)
    shutil.rmtree('/tmp/rx', ignore_errors=True)


if __name__ == '__main__':
    main()
