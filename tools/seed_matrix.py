#!/usr/bin/env python3
"""Which checks catch which seeded change: every check's suite (./check P --no-build) against a scratch worktree of /repo with
the seeded patch applied (PYTHONPATH puts the worktree's oslo_policy first; /repo itself is not touched; tie obligations are
not re-evaluated here). Writes seeded/MATRIX.json."""
import concurrent.futures
import glob
import json
import os
import shutil
import subprocess
import sys

PROPS = os.environ.get('PROPS', '').split() or ['C%02d' % i for i in range(1, 21)]   # PROPS=own: each seed's own property


def sh(cmd, **kw):
    p = subprocess.run(cmd, stdout=subprocess.PIPE, stderr=subprocess.STDOUT, **kw)
    return p.returncode, p.stdout.decode('utf-8', 'replace')


def one(job):
    sid, prop, wt = job
    out = '/tmp/mx/out/%s/%s' % (sid, prop)
    os.makedirs(out, exist_ok=True)
    env = dict(os.environ, PYTHONPATH=wt, VERIF_OUT=out)
    rc, o = sh(['/verif/check', prop, '--no-build'], cwd='/verif', env=env, timeout=1800)
    v = [l for l in o.splitlines() if l.startswith('VIOLATION')]
    res = 'caught' if v and 'no-failing-input-found' not in v[0] else ('corr' if v else ('ok' if rc == 0 else 'tool%d' % rc))
    return sid, prop, res


def main():
    seeds = sorted(os.path.basename(os.path.dirname(p)) for p in glob.glob('/verif/seeded/*/patch.diff'))
    if len(sys.argv) > 1:
        seeds = [s for s in seeds if s in sys.argv[1:]]
    os.makedirs('/tmp/mx', exist_ok=True)
    jobs = []
    for sid in seeds:
        wt = '/tmp/mx/' + sid
        if not os.path.isdir(wt):
            sh(['git', '-C', '/repo', 'worktree', 'add', '-q', '--detach', wt, 'HEAD'])
            rc, o = sh(['git', 'apply', '--whitespace=nowarn', '/verif/seeded/%s/patch.diff' % sid], cwd=wt)
            if rc:
                print('cannot apply', sid, o)
                continue
        for p in ([sid[:3]] if PROPS == ['own'] else PROPS):
            jobs.append((sid, p, wt))
    matrix = {}
    with concurrent.futures.ThreadPoolExecutor(max_workers=14) as ex:
        for sid, prop, res in ex.map(one, jobs):
            matrix.setdefault(sid, {})[prop] = res
    for sid in seeds:
        sh(['git', '-C', '/repo', 'worktree', 'remove', '--force', '/tmp/mx/' + sid])
    shutil.rmtree('/tmp/mx', ignore_errors=True)
    path = '/verif/seeded/MATRIX.json'
    old = {}
    if os.path.exists(path):
        old = json.load(open(path))
    for sid, row in matrix.items():
        old.setdefault(sid, {}).update(row)
        print(sid, ' '.join('%s:%s' % (p[1:], r) for p, r in sorted(row.items()) if r != 'ok'))
    json.dump(old, open(path, 'w'), indent=1, sort_keys=True)


if __name__ == '__main__':
    main()
