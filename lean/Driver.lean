import Lean.Data.Json
import OsloPolicy.Model.Enforce
import OsloPolicy.Spec.Grammar
import OsloPolicy.Model.Validate
import OsloPolicy.Model.Loader
import OsloPolicy.Spec.Layers
import OsloPolicy.Model.Sched
import OsloPolicy.Model.External
import OsloPolicy.Model.SampleGen
import OsloPolicy.Model.Tools
import OsloPolicy.Model.Checker
import OsloPolicy.Model.Literal
import OsloPolicy.Generated.PyTables
/-
JSON-lines driver: one request per line on stdin, one answer per line on stdout.
Imports the model and Lean's JSON library only (no Mathlib), so it links as an
executable.  See harness/opverif/driver.py for the encoding.
-/
open Lean OsloPolicy

namespace Drv

def s2l (s : String) : Str := s.toList
def l2s (l : Str) : String := String.ofList l

def getStrD (j : Json) (k : String) (d : String := "") : String :=
  match j.getObjValAs? String k with | .ok s => s | .error _ => d
def getBoolD (j : Json) (k : String) (d : Bool := false) : Bool :=
  match j.getObjValAs? Bool k with | .ok s => s | .error _ => d
def getNatD (j : Json) (k : String) (d : Nat := 0) : Nat :=
  match j.getObjValAs? Nat k with | .ok s => s | .error _ => d
def getArrD (j : Json) (k : String) : Array Json :=
  match j.getObjVal? k with | .ok (.arr a) => a | _ => #[]
def getD (j : Json) (k : String) : Json :=
  match j.getObjVal? k with | .ok v => v | _ => .null

/-- Decode the harness encoding of Python values. -/
partial def toJVal : Json → Except String JVal
  | .null => pure .null
  | .bool b => pure (.bool b)
  | .num n => if n.exponent = 0 then pure (.int n.mantissa) else throw "non-integer number"
  | .str s => pure (.str (s2l s))
  | j@(.obj _) => do
    let t := s2l (getStrD j "t")
    match j.getObjVal? "a" with
    | .ok (.arr xs) => do
      let ys ← xs.toList.mapM toJVal
      pure (.arr ys t)
    | _ =>
    match j.getObjVal? "o" with
    | .ok (.arr kvs) => do
      let ps ← kvs.toList.mapM fun kv => match kv with
        | .arr #[.str k, v] => do let v' ← toJVal v; pure (s2l k, v')
        | _ => throw "bad pair"
      pure (.obj ps t)
    | _ =>
    match j.getObjVal? "x" with
    | .ok (.str x) => pure (.other (s2l x) (getBoolD j "b"))
    | _ => throw "bad value encoding"
  | .arr _ => throw "bare array"

def tgtOf (v : JVal) : Except String (List (Str × JVal)) :=
  match v with
  | .obj kvs _ => pure kvs
  | _ => throw "target must be a mapping"

def exnName : Exn → String
  | .notAuthorized n => "PolicyNotAuthorized:" ++ l2s n
  | .custom => "Custom"
  | .invalidScope => "InvalidScope"
  | .invalidContext => "InvalidContextObject"
  | .notRegistered n => "PolicyNotRegistered:" ++ l2s n
  | .typeError => "TypeError" | .attributeError => "AttributeError" | .keyError => "KeyError"
  | .syntaxError => "SyntaxError" | .valueError => "ValueError"
  | .recursion => "RecursionError" | .runtimeError => "RuntimeError" | .transport => "Transport"

def outcomeStr : Outcome → String
  | .ret true => "allow"
  | .ret false => "deny"
  | .raise e => "raise:" ++ exnName e

def tokJson : Tok → Json
  | .lp => .arr #["(", "("] | .rp => .arr #[")", ")"]
  | .kAnd => .arr #["and", ""] | .kOr => .arr #["or", ""] | .kNot => .arr #["not", ""]
  | .str s => .arr #["string", l2s s]
  | .chk t => .arr #["check", l2s t.print]

/-- `str.lower` on the generator alphabet: character-wise through the table extracted
from the running interpreter. -/
def lowerTab : Std.HashMap Nat Nat := Std.HashMap.ofList Generated.pyLowerPairs
def pyLower (s : Str) : Str :=
  s.map fun c => match lowerTab.get? c.toNat with
    | some l => Char.ofNat l
    | none => c

/-- Build the environment from the request: `lit` is a table `{kind text: str | null}`
computed by the harness with `ast.literal_eval`; `remote` a table `{url: reply}`. -/
def envOf (j : Json) : Env :=
  let lits := getD j "lit"
  let rem := getD j "remote"
  { lower := pyLower
    -- the partial literal model decides where it makes a claim; elsewhere the harness-supplied value is used
    lit := fun k => match litKnown k with
      | some r => r
      | none => (match lits.getObjVal? (l2s k) with
        | .ok (.str s) => some (s2l s)
        | _ => none)
    remote := fun k url _ =>
      let post : PostResult := match rem.getObjVal? (l2s url) with
        | .ok (.str "timeout") => .timeout
        | .ok (.str "transport") => .transportError
        | .ok r => (match r.getObjVal? "body" with
            | .ok (.str b) => .reply (s2l b) (getNatD r "status" 200)
            | _ => .transportError)
        | _ => .transportError
      let tls : TlsFiles := ⟨getBoolD j "cert_ok" true, getBoolD j "key_ok" true, getBoolD j "ca_ok" true⟩
      if k = "https".toList then httpsDecision tls post else httpDecision post }

/-- left sides on which the partial literal model's claim differs from what the harness observed -/
def litMismatches (j : Json) : List String :=
  match getD j "lit" with
  | .obj kvs => kvs.toList.filterMap fun (k, v) =>
      let observed : Option Str := match v with | .str s => some (s2l s) | _ => none
      match litKnown (s2l k) with
      | some r => if r == observed then none else some k
      | none => none
  | _ => []

/-- how many of the supplied left sides the partial literal model decides by itself -/
def litClaimed (j : Json) : Nat :=
  match getD j "lit" with
  | .obj kvs => (kvs.toList.filter fun (k, _) => (litKnown (s2l k)).isSome).length
  | _ => 0

def rulesOf (j : Json) : Except String Rules := do
  let ents ← (getArrD j "rules").toList.mapM fun kv => match kv with
    | .arr #[.str k, v] => do let v' ← toJVal v; pure (s2l k, parseValue v')
    | _ => throw "bad rule pair"
  -- dict semantics: later duplicates replace earlier ones
  let ents := ents.foldl (fun acc (k, t) => ainsert k t acc) []
  let d : DefaultRule ← match getD j "default" with
    | .null => pure .none
    | .str s => pure (.name (s2l s))
    | o => do let v ← toJVal (getD o "check"); pure (.check (parseValue v))
  pure { entries := ents, default := d }

def scopeTypesOf (j : Json) : Option (List Str) :=
  match j with
  | .arr xs => some (xs.toList.filterMap fun x => match x with | .str s => some (s2l s) | _ => none)
  | _ => none

mutual
partial def toE2 (j : Json) : Except String (E 2) :=
  match j.getObjVal? "leaf" with
  | .ok (.str s) => pure (.leaf (parseCheck (s2l s)))
  | _ => match j.getObjVal? "paren" with
    | .ok e => do pure (.paren (← toE0 e))
    | _ => match j.getObjVal? "not" with
      | .ok e => do pure (.not (← toE2 e))
      | _ => throw "bad E2"
partial def toE1 (j : Json) : Except String (E 1) :=
  match j.getObjVal? "up1" with
  | .ok e => do pure (.up1 (← toE2 e))
  | _ => match j.getObjVal? "and" with
    | .ok (.arr #[a, b]) => do pure (.and (← toE1 a) (← toE2 b))
    | _ => throw "bad E1"
partial def toE0 (j : Json) : Except String (E 0) :=
  match j.getObjVal? "up0" with
  | .ok e => do pure (.up0 (← toE1 e))
  | _ => match j.getObjVal? "or" with
    | .ok (.arr #[a, b]) => do pure (.or (← toE0 a) (← toE1 b))
    | _ => throw "bad E0"
end

def contentOf (j : Json) : Except String Content :=
  match j with
  | .arr kvs => kvs.toList.mapM fun kv => match kv with
    | .arr #[.str k, v] => do let v' ← toJVal v; pure (s2l k, v')
    | _ => throw "bad content pair"
  | _ => throw "content must be a list of pairs"

def fsOf (j : Json) : Except String FS := do
  let main ← match getD j "main" with
    | .null => pure none
    | m => do let c ← contentOf (getD m "c"); pure (some (c, getNatD m "t"))
  let dirs ← (getArrD j "dirs").toList.mapM fun d => match d with
    | .null => pure none
    | d => do
      let es ← (getArrD d "entries").toList.mapM fun e => do
        let c ← contentOf (getD e "c")
        pure ({ name := s2l (getStrD e "n"), isDir := getBoolD e "d", mtime := getNatD e "t", content := c } : Entry)
      pure (some ({ mtime := getNatD d "t", entries := es } : Dir))
  pure { main := main, dirs := dirs }

def regOf (r : Json) : Except String RuleDefault := do
  let cs ← toJVal (getD r "check_str")
  let dep ← match getD r "deprecated" with
    | .arr #[.str on, ov] => do let v ← toJVal ov; pure (some (s2l on, v))
    | _ => pure none
  pure ({ name := s2l (getStrD r "name"), checkStr := cs, deprecated := dep } : RuleDefault)

def regsOf (j : Json) : Except String (List RuleDefault) :=
  (getArrD j "regs").toList.mapM regOf

def storeJson (s : Store) : Json :=
  .arr (s.map fun (k, t) => Json.arr #[Json.str (l2s k), Json.str (l2s t.print)]).toArray

/-- canonical form of a file system for comparison with the harness's snapshot -/
def fsCanon (fs : FS) : String :=
  let c2s (c : Content) : String := toString (c.map fun (k, v) => (l2s k, l2s v.pyStr))
  let main := match fs.main with | none => "none" | some (c, t) => s!"{c2s c}@{t}"
  let dirs := fs.dirs.map fun od => match od with
    | none => "none"
    | some d =>
      let es := (sortByName d.entries).map fun (e : Entry) => s!"{l2s e.name}:{e.isDir}:{e.mtime}:{c2s e.content}"
      s!"{d.mtime}{es}"
  s!"{main}|{dirs}"

def fileIdOf (j : Json) : FileId :=
  match getD j "dir" with
  | .null => .main
  | _ => .dirFile (getNatD j "dir") (s2l (getStrD j "name"))

def handle (j : Json) : Except String Json := do
  match getStrD j "op" with
  | "lex" =>
    pure (Json.mkObj [("toks", .arr ((tokenize (s2l (getStrD j "s"))).map tokJson).toArray)])
  | "parse" => do
    let v ← toJVal (getD j "v")
    pure (Json.mkObj [("tree", l2s (parseValue v).print)])
  | "subst" => do
    let tgt ← tgtOf (← toJVal (getD j "target"))
    pure (Json.mkObj [("r", match subst tgt (s2l (getStrD j "s")) with
      | .ok s => Json.mkObj [("ok", l2s s)]
      | .keyError => "KeyError"
      | .unsupported => "unsupported")])
  | "enforce" => do
    -- {"rules":[[name, value]…], "default":…, "registered":[[name, scope_types|null]…],
    --  "enforce_scope":bool, "queries":[{"rule": name | {"check": value, "scope":…},
    --  "target":…, "creds":…, "do_raise":bool, "exc":bool, "authorize":bool}…], "lit":{…}}
    let rules ← rulesOf j
    let regs := (getArrD j "registered").toList.filterMap fun r => match r with
      | .arr #[.str n, st] => some ({ name := s2l n, scopeTypes := scopeTypesOf st } : Registered)
      | _ => none
    let es := getBoolD j "enforce_scope" true
    let fuel := getNatD j "fuel" 64
    let view : EnfView := ⟨rules, regs, es, fuel⟩
    let env := envOf j
    let outs ← (getArrD j "queries").toList.mapM fun q => do
      let tgt ← tgtOf (← toJVal (getD q "target"))
      let creds ← toJVal (getD q "creds")
      let rs : RaiseSpec := { doRaise := getBoolD q "do_raise", customExc := getBoolD q "exc" }
      let leafOf := fun (c : JVal) (cur : Option Str) => leafEval env tgt c cur
      let out ← match getD q "rule" with
        | .str n =>
          if getBoolD q "authorize" then pure (authorize view leafOf (s2l n) creds rs)
          else pure (enforce view leafOf (.name (s2l n)) creds rs)
        | o => do
          let v ← toJVal (getD o "check")
          pure (enforce view leafOf (.check (parseValue v) (scopeTypesOf (getD o "scope"))) creds rs)
      pure (Json.str (outcomeStr out))
    pure (Json.mkObj [("out", .arr outs.toArray),
                      ("lit_mismatch", .arr ((litMismatches j).map Json.str).toArray),
                      ("lit_claimed", Json.num (litClaimed j)),
                      ("printed", Json.mkObj (rules.entries.map fun (k, t) => (l2s k, Json.str (l2s t.print))))])
  | "check_rules" => do
    let rules ← rulesOf j
    let rs := rules.entries
    let names (l : List Str) : Json := .arr (l.map fun n => Json.str (l2s n)).toArray
    pure (Json.mkObj [("ok", checkRules rs (getBoolD j "skip")),
                      ("undefined", names (undefinedNames rs)), ("cyclic", names (cyclicNames rs))])
  | "validator" => do
    let rules ← rulesOf j
    let fr := (getArrD j "file_rules").toList.filterMap fun p => match p with
      | .arr #[.str n, .bool b] => some (s2l n, b)
      | _ => none
    let reg := (getArrD j "registered_names").toList.filterMap fun p => match p with
      | .str n => some (s2l n)
      | _ => none
    pure (Json.mkObj [("status", validatorStatus (getBoolD j "file_missing") rules.entries fr reg)])
  | "loader" => do
    -- {"enforce_new_defaults":b, "regs":[…], "fs":<initial>, "steps":[{"op":"write|touch|delete","dir":i|null,"name":…,
    --   "c":content,"t":time} | {"op":"load","force":b,"fs":<snapshot>}]}
    let enforceNew := getBoolD j "enforce_new_defaults" true
    let regs0 ← regsOf j
    let fs0 ← fsOf (getD j "fs")
    let mut fs := fs0
    let mut regs := regs0
    let mut e := Enf.init fs0.dirs.length
    let mut outs : Array Json := #[]
    for st in getArrD j "steps" do
      match getStrD st "op" with
      | "load" =>
        let snap ← fsOf (getD st "fs")
        let agree := fsCanon snap == fsCanon fs
        -- the model runs on the harness's snapshot (what the real code sees); `fs_model_agrees` says
        -- whether the model's own file-operation semantics (fsStep) predicted that snapshot
        fs := snap
        e := load enforceNew regs e fs (getBoolD st "force")
        let fr := fresh enforceNew regs fs
        outs := outs.push (Json.mkObj [("rules", storeJson e.rules), ("fresh", storeJson fr.rules),
          ("file_rules", .arr (e.fileRules.map fun (k, _) => Json.str (l2s k)).toArray),
          ("fs_model_agrees", agree)])
      | "write" => do
        let c ← contentOf (getD st "c")
        fs := fsStep fs (getNatD st "t") (.write (fileIdOf st) c)
      | "touch" => fs := fsStep fs (getNatD st "t") (.touch (fileIdOf st))
      | "delete" => fs := fsStep fs (getNatD st "t") (.delete (fileIdOf st))
      | "register" => do
        -- `register_default` between loads (Spec/Layers.lean `stepR`)
        let d ← regOf (getD st "reg")
        regs := (stepR enforceNew ⟨⟨fs, e, 0⟩, regs⟩ (.register d)).regs
      | o => throw s!"bad loader step {o}"
    pure (Json.mkObj [("loads", .arr outs)])
  | "pick_file" =>
    let ctor := match getD j "ctor" with | .str s => some (s2l s) | _ => none
    let i : PickInput := ⟨ctor, s2l (getStrD j "value"), getBoolD j "never_configured", getBoolD j "yaml_exists",
      getBoolD j "json_exists", getBoolD j "fallback"⟩
    pure (Json.mkObj [("file", l2s (pickPolicyFile i))])
  | "sched" =>
    let cont (k : String) : Sched.Content := (getArrD j k).toList.filterMap fun p => match p with
      | .arr #[n, .bool b] => (match n.getNat? with | .ok i => some (i, b) | _ => none)
      | _ => none
    let dflt := getNatD j "default"
    let qry := getNatD j "query"
    let sc : Sched.Scenario := ⟨cont "main_new", cont "dirs_new", cont "regs", some dflt, qry⟩
    let ms := getBoolD j "main_stale"
    let ds := getBoolD j "dir_stale"
    let s0 : Sched.Shared := ⟨Sched.compute sc (cont "main_old") (cont "dirs_old"), ms, ds⟩
    let shw (o : Option Bool) : Json := match o with
      | some true => "allow" | some false => "deny" | none => "none"
    let bs := Sched.readerOutcomes sc s0
    let as := ((List.range (Sched.span sc + 1)).map fun k => (Sched.oneSwitch sc s0 k).1).eraseDups
    pure (Json.mkObj [("outcomes", .arr ((bs ++ as).eraseDups.map shw).toArray)])
  | "sample_yaml" => do
    let strs (x : Json) : List Str := match x with
      | .arr xs => xs.toList.filterMap fun y => match y with | .str s => some (s2l s) | _ => none
      | _ => []
    let optLines (x : Json) : Option (List Str) := match x with | .null => none | y => some (strs y)
    let wrapTab := getD j "wrap"
    let splitTab := getD j "split"
    -- a table miss yields a marker line, so that it shows up as a disagreement instead of passing silently
    let wrap (s : Str) : List Str := match wrapTab.getObjVal? (l2s s) with
      | .ok v => strs v
      | _ => [s2l ("<<wrap table miss: " ++ l2s s ++ ">>")]
    let split (s : Str) : List Str := match splitTab.getObjVal? (l2s s) with
      | .ok v => strs v
      | _ => [s2l ("<<split table miss: " ++ l2s s ++ ">>")]
    let ds : List GenDefault := (getArrD j "defaults").toList.map fun d =>
      let ops : Option (List Operation) := match getD d "operations" with
        | .arr xs => some (xs.toList.filterMap fun o => match o with
            | .arr #[.str m, .str p] => some ⟨s2l m, s2l p⟩
            | _ => none)
        | _ => none
      let dep : Option (Str × Str) := match getD d "deprecated" with
        | .arr #[.str a, .str b] => some (s2l a, s2l b)
        | _ => none
      ({ name := s2l (getStrD d "name"), checkStr := s2l (getStrD d "check_str"),
         description := optLines (getD d "description"), operations := ops,
         scopeTypes := (match getD d "scope_types" with | .null => none | y => some (strs y)),
         deprecatedForRemoval := getBoolD d "removal", deprecatedReason := optLines (getD d "reason"),
         deprecatedSince := s2l (getStrD d "since"), deprecated := dep } : GenDefault)
    let lines := sampleYaml wrap split (getBoolD j "exclude_deprecated") ds
    pure (Json.mkObj [("lines", .arr (lines.map fun l => Json.str (l2s l)).toArray),
                      ("json", .arr ((sampleJsonEntries ds).map fun l => Json.str (l2s l)).toArray)])
  | "tool_upgrade" | "tool_convert" | "tool_generate" | "tool_redundant" => do
    let file ← contentOf (getD j "file")
    let regs ← regsOf j
    let enc (v : JVal) : Json := Json.str (l2s v.pyStr)
    let outC (c : Content) : Json := .arr (c.map fun (k, v) => Json.arr #[Json.str (l2s k), enc v]).toArray
    match getStrD j "op" with
    | "tool_upgrade" => pure (Json.mkObj [("out", outC (toolUpgrade file regs))])
    | "tool_convert" => pure (Json.mkObj [("out", outC (toolConvert file regs))])
    | "tool_generate" => pure (Json.mkObj [("out", outC (toolGenerate file regs))])
    | _ => pure (Json.mkObj [("names", .arr ((toolRedundant file regs).map fun n => Json.str (l2s n)).toArray)])
  | "checker" => do
    -- {"rules":[…], "token":<obj>, "is_admin":b, "target_file":<obj>|null, "requested":str|null, "lit":{…}}
    let rules0 ← rulesOf j
    let rules : Rules := { rules0 with default := .name "default".toList }
    let token ← tgtOf (← toJVal (getD j "token"))
    let tf ← match getD j "target_file" with
      | .null => pure none
      | t => do let v ← tgtOf (← toJVal t); pure (some v)
    let credsL := deriveCreds token (getBoolD j "is_admin")
    let tgt := deriveTarget token credsL tf
    let creds : JVal := .obj credsL []
    let env := envOf j
    let leafOf := fun (c : JVal) (cur : Option Str) => leafEval env tgt c cur
    let req : Option Str := match getD j "requested" with | .str s => some (s2l s) | _ => none
    let res := checkerRun rules leafOf (getNatD j "fuel" 64) creds req
    let verdict (o : Outcome) : String := match o with
      | .ret true => "passed" | .ret false => "failed" | .raise _ => "exception"
    pure (Json.mkObj [("lines", .arr (res.map fun (k, o) => Json.arr #[Json.str (l2s k), Json.str (verdict o)]).toArray),
      ("target", .arr (tgt.map fun (k, v) => Json.arr #[Json.str (l2s k), Json.str (l2s v.pyStr)]).toArray),
      ("cred_keys", .arr (credsL.map fun (k, _) => Json.str (l2s k)).toArray)])
  | "spec_den" => do
    -- {"e": <stratified expression>, "assign": [[true leaf texts…]…]} ↦ Boolean value of the
    -- sentence under each assignment, computed by Spec.Grammar (not by the parser model)
    let e ← toE0 (getD j "e")
    let dens := (getArrD j "assign").toList.map fun a =>
      let trues : List Str := match a with
        | .arr xs => xs.toList.filterMap fun x => match x with | .str s => some (s2l s) | _ => none
        | _ => []
      Json.bool (e.den fun k m => trues.contains (k ++ ':' :: m))
    pure (Json.mkObj [("den", .arr dens.toArray), ("render", .arr (e.render.map tokJson).toArray)])
  | op => throw s!"unknown op {op}"

end Drv

partial def loop (h : IO.FS.Stream) (out : IO.FS.Stream) : IO Unit := do
  let line ← h.getLine
  if line.isEmpty then return ()
  let ans : Json := match Json.parse line with
    | .error e => Json.mkObj [("error", s!"json: {e}")]
    | .ok j => match Drv.handle j with
      | .ok r => r
      | .error e => Json.mkObj [("error", e)]
  out.putStrLn ans.compress
  loop h out

def main : IO Unit := do
  let out ← IO.getStdout
  loop (← IO.getStdin) out
  out.flush
