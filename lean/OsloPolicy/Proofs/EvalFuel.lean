import OsloPolicy.Model.Eval
/-
Fuel monotonicity of the evaluator: once an evaluation finishes without exhausting its
fuel, more fuel gives the same outcome.  Also: `KeyError` cannot come out of a reference.
-/
namespace OsloPolicy

def NoRec (leaf : Str → Str → Outcome) : Prop := ∀ k m, leaf k m ≠ .raise .recursion
def NoKey (leaf : Str → Str → Outcome) : Prop := ∀ k m, leaf k m ≠ .raise .keyError

mutual
theorem evalTree_mono (leaf : Str → Str → Outcome) (r r' : Str → Outcome)
    (h : ∀ m, r m ≠ .raise .recursion → r' m = r m) :
    (t : Tree) → evalTree leaf r t ≠ .raise .recursion → evalTree leaf r' t = evalTree leaf r t
  | .tt, _ => by simp [evalTree]
  | .ff, _ => by simp [evalTree]
  | .chk k m, hne => by
      simp only [evalTree] at hne ⊢
      split
      · next hk => simp only [hk, ↓reduceIte] at hne; exact h m hne
      · rfl
  | .not t, hne => by
      simp only [evalTree] at hne ⊢
      have : evalTree leaf r t ≠ .raise .recursion := by
        intro hc; rw [hc] at hne; exact hne rfl
      rw [evalTree_mono leaf r r' h t this]
  | .and ts, hne => by
      simp only [evalTree] at hne ⊢
      exact evalAll_mono leaf r r' h ts hne
  | .or ts, hne => by
      simp only [evalTree] at hne ⊢
      exact evalAny_mono leaf r r' h ts hne
theorem evalAll_mono (leaf : Str → Str → Outcome) (r r' : Str → Outcome)
    (h : ∀ m, r m ≠ .raise .recursion → r' m = r m) :
    (ts : List Tree) → evalAll leaf r ts ≠ .raise .recursion → evalAll leaf r' ts = evalAll leaf r ts
  | [], _ => by simp [evalAll]
  | t :: ts, hne => by
      simp only [evalAll] at hne ⊢
      have ht : evalTree leaf r t ≠ .raise .recursion := by
        intro hc; rw [hc] at hne; exact hne rfl
      rw [evalTree_mono leaf r r' h t ht]
      cases hv : evalTree leaf r t with
      | ret b =>
        cases b with
        | true => rw [hv] at hne; exact evalAll_mono leaf r r' h ts hne
        | false => rfl
      | raise x => rfl
theorem evalAny_mono (leaf : Str → Str → Outcome) (r r' : Str → Outcome)
    (h : ∀ m, r m ≠ .raise .recursion → r' m = r m) :
    (ts : List Tree) → evalAny leaf r ts ≠ .raise .recursion → evalAny leaf r' ts = evalAny leaf r ts
  | [], _ => by simp [evalAny]
  | t :: ts, hne => by
      simp only [evalAny] at hne ⊢
      have ht : evalTree leaf r t ≠ .raise .recursion := by
        intro hc; rw [hc] at hne; exact hne rfl
      rw [evalTree_mono leaf r r' h t ht]
      cases hv : evalTree leaf r t with
      | ret b =>
        cases b with
        | false => rw [hv] at hne; exact evalAny_mono leaf r r' h ts hne
        | true => rfl
      | raise x => rfl
end

/-- the `try … except KeyError` wrapper of `RuleCheck.__call__` -/
def catchKey : Outcome → Outcome
  | .raise .keyError => .ret false
  | o => o

theorem evalRef_succ (rs : Rules) (leaf) (n : Nat) (m : Str) :
    evalRef rs leaf (n + 1) m =
      match rs.lookup m with
      | none => .ret false
      | some t => catchKey (evalTree leaf (evalRef rs leaf n) t) := by
  simp only [evalRef]
  cases rs.lookup m with
  | none => rfl
  | some t => simp only []; cases evalTree leaf (evalRef rs leaf n) t with
    | ret b => rfl
    | raise x => cases x <;> rfl

theorem catchKey_ne_rec (o : Outcome) (h : catchKey o ≠ .raise .recursion) : o ≠ .raise .recursion := by
  intro hc; subst hc; exact h rfl

theorem catchKey_of_ne_rec (o o' : Outcome) (h : o' = o) : catchKey o' = catchKey o := by rw [h]

/-- One more level of fuel does not change a finished evaluation of a reference. -/
theorem evalRef_mono (rs : Rules) (leaf) : ∀ (n : Nat) (m : Str),
    evalRef rs leaf n m ≠ .raise .recursion → evalRef rs leaf (n + 1) m = evalRef rs leaf n m := by
  intro n
  induction n with
  | zero => intro m h; exact absurd rfl h
  | succ n ih =>
    intro m h
    rw [evalRef_succ] at h
    rw [evalRef_succ rs leaf (n + 1), evalRef_succ rs leaf n]
    cases hl : rs.lookup m with
    | none => rfl
    | some t =>
      simp only [hl] at h ⊢
      rw [evalTree_mono leaf (evalRef rs leaf n) (evalRef rs leaf (n + 1)) ih t (catchKey_ne_rec _ h)]

theorem evalRef_stable (rs : Rules) (leaf) (n k : Nat) (m : Str)
    (h : evalRef rs leaf n m ≠ .raise .recursion) : evalRef rs leaf (n + k) m = evalRef rs leaf n m := by
  induction k with
  | zero => rfl
  | succ k ih =>
    rw [← Nat.add_assoc, evalRef_mono rs leaf (n + k) m (by rw [ih]; exact h), ih]

/-- More fuel does not change a finished evaluation of a tree. -/
theorem eval_mono (rs : Rules) (leaf) (n : Nat) (t : Tree)
    (h : eval rs leaf n t ≠ .raise .recursion) : eval rs leaf (n + 1) t = eval rs leaf n t :=
  evalTree_mono leaf _ _ (evalRef_mono rs leaf n) t h

/-- A reference never lets `KeyError` out. -/
theorem evalRef_ne_key (rs : Rules) (leaf) (n : Nat) (m : Str) :
    evalRef rs leaf n m ≠ .raise .keyError := by
  cases n with
  | zero => simp [evalRef]
  | succ n =>
    rw [evalRef_succ]
    cases rs.lookup m with
    | none => simp
    | some t =>
      simp only []
      cases evalTree leaf (evalRef rs leaf n) t with
      | ret b => simp [catchKey]
      | raise x => cases x <;> simp [catchKey]

mutual
theorem evalTree_ne_key (leaf) (r : Str → Outcome) (hl : NoKey leaf) (hr : ∀ m, r m ≠ .raise .keyError) :
    (t : Tree) → evalTree leaf r t ≠ .raise .keyError
  | .tt => by simp [evalTree]
  | .ff => by simp [evalTree]
  | .chk k m => by simp only [evalTree]; split; exact hr m; exact hl k m
  | .not t => by
      simp only [evalTree]
      have := evalTree_ne_key leaf r hl hr t
      cases h : evalTree leaf r t with
      | ret b => simp
      | raise x => rw [h] at this; simpa using this
  | .and ts => by simp only [evalTree]; exact evalAll_ne_key leaf r hl hr ts
  | .or ts => by simp only [evalTree]; exact evalAny_ne_key leaf r hl hr ts
theorem evalAll_ne_key (leaf) (r : Str → Outcome) (hl : NoKey leaf) (hr : ∀ m, r m ≠ .raise .keyError) :
    (ts : List Tree) → evalAll leaf r ts ≠ .raise .keyError
  | [] => by simp [evalAll]
  | t :: ts => by
      simp only [evalAll]
      have := evalTree_ne_key leaf r hl hr t
      cases h : evalTree leaf r t with
      | ret b => cases b <;> simp [evalAll_ne_key leaf r hl hr ts]
      | raise x => rw [h] at this; simpa using this
theorem evalAny_ne_key (leaf) (r : Str → Outcome) (hl : NoKey leaf) (hr : ∀ m, r m ≠ .raise .keyError) :
    (ts : List Tree) → evalAny leaf r ts ≠ .raise .keyError
  | [] => by simp [evalAny]
  | t :: ts => by
      simp only [evalAny]
      have := evalTree_ne_key leaf r hl hr t
      cases h : evalTree leaf r t with
      | ret b => cases b <;> simp [evalAny_ne_key leaf r hl hr ts]
      | raise x => rw [h] at this; simpa using this
end

theorem catchKey_id (o : Outcome) (h : o ≠ .raise .keyError) : catchKey o = o := by
  cases o with
  | ret b => rfl
  | raise x => cases x <;> first | rfl | exact absurd rfl h

end OsloPolicy
