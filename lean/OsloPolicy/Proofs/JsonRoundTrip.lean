import OsloPolicy.Model.SampleGen
/-
Reading back what `_format_check_str` wrote: a decoder of JSON double-quoted strings and the round trip
`jsonDecode (formatCheckStr s) = some s`.
-/
namespace OsloPolicy

/-- value of a hexadecimal digit (either case) -/
def hexVal (c : Char) : Option Nat :=
  if 48 ≤ c.toNat ∧ c.toNat ≤ 57 then some (c.toNat - 48)
  else if 97 ≤ c.toNat ∧ c.toNat ≤ 102 then some (c.toNat - 87)
  else if 65 ≤ c.toNat ∧ c.toNat ≤ 70 then some (c.toNat - 55)
  else none

/-- value of four hexadecimal digits -/
def hex4 (a b c d : Char) : Option Nat :=
  match hexVal a, hexVal b, hexVal c, hexVal d with
  | some x, some y, some z, some w => some (x * 4096 + y * 256 + z * 16 + w)
  | _, _, _, _ => none

/-- the character of a one-letter escape `\e` -/
def simpleEsc (e : Char) : Option Char :=
  if e = '"' then some '"'
  else if e = '\\' then some '\\'
  else if e = '/' then some '/'
  else if e = 'n' then some '\n'
  else if e = 'r' then some '\r'
  else if e = 't' then some '\t'
  else if e = 'b' then some '\x08'
  else if e = 'f' then some '\x0c'
  else none

/-- decode the characters between the double quotes of a JSON string: `\"` `\\` `\/` `\n` `\r` `\t` `\b` `\f`, `\uXXXX`
(a high surrogate must be followed by a `\uXXXX` low surrogate, the pair denoting one character above U+FFFF); any other
character stands for itself; `none` for a dangling backslash, an unknown escape, bad hex digits, a lone surrogate or a raw `"`. -/
def jsonDecodeBody : Str → Option Str
  | [] => some []
  | c :: rest =>
    if c = '"' then none
    else if c ≠ '\\' then (jsonDecodeBody rest).map (c :: ·)
    else match rest with
      | [] => none
      | e :: rest1 =>
        if e ≠ 'u' then
          match simpleEsc e with
          | none => none
          | some x => (jsonDecodeBody rest1).map (x :: ·)
        else match rest1 with
          | a :: b :: c :: d :: rest2 =>
            match hex4 a b c d with
            | none => none
            | some n =>
              if n < 55296 ∨ 57343 < n then (jsonDecodeBody rest2).map (Char.ofNat n :: ·)
              else if 56320 ≤ n then none      -- lone low surrogate
              else match rest2 with
                | bs :: u :: a' :: b' :: c' :: d' :: rest3 =>
                  if bs = '\\' ∧ u = 'u' then
                    match hex4 a' b' c' d' with
                    | none => none
                    | some m =>
                      if 56320 ≤ m ∧ m ≤ 57343 then
                        (jsonDecodeBody rest3).map (Char.ofNat (65536 + (n - 55296) * 1024 + (m - 56320)) :: ·)
                      else none
                  else none
                | _ => none
          | _ => none

/-- a whole double-quoted scalar -/
def jsonDecode : Str → Option Str
  | '"' :: rest => if rest.getLast? = some '"' then jsonDecodeBody rest.dropLast else none
  | _ => none


/-! ### unfolding lemmas -/

theorem decode_nil : jsonDecodeBody [] = some [] := by
  conv => lhs; rw [jsonDecodeBody.eq_def]

theorem decode_raw (c : Char) (rest : Str) (h1 : c ≠ '"') (h2 : c ≠ '\\') :
    jsonDecodeBody (c :: rest) = (jsonDecodeBody rest).map (c :: ·) := by
  conv => lhs; rw [jsonDecodeBody.eq_def]
  simp only [if_neg h1, if_pos h2]

private theorem bs_ne_quote : ('\\' : Char) ≠ '"' := by decide

theorem decode_simple (e x : Char) (rest : Str) (he : e ≠ 'u') (hx : simpleEsc e = some x) :
    jsonDecodeBody ('\\' :: e :: rest) = (jsonDecodeBody rest).map (x :: ·) := by
  conv => lhs; rw [jsonDecodeBody.eq_def]
  simp only [if_neg bs_ne_quote, ne_eq, not_true_eq_false, if_false, if_pos he, hx]

theorem decode_u (a b c d : Char) (n : Nat) (rest : Str) (hn : hex4 a b c d = some n)
    (hr : n < 55296 ∨ 57343 < n) :
    jsonDecodeBody ('\\' :: 'u' :: a :: b :: c :: d :: rest) = (jsonDecodeBody rest).map (Char.ofNat n :: ·) := by
  conv => lhs; rw [jsonDecodeBody.eq_def]
  simp only [if_neg bs_ne_quote, ne_eq, not_true_eq_false, if_false, hn, if_pos hr]

theorem decode_pair (a b c d a' b' c' d' : Char) (n m : Nat) (rest : Str)
    (hn : hex4 a b c d = some n) (hm : hex4 a' b' c' d' = some m)
    (hr : 55296 ≤ n ∧ n < 56320) (hr' : 56320 ≤ m ∧ m ≤ 57343) :
    jsonDecodeBody ('\\' :: 'u' :: a :: b :: c :: d :: '\\' :: 'u' :: a' :: b' :: c' :: d' :: rest) =
      (jsonDecodeBody rest).map (Char.ofNat (65536 + (n - 55296) * 1024 + (m - 56320)) :: ·) := by
  conv => lhs; rw [jsonDecodeBody.eq_def]
  have h1 : ¬ (n < 55296 ∨ 57343 < n) := by omega
  have h2 : ¬ (56320 ≤ n) := by omega
  simp only [if_neg bs_ne_quote, ne_eq, not_true_eq_false, if_false, hn, hm, if_neg h1, if_neg h2, and_self, if_true,
    if_pos hr']

/-! ### hexadecimal digits -/

theorem hexDigit_mod (n : Nat) : hexDigit n = hexDigit (n % 16) := by
  unfold hexDigit
  rw [Nat.mod_mod]

theorem hexVal_hexDigit_lt : ∀ m, m < 16 → hexVal (hexDigit m) = some m := by decide

theorem hexVal_hexDigit (n : Nat) : hexVal (hexDigit n) = some (n % 16) := by
  rw [hexDigit_mod]
  exact hexVal_hexDigit_lt _ (Nat.mod_lt _ (by decide))

/-- the four digits written by `u4` read back as the number -/
theorem hex4_u4 (n : Nat) (h : n < 65536) :
    hex4 (hexDigit (n / 4096)) (hexDigit (n / 256)) (hexDigit (n / 16)) (hexDigit n) = some n := by
  unfold hex4
  simp only [hexVal_hexDigit]
  congr 1
  omega

theorem char_range (c : Char) : c.toNat < 55296 ∨ (57343 < c.toNat ∧ c.toNat < 1114112) := c.valid

/-! ### one character -/

theorem decode_u4 (n : Nat) (rest : Str) (h : n < 55296 ∨ (57343 < n ∧ n < 65536)) :
    jsonDecodeBody (u4 n ++ rest) = (jsonDecodeBody rest).map (Char.ofNat n :: ·) := by
  unfold u4
  exact decode_u _ _ _ _ n rest (hex4_u4 n (by omega)) (by omega)

theorem decode_u4_pair (v : Nat) (rest : Str) (h : v < 1048576) :
    jsonDecodeBody (u4 (55296 + v / 1024) ++ u4 (56320 + v % 1024) ++ rest) =
      (jsonDecodeBody rest).map (Char.ofNat (65536 + v) :: ·) := by
  unfold u4
  have := decode_pair _ _ _ _ _ _ _ _ (55296 + v / 1024) (56320 + v % 1024) rest
    (hex4_u4 (55296 + v / 1024) (by omega)) (hex4_u4 (56320 + v % 1024) (by omega)) (by omega) (by omega)
  have e : 65536 + (55296 + v / 1024 - 55296) * 1024 + (56320 + v % 1024 - 56320) = 65536 + v := by omega
  rw [e] at this
  exact this

theorem decode_escChar (c : Char) (rest : Str) :
    jsonDecodeBody (jsonEscChar c ++ rest) = (jsonDecodeBody rest).map (c :: ·) := by
  unfold jsonEscChar
  split
  · rename_i h; subst h; exact decode_simple _ _ rest (by decide) (by decide)
  split
  · rename_i h; subst h; exact decode_simple _ _ rest (by decide) (by decide)
  split
  · rename_i h; subst h; exact decode_simple _ _ rest (by decide) (by decide)
  split
  · rename_i h; subst h; exact decode_simple _ _ rest (by decide) (by decide)
  split
  · rename_i h; subst h; exact decode_simple _ _ rest (by decide) (by decide)
  split
  · rename_i h; subst h; exact decode_simple _ _ rest (by decide) (by decide)
  split
  · rename_i h; subst h; exact decode_simple _ _ rest (by decide) (by decide)
  split
  · rename_i h1 h2 _ _ _ _ _ _
    exact decode_raw c rest h1 h2
  split
  · rename_i h32 h
    have := decode_u4 c.toNat rest (by have := char_range c; omega)
    rw [Char.ofNat_toNat] at this
    exact this
  · rename_i h32 h
    have := decode_u4_pair (c.toNat - 65536) rest (by have := char_range c; omega)
    have e : 65536 + (c.toNat - 65536) = c.toNat := by omega
    rw [e, Char.ofNat_toNat] at this
    exact this

theorem decode_escape (s : Str) : jsonDecodeBody (s.flatMap jsonEscChar) = some s := by
  induction s with
  | nil => exact decode_nil
  | cons c s ih => rw [List.flatMap_cons, decode_escChar, ih]; rfl

/-- a plain string (nothing to escape) decodes to itself -/
theorem decode_plain (s : Str) (h : needsEscape s = false) : jsonDecodeBody s = some s := by
  induction s with
  | nil => exact decode_nil
  | cons c s ih =>
    simp only [needsEscape, List.any_cons, Bool.or_eq_false_iff, decide_eq_false_iff_not] at h
    obtain ⟨⟨⟨h1, h2⟩, -⟩, h3⟩ := h
    rw [decode_raw c s h1 h2, ih h3]; rfl

theorem jsonDecode_q (body : Str) : jsonDecode ('"' :: body ++ ['"']) = jsonDecodeBody body := by
  show jsonDecode ('"' :: (body ++ ['"'])) = _
  unfold jsonDecode
  simp only [List.getLast?_concat, if_true, List.dropLast_concat]

/-- **Round trip**: whatever the check string, reading back what `_format_check_str` wrote gives the check string. -/
theorem decode_formatCheckStr (s : Str) : jsonDecode (formatCheckStr s) = some s := by
  unfold formatCheckStr
  split
  · rw [jsonDecode_q, decode_escape]
  · rename_i h
    unfold q
    rw [jsonDecode_q]
    exact decode_plain s (by simpa using h)

/-! ### sanity: the decoder is not vacuous (closed instances by kernel evaluation; explicit character lists, since
`String.toList` of a literal is expensive for `decide`) -/

example : jsonDecodeBody ['\\', 'u', '0', '0', 'E', '9', '\\', '/'] = some ['é', '/'] := by decide   -- upper-case hex, `\/`
example : jsonDecodeBody ['\\', 'u', 'D', '8', '3', 'D', '\\', 'u', 'd', 'e', '0', '0'] = some ['😀'] := by decide
example : jsonDecode (formatCheckStr ['a', '"', '\\', '\n', '\x01', 'é', '😀']) =
    some ['a', '"', '\\', '\n', '\x01', 'é', '😀'] := by decide
example : jsonDecodeBody ['\\', 'u', 'D', '8', '3', 'D'] = none := by decide                 -- lone high surrogate
example : jsonDecodeBody ['\\', 'u', 'd', 'e', '0', '0'] = none := by decide                 -- lone low surrogate
example : jsonDecodeBody ['\\', 'u', 'D', '8', '3', 'D', 'x', 'x', 'x', 'x', 'x', 'x'] = none := by decide
example : jsonDecodeBody ['a', '\\'] = none := by decide                                     -- dangling backslash
example : jsonDecodeBody ['\\', 'q'] = none := by decide                                     -- unknown escape
example : jsonDecodeBody ['\\', 'u', '0', '0', 'g', '9'] = none := by decide                 -- bad hex digit
example : jsonDecode ['"', 'a', '"', 'b', '"'] = none := by decide                           -- raw double quote
example : jsonDecode ['"'] = none := by decide
example : jsonDecode ['"', '"'] = some [] := by decide
/-- the hypothesis of `decode_plain` cannot be dropped: a raw `"` or a raw `\` is not read back as itself -/
example : jsonDecodeBody ['a', '"'] = none ∧ jsonDecodeBody ['\\', 'n'] = some ['\n'] := by decide


end OsloPolicy
