import OsloPolicy.Proofs.LexLayout
/-
The printer's output `str(tree)` is a layout (single spaces, parentheses glued to the
neighbouring word) of `printToks tree`; hence the tokenizer reads it back as `printToks`.

Internally a non-empty layout whose last separator is empty is kept as a pair
`(init, w)`: the inner words, each followed by a non-empty separator, and the last word.
-/
namespace OsloPolicy

/-! ### Leaves -/

theorem splitColon_append (k m : Str) (h : ':' ∉ k) : splitColon (k ++ ':' :: m) = some (k, m) := by
  induction k with
  | nil => simp [splitColon]
  | cons a r ih =>
    have ha : a ≠ ':' := fun e => h (by simp [e])
    have hr : ':' ∉ r := fun e => h (by simp [e])
    simp [splitColon, ha, ih hr]

theorem parseCheck_chk (k m : Str) (h : ':' ∉ k) : parseCheck (k ++ ':' :: m) = .chk k m := by
  have hmem : ':' ∈ k ++ ':' :: m := by simp
  have h1 : k ++ ':' :: m ≠ ['!'] := by
    intro e; rw [e] at hmem; revert hmem; decide
  have h2 : k ++ ':' :: m ≠ ['@'] := by
    intro e; rw [e] at hmem; revert hmem; decide
  simp only [parseCheck, if_neg h1, if_neg h2, splitColon_append k m h]

theorem parseCheck_tt : parseCheck ['@'] = .tt := by simp [parseCheck]
theorem parseCheck_ff : parseCheck ['!'] = .ff := by simp [parseCheck]

theorem cleanLeaf_tt : CleanLeaf ['@'] := by
  refine ⟨by decide, ?_, by decide, by decide, by decide, by decide, by decide, by decide⟩
  intro c hc
  simp only [List.mem_singleton] at hc
  subst hc; decide

theorem cleanLeaf_ff : CleanLeaf ['!'] := by
  refine ⟨by decide, ?_, by decide, by decide, by decide, by decide, by decide, by decide⟩
  intro c hc
  simp only [List.mem_singleton] at hc
  subst hc; decide

/-! ### Layouts ending in a word -/

/-- inner words: each one is followed by a non-empty separator -/
def Inner (init : List (Word × Str)) : Prop := ∀ p ∈ init, p.1.WF ∧ IsSep p.2 ∧ p.2 ≠ []

def spellI (init : List (Word × Str)) : Str := init.flatMap (fun p => p.1.chars ++ p.2)
def toksI (init : List (Word × Str)) : List Tok := init.flatMap (fun p => p.1.toks)

/-- text `s` is a layout, ending in a word, that spells `ts` -/
def Lay (s : Str) (ts : List Tok) : Prop :=
  ∃ (init : List (Word × Str)) (w : Word),
    Inner init ∧ w.WF ∧ spellI init ++ w.chars = s ∧ toksI init ++ w.toks = ts

theorem LayoutOK_snoc (init : List (Word × Str)) (w : Word) (s : Str) (hi : Inner init)
    (hw : w.WF) (hs : IsSep s) : LayoutOK (init ++ [(w, s)]) := by
  induction init with
  | nil => exact ⟨hw, hs⟩
  | cons p r ih =>
    have hp := hi p (by simp)
    have hr : Inner r := fun q hq => hi q (by simp [hq])
    have ih' := ih hr
    obtain ⟨w0, s0⟩ := p
    cases r with
    | nil => exact ⟨hp.1, hp.2.1, hp.2.2, ih'⟩
    | cons q r' => exact ⟨hp.1, hp.2.1, hp.2.2, ih'⟩

theorem isSep_space : IsSep [' '] := by
  intro c hc
  simp only [List.mem_singleton] at hc
  subst hc; decide

theorem Word.chars_lead_succ (l t : Nat) (c : Core) :
    Word.chars ⟨l + 1, c, t⟩ = '(' :: Word.chars ⟨l, c, t⟩ := by
  simp [Word.chars, List.replicate_succ]

theorem Word.chars_trail_succ (l t : Nat) (c : Core) :
    Word.chars ⟨l, c, t + 1⟩ = Word.chars ⟨l, c, t⟩ ++ [')'] := by
  simp [Word.chars, List.replicate_succ']

theorem Word.toks_lead_succ (l t : Nat) (c : Core) :
    Word.toks ⟨l + 1, c, t⟩ = .lp :: Word.toks ⟨l, c, t⟩ := by
  simp [Word.toks, List.replicate_succ]

theorem Word.toks_trail_succ (l t : Nat) (c : Core) :
    Word.toks ⟨l, c, t + 1⟩ = Word.toks ⟨l, c, t⟩ ++ [.rp] := by
  simp [Word.toks, List.replicate_succ']

theorem Word.WF.lead_succ {l t : Nat} {c : Core} (h : Word.WF ⟨l, c, t⟩) :
    Word.WF ⟨l + 1, c, t⟩ :=
  ⟨h.1, by rw [Word.chars_lead_succ]; simp⟩

theorem Word.WF.trail_succ {l t : Nat} {c : Core} (h : Word.WF ⟨l, c, t⟩) :
    Word.WF ⟨l, c, t + 1⟩ :=
  ⟨h.1, by rw [Word.chars_trail_succ]; simp⟩

theorem kwWord_WF {k : Tok} {sp : Str} (hk : (Core.kw k sp).WF) : Word.WF ⟨0, .kw k sp, 0⟩ := by
  refine ⟨hk, ?_⟩
  have := (Core.WF.isKw hk).ne_nil
  simpa [Word.chars, Core.chars] using this

theorem Lay.leaf {s : Str} (h : CleanLeaf s) : Lay s [.chk (parseCheck s)] := by
  refine ⟨[], ⟨0, .leaf s, 0⟩, ?_, ⟨h, ?_⟩, ?_, ?_⟩
  · intro p hp; simp at hp
  · simpa [Word.chars, Core.chars] using h.1
  · simp [spellI, Word.chars, Core.chars]
  · simp [toksI, Word.toks, Core.toks]

/-- two layouts joined by a keyword with single spaces around it -/
theorem Lay.join {s1 s2 : Str} {t1 t2 : List Tok} {k : Tok} {sp : Str}
    (hk : (Core.kw k sp).WF) (h1 : Lay s1 t1) (h2 : Lay s2 t2) :
    Lay (s1 ++ (' ' :: sp ++ [' ']) ++ s2) (t1 ++ k :: t2) := by
  obtain ⟨i1, w1, hi1, hw1, rfl, rfl⟩ := h1
  obtain ⟨i2, w2, hi2, hw2, rfl, rfl⟩ := h2
  refine ⟨i1 ++ (w1, [' ']) :: (⟨0, .kw k sp, 0⟩, [' ']) :: i2, w2, ?_, hw2, ?_, ?_⟩
  · intro p hp
    simp only [List.mem_append, List.mem_cons] at hp
    rcases hp with hp | rfl | rfl | hp
    · exact hi1 p hp
    · exact ⟨hw1, isSep_space, by simp⟩
    · exact ⟨kwWord_WF hk, isSep_space, by simp⟩
    · exact hi2 p hp
  · simp [spellI, Word.chars, Core.chars]
  · simp [toksI, Word.toks, Core.toks]

/-- a keyword word and a space in front of a layout -/
theorem Lay.prefixKw {s : Str} {t : List Tok} {k : Tok} {sp : Str}
    (hk : (Core.kw k sp).WF) (h : Lay s t) : Lay (sp ++ ' ' :: s) (k :: t) := by
  obtain ⟨i, w, hi, hw, rfl, rfl⟩ := h
  refine ⟨(⟨0, .kw k sp, 0⟩, [' ']) :: i, w, ?_, hw, ?_, ?_⟩
  · intro p hp
    simp only [List.mem_cons] at hp
    rcases hp with rfl | hp
    · exact ⟨kwWord_WF hk, isSep_space, by simp⟩
    · exact hi p hp
  · simp [spellI, Word.chars, Core.chars]
  · simp [toksI, Word.toks, Core.toks]

/-- parentheses glued around a layout -/
theorem Lay.paren {s : Str} {t : List Tok} (h : Lay s t) :
    Lay ('(' :: s ++ [')']) (.lp :: t ++ [.rp]) := by
  obtain ⟨i, ⟨l, c, tr⟩, hi, hw, rfl, rfl⟩ := h
  cases i with
  | nil =>
    refine ⟨[], ⟨l + 1, c, tr + 1⟩, ?_, hw.lead_succ.trail_succ, ?_, ?_⟩
    · intro p hp; simp at hp
    · simp [spellI, Word.chars_lead_succ, Word.chars_trail_succ]
    · simp [toksI, Word.toks_lead_succ, Word.toks_trail_succ]
  | cons p r =>
    obtain ⟨⟨l0, c0, t0⟩, s0⟩ := p
    have hp := hi _ (List.mem_cons_self)
    refine ⟨(⟨l0 + 1, c0, t0⟩, s0) :: r, ⟨l, c, tr + 1⟩, ?_, hw.trail_succ, ?_, ?_⟩
    · intro q hq
      simp only [List.mem_cons] at hq
      rcases hq with rfl | hq
      · exact ⟨hp.1.lead_succ, hp.2⟩
      · exact hi q (by simp [hq])
    · simp [spellI, Word.chars_lead_succ, Word.chars_trail_succ]
    · simp [toksI, Word.toks_lead_succ, Word.toks_trail_succ]

theorem Lay.toLayout {s : Str} {t : List Tok} (h : Lay s t) :
    ∃ ws : List (Word × Str), ws ≠ [] ∧ LayoutOK ws ∧ spell [] ws = s ∧
      ws.flatMap (fun p => p.1.toks) = t ∧ (ws.getLast?.map (·.2) = some []) := by
  obtain ⟨i, w, hi, hw, rfl, rfl⟩ := h
  refine ⟨i ++ [(w, [])], by simp, LayoutOK_snoc i w [] hi hw (by intro c hc; simp at hc), ?_, ?_, ?_⟩
  · simp [spell, spellI]
  · simp [toksI]
  · simp

/-! ### The printer -/

theorem kwAnd_WF : (Core.kw .kAnd "and".toList).WF := .inl ⟨rfl, by decide⟩
theorem kwOr_WF : (Core.kw .kOr "or".toList).WF := .inr (.inl ⟨rfl, by decide⟩)
theorem kwNot_WF : (Core.kw .kNot "not".toList).WF := .inr (.inr ⟨rfl, by decide⟩)

mutual
theorem print_lay : (t : Tree) → WFT t → Lay t.print (printToks t)
  | .tt, _ => by
    have := Lay.leaf cleanLeaf_tt
    rw [parseCheck_tt] at this
    simpa [Tree.print, printToks] using this
  | .ff, _ => by
    have := Lay.leaf cleanLeaf_ff
    rw [parseCheck_ff] at this
    simpa [Tree.print, printToks] using this
  | .chk k m, h => by
    simp only [WFT] at h
    have := Lay.leaf h.1
    rw [parseCheck_chk k m h.2] at this
    simpa [Tree.print, printToks] using this
  | .not t, h => by
    simp only [WFT] at h
    have := Lay.prefixKw kwNot_WF (print_lay t h)
    simpa [Tree.print, printToks] using this
  | .and ts, h => by
    simp only [WFT] at h
    have hne : ts ≠ [] := by rintro rfl; simp at h
    have := (printList_lay .kAnd "and".toList kwAnd_WF ts hne h.2).paren
    simpa [Tree.print, printToks] using this
  | .or ts, h => by
    simp only [WFT] at h
    have hne : ts ≠ [] := by rintro rfl; simp at h
    have := (printList_lay .kOr "or".toList kwOr_WF ts hne h.2).paren
    simpa [Tree.print, printToks] using this
theorem printList_lay (k : Tok) (sp : Str) (hk : (Core.kw k sp).WF) :
    (ts : List Tree) → ts ≠ [] → WFTs ts →
      Lay (joinWith (' ' :: sp ++ [' ']) (printList ts)) (sepToks k ts)
  | [], h, _ => absurd rfl h
  | [t], _, h => by
    simp only [WFTs] at h
    simpa [printList, joinWith, sepToks] using print_lay t h.1
  | t :: u :: r, _, h => by
    simp only [WFTs] at h
    have h1 := print_lay t h.1
    have h2 := printList_lay k sp hk (u :: r) (by simp) (by simpa [WFTs] using h.2)
    have := Lay.join hk h1 h2
    simpa [printList, joinWith, sepToks] using this
end

/-- `str(tree)` is a well-formed layout (single spaces, parentheses glued) spelling `printToks t` -/
theorem print_layout (t : Tree) (h : WFT t) :
    ∃ ws : List (Word × Str), ws ≠ [] ∧ LayoutOK ws ∧ spell [] ws = t.print ∧
      ws.flatMap (fun p => p.1.toks) = printToks t ∧ (ws.getLast?.map (·.2) = some []) :=
  (print_lay t h).toLayout

/-- consequently the tokenizer reads the printed text as `printToks t` -/
theorem tokenize_print (t : Tree) (h : WFT t) : tokenize t.print = printToks t := by
  obtain ⟨ws, _, hok, hsp, htk, _⟩ := print_layout t h
  rw [← hsp, ← htk]
  exact tokenize_spell [] ws (by intro c hc; simp at hc) hok

end OsloPolicy
