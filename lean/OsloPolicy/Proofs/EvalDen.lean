import OsloPolicy.Spec.Grammar
import OsloPolicy.Model.Eval
/-
Link between the evaluator (which short-circuits and propagates exceptions) and the
Boolean denotation: when every leaf returns a decision, the tree evaluates to its
denotation.
-/
namespace OsloPolicy

/-- The valuation induced by leaf and reference evaluators. -/
def valOf (ρ : Str → Str → Bool) (leaf : Str → Str → Outcome) (ref : Str → Outcome) : Prop :=
  (∀ k m, k ≠ "rule".toList → leaf k m = .ret (ρ k m)) ∧ (∀ m, ref m = .ret (ρ "rule".toList m))

mutual
theorem evalTree_den (ρ leaf ref) (h : valOf ρ leaf ref) :
    (t : Tree) → evalTree leaf ref t = .ret (t.den ρ)
  | .tt => by simp [evalTree, Tree.den]
  | .ff => by simp [evalTree, Tree.den]
  | .chk k m => by
      simp only [evalTree, Tree.den]
      split
      · next hk => subst hk; exact h.2 m
      · next hk => exact h.1 k m hk
  | .not t => by simp [evalTree, Tree.den, evalTree_den ρ leaf ref h t]
  | .and ts => by simp [evalTree, Tree.den, evalAll_den ρ leaf ref h ts]
  | .or ts => by simp [evalTree, Tree.den, evalAny_den ρ leaf ref h ts]
theorem evalAll_den (ρ leaf ref) (h : valOf ρ leaf ref) :
    (ts : List Tree) → evalAll leaf ref ts = .ret (denAll ρ ts)
  | [] => by simp [evalAll, denAll]
  | t :: ts => by
      simp only [evalAll, denAll, evalTree_den ρ leaf ref h t]
      cases t.den ρ <;> simp [evalAll_den ρ leaf ref h ts]
theorem evalAny_den (ρ leaf ref) (h : valOf ρ leaf ref) :
    (ts : List Tree) → evalAny leaf ref ts = .ret (denAny ρ ts)
  | [] => by simp [evalAny, denAny]
  | t :: ts => by
      simp only [evalAny, denAny, evalTree_den ρ leaf ref h t]
      cases t.den ρ <;> simp [evalAny_den ρ leaf ref h ts]
end

end OsloPolicy
