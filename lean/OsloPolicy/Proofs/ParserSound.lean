import OsloPolicy.Proofs.ParserDen
/-
The parser accepts only sentences of the documented grammar: every non-terminal stack
entry carries a grammar derivation of exactly the tokens it covers.
-/
namespace OsloPolicy

def Ent.Wit : Ent → List Tok → Prop
  | .lp, w => w = [.lp]
  | .rp, w => w = [.rp]
  | .kAnd, w => w = [.kAnd]
  | .kOr, w => w = [.kOr]
  | .kNot, w => w = [.kNot]
  | .str s, w => w = [.str s]
  | .chk t, w => ∃ e : E 2, sem2 e = t ∧ e.render = w
  | .andE ts, w => ∃ e : E 1, sem1 e = ts ∧ 2 ≤ ts.length ∧ e.render = w
  | .orE ts, w => ∃ (l : E 0) (r : E 1), orCtx (sem0 l) (sem1 r) = .orE ts ∧ (E.or l r).render = w

inductive SInv : List Ent → List Tok → Prop
  | nil : SInv [] []
  | cons {st w X w' w''} : SInv st w → X.Wit w' → w'' = w ++ w' → SInv (X :: st) w''

theorem SInv.uncons {X st w} (h : SInv (X :: st) w) :
    ∃ w0 w', SInv st w0 ∧ X.Wit w' ∧ w = w0 ++ w' := by
  cases h with
  | cons h1 h2 h3 => exact ⟨_, _, h1, h2, h3⟩

theorem ent1_two (ts : List Tree) (h : 2 ≤ ts.length) : ent1 ts = .andE ts := by
  match ts, h with
  | x :: y :: r, _ => simp [ent1]

theorem reduce_inv : ∀ st w, SInv st w → SInv (reduce st) w := by
  intro st
  fun_induction reduce st with
  | case1 t r ih =>   -- rp chk lp
    intro w h
    obtain ⟨w1, wr, h1, hr, rfl⟩ := h.uncons
    obtain ⟨w2, wc, h2, ⟨e, he, hre⟩, rfl⟩ := h1.uncons
    obtain ⟨w3, wl, h3, hl, rfl⟩ := h2.uncons
    simp [Ent.Wit] at hr hl; subst hr hl
    apply ih
    refine .cons h3 (X := .chk t) ⟨.paren (.up0 (.up1 e)), ?_, rfl⟩ ?_
    · simp [sem2, sem0, sem1, ent1, entTree, he]
    · simp [E.render, hre]
  | case2 ts r ih =>  -- rp andE lp
    intro w h
    obtain ⟨w1, wr, h1, hr, rfl⟩ := h.uncons
    obtain ⟨w2, wc, h2, ⟨e, he, hlen, hre⟩, rfl⟩ := h1.uncons
    obtain ⟨w3, wl, h3, hl, rfl⟩ := h2.uncons
    simp [Ent.Wit] at hr hl; subst hr hl
    apply ih
    refine .cons h3 (X := .chk (.and ts)) ⟨.paren (.up0 e), ?_, rfl⟩ ?_
    · simp [sem2, sem0, he, ent1_two ts hlen, entTree]
    · simp [E.render, hre]
  | case3 ts r ih =>  -- rp orE lp
    intro w h
    obtain ⟨w1, wr, h1, hr, rfl⟩ := h.uncons
    obtain ⟨w2, wc, h2, ⟨l, r', he, hre⟩, rfl⟩ := h1.uncons
    obtain ⟨w3, wl, h3, hl, rfl⟩ := h2.uncons
    simp [Ent.Wit] at hr hl; subst hr hl
    apply ih
    refine .cons h3 (X := .chk (.or ts)) ⟨.paren (.or l r'), ?_, rfl⟩ ?_
    · simp [sem2, sem0, he, entTree]
    · simp [E.render] at hre ⊢; simp [← hre]
  | case4 b a r ih =>  -- chk and chk
    intro w h
    obtain ⟨w1, wb, h1, ⟨eb, hb, hrb⟩, rfl⟩ := h.uncons
    obtain ⟨w2, wk, h2, hk, rfl⟩ := h1.uncons
    obtain ⟨w3, wa, h3, ⟨ea, ha, hra⟩, rfl⟩ := h2.uncons
    simp [Ent.Wit] at hk; subst hk
    apply ih
    refine .cons h3 (X := .andE [a, b]) ⟨.and (.up1 ea) eb, ?_, by simp, rfl⟩ ?_
    · simp [sem1, ha, hb]
    · simp [E.render, hra, hrb]
  | case5 c ts r ih =>  -- chk and orE : mix
    intro w h
    obtain ⟨w1, wb, h1, ⟨ec, hc, hrc⟩, rfl⟩ := h.uncons
    obtain ⟨w2, wk, h2, hk, rfl⟩ := h1.uncons
    obtain ⟨w3, wa, h3, ⟨l, r', he, hre⟩, rfl⟩ := h2.uncons
    simp [Ent.Wit] at hk; subst hk
    apply ih
    refine .cons h3 (X := .orE (mixLast ts c)) ⟨l, .and r' ec, ?_, rfl⟩ ?_
    · have hne := sem1_ne r'
      simp only [sem1]
      generalize sem1 r' = ops at he hne
      match ops, hne with
      | f :: rest, _ =>
        simp only [orCtx, List.cons_append, List.foldl_append, List.foldl_cons, List.foldl_nil] at he ⊢
        injection he with he
        rw [he, hc]
    · simp [E.render] at hre ⊢; simp [← hre, hrc]
  | case6 c ts r ih =>  -- chk and andE
    intro w h
    obtain ⟨w1, wb, h1, ⟨ec, hc, hrc⟩, rfl⟩ := h.uncons
    obtain ⟨w2, wk, h2, hk, rfl⟩ := h1.uncons
    obtain ⟨w3, wa, h3, ⟨ea, ha, hlen, hra⟩, rfl⟩ := h2.uncons
    simp [Ent.Wit] at hk; subst hk
    apply ih
    refine .cons h3 (X := .andE (ts ++ [c])) ⟨.and ea ec, ?_, by simp; omega, rfl⟩ ?_
    · simp [sem1, ha, hc]
    · simp [E.render, hra, hrc]
  | case7 b a r ih =>  -- chk or chk
    intro w h
    obtain ⟨w1, wb, h1, ⟨eb, hb, hrb⟩, rfl⟩ := h.uncons
    obtain ⟨w2, wk, h2, hk, rfl⟩ := h1.uncons
    obtain ⟨w3, wa, h3, ⟨ea, ha, hra⟩, rfl⟩ := h2.uncons
    simp [Ent.Wit] at hk; subst hk
    apply ih
    refine .cons h3 (X := .orE [a, b]) ⟨.up0 (.up1 ea), .up1 eb, ?_, rfl⟩ ?_
    · simp [sem0, sem1, ent1, orCtx, toOrList, ha, hb]
    · simp [E.render, hra, hrb]
  | case8 b ts r ih =>  -- chk or andE
    intro w h
    obtain ⟨w1, wb, h1, ⟨eb, hb, hrb⟩, rfl⟩ := h.uncons
    obtain ⟨w2, wk, h2, hk, rfl⟩ := h1.uncons
    obtain ⟨w3, wa, h3, ⟨ea, ha, hlen, hra⟩, rfl⟩ := h2.uncons
    simp [Ent.Wit] at hk; subst hk
    apply ih
    refine .cons h3 (X := .orE [.and ts, b]) ⟨.up0 ea, .up1 eb, ?_, rfl⟩ ?_
    · simp [sem0, sem1, ha, ent1_two ts hlen, orCtx, toOrList, hb]
    · simp [E.render, hra, hrb]
  | case9 c ts r ih =>  -- chk or orE
    intro w h
    obtain ⟨w1, wb, h1, ⟨ec, hc, hrc⟩, rfl⟩ := h.uncons
    obtain ⟨w2, wk, h2, hk, rfl⟩ := h1.uncons
    obtain ⟨w3, wa, h3, ⟨l, r', he, hre⟩, rfl⟩ := h2.uncons
    simp [Ent.Wit] at hk; subst hk
    apply ih
    refine .cons h3 (X := .orE (ts ++ [c])) ⟨.or l r', .up1 ec, ?_, rfl⟩ ?_
    · simp only [sem0, sem1, he, hc]; simp [orCtx, toOrList]
    · simp [E.render] at hre ⊢; simp [← hre, hrc]
  | case10 t r ih =>  -- chk not
    intro w h
    obtain ⟨w1, wb, h1, ⟨e, he, hre⟩, rfl⟩ := h.uncons
    obtain ⟨w2, wk, h2, hk, rfl⟩ := h1.uncons
    simp [Ent.Wit] at hk; subst hk
    apply ih
    refine .cons h2 (X := .chk (.not t)) ⟨.not e, ?_, rfl⟩ ?_
    · simp [sem2, he]
    · simp [E.render, hre]
  | case11 s _ _ _ _ _ _ _ _ _ _ => intro w h; exact h


theorem shift_inv (st w) (t : Tok) (h : SInv st w) : SInv (shift st t) (w ++ [t]) := by
  unfold shift
  apply reduce_inv
  refine .cons h (X := t.ent) ?_ rfl
  cases t <;> simp [Tok.ent, Ent.Wit]
  case chk t => exact ⟨.leaf t, by simp [sem2], by simp [E.render]⟩

theorem run_inv (toks : List Tok) : ∀ st w, SInv st w → SInv (run st toks) (w ++ toks) := by
  induction toks with
  | nil => intro st w h; simpa [run] using h
  | cons t toks ih =>
    intro st w h
    have := ih _ _ (shift_inv st w t h)
    simpa [run] using this

/-- C02 core: the parser accepts only sentences of the documented grammar. -/
theorem parseToks_sound (toks : List Tok) (t : Tree) (h : parseToks toks = some t) :
    ∃ e : E 0, toks = e.render ∧ t = build e := by
  unfold parseToks at h
  unfold build
  have hinv := run_inv toks [] [] .nil
  generalize run [] toks = st at h hinv
  match st, h with
  | [.chk t'], h =>
    simp [result] at h; subst h
    obtain ⟨w0, w', h0, ⟨e, he, hre⟩, hw⟩ := hinv.uncons
    cases h0
    refine ⟨.up0 (.up1 e), ?_, ?_⟩
    · simp at hw; simp [E.render, hre, hw]
    · simp [sem0, sem1, ent1, entTree, he]
  | [.andE ts], h =>
    simp [result] at h; subst h
    obtain ⟨w0, w', h0, ⟨e, he, hlen, hre⟩, hw⟩ := hinv.uncons
    cases h0
    refine ⟨.up0 e, ?_, ?_⟩
    · simp at hw; simp [E.render, hre, hw]
    · simp [sem0, he, ent1_two ts hlen, entTree]
  | [.orE ts], h =>
    simp [result] at h; subst h
    obtain ⟨w0, w', h0, ⟨l, r, he, hre⟩, hw⟩ := hinv.uncons
    cases h0
    refine ⟨.or l r, ?_, ?_⟩
    · simp at hw; simp [hre, hw]
    · simp [sem0, he, entTree]


end OsloPolicy
