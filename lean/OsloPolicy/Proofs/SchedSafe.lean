import OsloPolicy.Properties.C20
/-
C20, the positive half.  `C20.inplace_violates` shows that with the in-place rebuild of the shared
rule store a decision taken concurrently with a reload can be neither the old nor the new
policy's.  Here:

* Part 1 (`solo_run`, `sequential_new`, `sequential_old_or_new`): in that same in-place model a
  thread running alone, and two threads running one after the other, are fine.
* Part 2 (`stepS`, `runS`, `swap_safe`): if a reload builds a PRIVATE store and publishes it with
  one write, and a decision reads the shared store once, every decision under EVERY schedule is
  the complete old or the complete new policy's.
-/

namespace OsloPolicy.Sched

/-- one default-merge step (the body of the fold in `compute`, and of `step` at pc `n+5`) -/
def mergeF (acc : Content) (d : Nat × Bool) : Content :=
  if (look acc d.1).isSome then acc else acc ++ [d]

theorem compute_eq (sc : Scenario) (main dirs : Content) :
    compute sc main dirs = sc.regs.foldl mergeF (upd main dirs) := rfl

theorem look_append_isSome (c c' : Content) (k : Nat) (h : (look c k).isSome) :
    (look (c ++ c') k).isSome := by
  simp only [look, List.find?_append, Option.isSome_map, Option.isSome_or] at *
  simp [h]

theorem look_append_self (c : Content) (d : Nat × Bool) : (look (c ++ [d]) d.1).isSome := by
  simp only [look, List.find?_append, Option.isSome_map, Option.isSome_or]
  simp

theorem mergeF_mono (c : Content) (d : Nat × Bool) (k : Nat) (h : (look c k).isSome) :
    (look (mergeF c d) k).isSome := by
  unfold mergeF; split
  · exact h
  · exact look_append_isSome _ _ _ h

theorem mergeF_self (c : Content) (d : Nat × Bool) : (look (mergeF c d) d.1).isSome := by
  unfold mergeF; split
  · assumption
  · exact look_append_self _ _

theorem foldl_mergeF_mono (l : List (Nat × Bool)) (c : Content) (k : Nat) (h : (look c k).isSome) :
    (look (l.foldl mergeF c) k).isSome := by
  induction l generalizing c with
  | nil => exact h
  | cons d l ih => exact ih _ (mergeF_mono _ _ _ h)

theorem foldl_mergeF_has (l : List (Nat × Bool)) (c : Content) :
    ∀ d ∈ l, (look (l.foldl mergeF c) d.1).isSome := by
  induction l generalizing c with
  | nil => intro d hd; cases hd
  | cons e l ih =>
    intro d hd
    simp only [List.foldl_cons]
    rcases List.mem_cons.1 hd with rfl | hd
    · exact foldl_mergeF_mono _ _ _ (mergeF_self _ _)
    · exact ih _ d hd

/-- **idempotence of the default merge**: folding the merge over a store that already
contains every default name changes nothing -/
theorem mergeIdem (l : List (Nat × Bool)) (c : Content) (h : ∀ d ∈ l, (look c d.1).isSome) :
    l.foldl mergeF c = c := by
  induction l generalizing c with
  | nil => rfl
  | cons e l ih =>
    have he : mergeF c e = c := by simp [mergeF, h e (List.mem_cons_self ..)]
    simp only [List.foldl_cons, he]
    exact ih c (fun d hd => h d (List.mem_cons_of_mem _ hd))

theorem compute_has_regs (sc : Scenario) (main dirs : Content) :
    ∀ d ∈ sc.regs, (look (compute sc main dirs) d.1).isSome :=
  foldl_mergeF_has _ _

theorem compute_merge_idem (sc : Scenario) (main dirs : Content) :
    sc.regs.foldl mergeF (compute sc main dirs) = compute sc main dirs :=
  mergeIdem _ _ (compute_has_regs sc main dirs)


/-! ## Part 1 — one thread alone, and sequential schedules, in the in-place model -/

/-- `k` turns of ONE thread (a finished thread's turn is a no-op, as in `run`) -/
def solo (sc : Scenario) : Nat → Shared × Local → Shared × Local
  | 0, st => st
  | k+1, (s, l) => if done l then (s, l) else solo sc k (step sc s l)

theorem solo_done (sc : Scenario) (k : Nat) (s : Shared) (l : Local) (h : done l = true) :
    solo sc k (s, l) = (s, l) := by
  cases k <;> simp [solo, h]

theorem solo_succ (sc : Scenario) (k : Nat) (s : Shared) (l : Local) (h : done l = false) :
    solo sc (k+1) (s, l) = solo sc k (step sc s l) := by
  simp [solo, h]

theorem run_replicate_true (sc : Scenario) (k : Nat) (s : Shared) (a b : Local) :
    run sc (List.replicate k true) (s, a, b) = ((solo sc k (s, a)).1, (solo sc k (s, a)).2, b) := by
  induction k generalizing s a with
  | zero => rfl
  | succ k ih =>
    simp only [List.replicate_succ, run, solo]
    split
    · rw [ih, solo_done _ _ _ _ (by assumption)]
    · exact ih _ _

theorem run_replicate_false (sc : Scenario) (k : Nat) (s : Shared) (a b : Local) :
    run sc (List.replicate k false) (s, a, b) = ((solo sc k (s, b)).1, a, (solo sc k (s, b)).2) := by
  induction k generalizing s b with
  | zero => rfl
  | succ k ih =>
    simp only [List.replicate_succ, run, solo]
    split
    · rw [ih, solo_done _ _ _ _ (by assumption)]
    · exact ih _ _

theorem run_append (sc : Scenario) (xs ys : List Bool) (st : Shared × Local × Local) :
    run sc (xs ++ ys) st = run sc ys (run sc xs st) := by
  induction xs generalizing st with
  | nil => rfl
  | cons x xs ih =>
    obtain ⟨s, a, b⟩ := st
    cases x <;> simp only [List.cons_append, run] <;> split <;> exact ih _

theorem run_done (sc : Scenario) (xs : List Bool) (s : Shared) (a b : Local)
    (ha : done a = true) (hb : done b = true) : run sc xs (s, a, b) = (s, a, b) := by
  induction xs with
  | nil => rfl
  | cons x xs ih => cases x <;> simp [run, ha, hb, ih]

/-- the merge loop: from pc `n+5`, `j = regs.length - n` merge steps and one decision step -/
theorem solo_merge (sc : Scenario) (m d c u : Bool) (j : Nat) :
    ∀ (n : Nat) (R : Content) (k : Nat), n + j = sc.regs.length → j + 1 ≤ k →
      solo sc k (⟨R, m, d⟩, ⟨n + 5, c, u, none⟩) =
        (⟨(sc.regs.drop n).foldl mergeF R, m, d⟩,
         ⟨sc.regs.length + 5, c, u, some (decideOn sc ((sc.regs.drop n).foldl mergeF R))⟩) := by
  induction j with
  | zero =>
    intro n R k hn hk
    obtain ⟨k, rfl⟩ : ∃ k', k = k' + 1 := ⟨k - 1, by omega⟩
    have hn' : n = sc.regs.length := by omega
    have hnone : sc.regs[n]? = none := by simp [hn']
    rw [solo_succ _ _ _ _ rfl]
    simp only [step, hnone]
    rw [solo_done _ _ _ _ rfl]
    simp [hn']
  | succ j ih =>
    intro n R k hn hk
    obtain ⟨k, rfl⟩ : ∃ k', k = k' + 1 := ⟨k - 1, by omega⟩
    have hlt : n < sc.regs.length := by omega
    have hsome : sc.regs[n]? = some sc.regs[n] := by simp [hlt]
    rw [solo_succ _ _ _ _ rfl]
    simp only [step, hsome]
    rw [List.drop_eq_getElem_cons hlt, List.foldl_cons]
    have := ih (n+1) (mergeF R sc.regs[n]) k (by omega) (by omega)
    rw [← this]
    unfold mergeF
    split <;> rfl


section steps
variable (sc : Scenario) (R : Content) (m d c u : Bool) (o : Option Bool)
theorem step0a (h : (m || R.isEmpty) = true) :
    step sc ⟨R, m, d⟩ ⟨0, c, u, o⟩ = (⟨R, false, d⟩, ⟨1, true, u, o⟩) := by simp only [step, h, if_true]
theorem step0b (h : (m || R.isEmpty) = false) :
    step sc ⟨R, m, d⟩ ⟨0, c, u, o⟩ = (⟨R, m, d⟩, ⟨2, false, u, o⟩) := by simp [step, h]
theorem step1 : step sc ⟨R, m, d⟩ ⟨1, c, u, o⟩ = (⟨sc.mainNew, m, d⟩, ⟨2, c, u, o⟩) := rfl
theorem step2 : step sc ⟨R, m, d⟩ ⟨2, c, u, o⟩ = (⟨R, m, false⟩, ⟨3, c, d, o⟩) := rfl
theorem step3a : step sc ⟨R, m, d⟩ ⟨3, true, u, o⟩ = (⟨R, m, d⟩, ⟨4, true, u, o⟩) := rfl
theorem step3b : step sc ⟨R, m, d⟩ ⟨3, false, true, o⟩ = (⟨sc.mainNew, m, d⟩, ⟨4, false, true, o⟩) := rfl
theorem step3c : step sc ⟨R, m, d⟩ ⟨3, false, false, o⟩ = (⟨R, m, d⟩, ⟨5, false, false, o⟩) := rfl
theorem step4 : step sc ⟨R, m, d⟩ ⟨4, c, u, o⟩ = (⟨upd R sc.dirsNew, m, d⟩, ⟨5, c, u, o⟩) := rfl
end steps

/-- the state every complete solo `enforce` ends in: the complete NEW policy, flags cleared -/
def fresh (sc : Scenario) : Shared := ⟨compute sc sc.mainNew sc.dirsNew, false, false⟩

/-- **Running one thread alone** (`k ≥ span sc` turns) from a state whose store is the complete
old policy and whose stale flags are truthful ends with the complete NEW policy in the store,
both flags cleared, and the thread's decision is the new policy's decision.

No non-emptiness hypothesis is needed: `step` treats an empty store like a stale main file.
No distinctness hypothesis on `regs` is needed either. -/
theorem solo_run (sc : Scenario) (mainOld dirsOld : Content) (ms ds : Bool)
    (hm : ms = false → mainOld = sc.mainNew) (hd : ds = false → dirsOld = sc.dirsNew)
    (k : Nat) (hk : span sc ≤ k) :
    let r := solo sc k (⟨compute sc mainOld dirsOld, ms, ds⟩, {})
    r.1 = fresh sc ∧ r.2.out = some (decideOn sc (compute sc sc.mainNew sc.dirsNew)) := by
  obtain ⟨k, rfl⟩ : ∃ k', k = k' + 1 + 1 + 1 + 1 + 1 := ⟨k - 5, by unfold span at hk; omega⟩
  have hk' : sc.regs.length + 2 ≤ k := by unfold span at hk; omega
  have h5 : ∀ R m d c u j, sc.regs.length + 1 ≤ j →
      solo sc j (⟨R, m, d⟩, ⟨5, c, u, none⟩) =
        (⟨sc.regs.foldl mergeF R, m, d⟩, ⟨sc.regs.length + 5, c, u, some (decideOn sc (sc.regs.foldl mergeF R))⟩) :=
    fun R m d c u j hj => solo_merge sc m d c u sc.regs.length 0 R j (by omega) hj
  intro r
  show (solo sc _ (_, ⟨0, false, false, none⟩)).1 = fresh sc ∧ (solo sc _ (_, ⟨0, false, false, none⟩)).2.out = _
  by_cases hA : (ms || (compute sc mainOld dirsOld).isEmpty) = true
  · -- main file stale (or empty store): full reload
    rw [solo_succ _ _ _ _ rfl, step0a _ _ _ _ _ _ _ hA, solo_succ _ _ _ _ rfl, step1,
      solo_succ _ _ _ _ rfl, step2, solo_succ _ _ _ _ rfl, step3a, solo_succ _ _ _ _ rfl, step4,
      h5 _ _ _ _ _ _ (by omega)]
    exact ⟨rfl, rfl⟩
  · have hA' : (ms || (compute sc mainOld dirsOld).isEmpty) = false := by simpa using hA
    have hms : ms = false := by cases ms <;> simp_all
    subst hms
    cases ds with
    | true =>
      -- only the directories are stale: forced main reload, then policy.d, then defaults
      rw [solo_succ _ _ _ _ rfl, step0b _ _ _ _ _ _ _ hA', solo_succ _ _ _ _ rfl, step2,
        solo_succ _ _ _ _ rfl, step3b, solo_succ _ _ _ _ rfl, step4, h5 _ _ _ _ _ _ (by omega)]
      exact ⟨rfl, rfl⟩
    | false =>
      -- nothing stale: skip to the default merge, which is idempotent
      rw [solo_succ _ _ _ _ rfl, step0b _ _ _ _ _ _ _ hA', solo_succ _ _ _ _ rfl, step2,
        solo_succ _ _ _ _ rfl, step3c, h5 _ _ _ _ _ _ (by omega)]
      simp only [compute_merge_idem, fresh, hm rfl, hd rfl, and_self]


/-- a complete solo `enforce` from the fresh state decides on the new policy and leaves the state fresh -/
theorem solo_fresh (sc : Scenario) (k : Nat) (hk : span sc ≤ k) :
    let r := solo sc k (fresh sc, {})
    r.1 = fresh sc ∧ r.2.out = some (decideOn sc (compute sc sc.mainNew sc.dirsNew)) :=
  solo_run sc sc.mainNew sc.dirsNew false false (fun _ => rfl) (fun _ => rfl) k hk

/-- **Sequential schedules, precise form.**  The thread `first` (true = A, false = B) gets `k₁ ≥ span sc`
turns, i.e. runs its whole `enforce`, before the other thread starts; then the other thread gets
`k₂ ≥ span sc` turns; then anything (`rest`).  Both threads decide with the complete NEW policy,
and the store ends as the complete new policy with both stale flags cleared. -/
theorem sequential_new (sc : Scenario) (mainOld dirsOld : Content) (ms ds : Bool)
    (hm : ms = false → mainOld = sc.mainNew) (hd : ds = false → dirsOld = sc.dirsNew)
    (first : Bool) (k₁ k₂ : Nat) (h₁ : span sc ≤ k₁) (h₂ : span sc ≤ k₂) (rest : List Bool) :
    let r := run sc (List.replicate k₁ first ++ List.replicate k₂ (!first) ++ rest)
                (⟨compute sc mainOld dirsOld, ms, ds⟩, {}, {})
    r.1 = fresh sc ∧
    r.2.1.out = some (decideOn sc (compute sc sc.mainNew sc.dirsNew)) ∧
    r.2.2.out = some (decideOn sc (compute sc sc.mainNew sc.dirsNew)) := by
  intro r
  have h1 := solo_run sc mainOld dirsOld ms ds hm hd k₁ h₁
  have h2 := solo_fresh sc k₂ h₂
  simp only at h1 h2
  cases first with
  | true =>
    show (run sc _ _).1 = _ ∧ (run sc _ _).2.1.out = _ ∧ (run sc _ _).2.2.out = _
    rw [run_append, run_append, run_replicate_true, h1.1, Bool.not_true, run_replicate_false,
      run_done _ _ _ _ _ (by simp [done, h1.2]) (by simp [done, h2.2])]
    exact ⟨h2.1, h1.2, h2.2⟩
  | false =>
    show (run sc _ _).1 = _ ∧ (run sc _ _).2.1.out = _ ∧ (run sc _ _).2.2.out = _
    rw [run_append, run_append, run_replicate_false, h1.1, Bool.not_false, run_replicate_true,
      run_done _ _ _ _ _ (by simp [done, h2.2]) (by simp [done, h1.2])]
    exact ⟨h2.1, h2.2, h1.2⟩

/-- **Sequential schedules**: if one thread runs to completion before the other starts (either
order), both decisions are `C20.OldOrNew` (in fact both are the NEW policy's decision, by
`sequential_new`).  Contrast `C20.inplace_violates`, where the threads interleave. -/
theorem sequential_old_or_new (sc : Scenario) (mainOld dirsOld : Content) (ms ds : Bool)
    (hm : ms = false → mainOld = sc.mainNew) (hd : ds = false → dirsOld = sc.dirsNew)
    (first : Bool) (k₁ k₂ : Nat) (h₁ : span sc ≤ k₁) (h₂ : span sc ≤ k₂) (rest : List Bool) :
    let r := run sc (List.replicate k₁ first ++ List.replicate k₂ (!first) ++ rest)
                (⟨compute sc mainOld dirsOld, ms, ds⟩, {}, {})
    (∃ d, r.2.1.out = some d ∧ C20.OldOrNew sc mainOld dirsOld d) ∧
    (∃ d, r.2.2.out = some d ∧ C20.OldOrNew sc mainOld dirsOld d) := by
  intro r
  obtain ⟨-, ha, hb⟩ := sequential_new sc mainOld dirsOld ms ds hm hd first k₁ k₂ h₁ h₂ rest
  exact ⟨⟨_, ha, Or.inr rfl⟩, ⟨_, hb, Or.inr rfl⟩⟩


/-! ## Part 2 — build-then-publish: safe for ALL schedules -/

/-- thread-local state of the build-then-publish variant -/
structure LocalS where
  pc : Nat := 0
  priv : Content := []        -- the private store under construction
  out : Option Bool := none
deriving Repr

/-- One atomic step of the build-then-publish `enforce` for one thread.
* pc 0: look at the stale flags (an empty store counts as stale, as in `step`) and clear them;
  nothing stale → go straight to the decision (pc `regs.length + 3`), else pc 1;
* pc 1: `priv := upd sc.mainNew sc.dirsNew` (main file, then policy.d) — private;
* pc `n+2`, `n < regs.length`: merge registered default `n` into `priv` — private;
* pc `regs.length + 2`: **the one shared write** `s.rules := priv`;
* pc `regs.length + 3`: **the one shared read**: decide on `s.rules`. -/
def stepS (sc : Scenario) (s : Shared) (l : LocalS) : Shared × LocalS :=
  match l.pc with
  | 0 =>
    if s.mainStale || s.dirStale || s.rules.isEmpty then
      ({ s with mainStale := false, dirStale := false }, { l with pc := 1 })
    else (s, { l with pc := sc.regs.length + 3 })
  | 1 => (s, { l with pc := 2, priv := upd sc.mainNew sc.dirsNew })
  | n+2 =>
    match sc.regs[n]? with
    | some d => (s, { l with pc := n + 3, priv := mergeF l.priv d })
    | none =>
      if n = sc.regs.length then ({ s with rules := l.priv }, { l with pc := n + 3 })
      else (s, { l with out := some (decideOn sc s.rules) })

def doneS (l : LocalS) : Bool := l.out.isSome

/-- run a schedule (true = thread A, false = thread B); a finished thread's turn is a no-op -/
def runS (sc : Scenario) : List Bool → Shared × LocalS × LocalS → Shared × LocalS × LocalS
  | [], st => st
  | true :: rest, (s, a, b) => if doneS a then runS sc rest (s, a, b) else
      let (s', a') := stepS sc s a; runS sc rest (s', a', b)
  | false :: rest, (s, a, b) => if doneS b then runS sc rest (s, a, b) else
      let (s', b') := stepS sc s b; runS sc rest (s', a, b')

/-- the shared store is the complete old or the complete new policy — never a mix -/
def GoodStore (sc : Scenario) (mainOld dirsOld : Content) (R : Content) : Prop :=
  R = compute sc mainOld dirsOld ∨ R = compute sc sc.mainNew sc.dirsNew

/-- per-thread invariant: a rebuild that has reached merge step `n` holds exactly the `n`-prefix
of the fold defining the new policy; a decision taken is an old-or-new decision -/
def GoodLocal (sc : Scenario) (mainOld dirsOld : Content) (l : LocalS) : Prop :=
  (∀ n, l.pc = n + 2 → n ≤ sc.regs.length →
      l.priv = (sc.regs.take n).foldl mergeF (upd sc.mainNew sc.dirsNew)) ∧
  (∀ d, l.out = some d → C20.OldOrNew sc mainOld dirsOld d)

theorem goodLocal_init (sc : Scenario) (mainOld dirsOld : Content) : GoodLocal sc mainOld dirsOld {} :=
  ⟨fun n h => by simp at h, fun d h => by simp at h⟩

/-- `stepS` by either thread preserves the invariant (the other thread's local state is untouched) -/
theorem stepS_inv (sc : Scenario) (mainOld dirsOld : Content) (s : Shared) (l : LocalS)
    (hs : GoodStore sc mainOld dirsOld s.rules) (hl : GoodLocal sc mainOld dirsOld l) :
    GoodStore sc mainOld dirsOld (stepS sc s l).1.rules ∧ GoodLocal sc mainOld dirsOld (stepS sc s l).2 := by
  obtain ⟨pc, priv, out⟩ := l
  obtain ⟨hp, ho⟩ := hl
  simp only at hp ho
  match pc with
  | 0 =>
    simp only [stepS]
    split
    · exact ⟨hs, fun n h => by simp at h, ho⟩
    · exact ⟨hs, fun n h hn => by simp at h; omega, ho⟩
  | 1 =>
    refine ⟨hs, fun n h hn => ?_, ho⟩
    simp only [stepS] at h ⊢
    obtain rfl : n = 0 := by omega
    rfl
  | n+2 =>
    simp only [stepS]
    split
    · rename_i d hd
      refine ⟨hs, fun n' h hn => ?_, ho⟩
      simp only at h ⊢
      obtain rfl : n' = n + 1 := by omega
      rw [List.take_add_one, hd, List.foldl_append, ← hp n rfl (by omega)]
      rfl
    · rename_i hnone
      split
      · rename_i hn
        refine ⟨Or.inr ?_, fun n' h hn' => ?_, ho⟩
        · simp only
          rw [hp n rfl (by omega), hn, List.take_length]; rfl
        · simp only at h; omega
      · rename_i hn
        have : sc.regs.length ≤ n := by simpa using hnone
        refine ⟨hs, fun n' h hn' => ?_, fun d hd => ?_⟩
        · simp only at h; omega
        · simp only [Option.some.injEq] at hd
          subst hd
          rcases hs with h | h
          · exact Or.inl (by rw [h])
          · exact Or.inr (by rw [h])

/-- the invariant of the whole system -/
def Inv (sc : Scenario) (mainOld dirsOld : Content) (st : Shared × LocalS × LocalS) : Prop :=
  GoodStore sc mainOld dirsOld st.1.rules ∧ GoodLocal sc mainOld dirsOld st.2.1 ∧
    GoodLocal sc mainOld dirsOld st.2.2

theorem runS_inv (sc : Scenario) (mainOld dirsOld : Content) (sched : List Bool)
    (st : Shared × LocalS × LocalS) (h : Inv sc mainOld dirsOld st) :
    Inv sc mainOld dirsOld (runS sc sched st) := by
  induction sched generalizing st with
  | nil => exact h
  | cons x xs ih =>
    obtain ⟨s, a, b⟩ := st
    obtain ⟨hs, ha, hb⟩ := h
    cases x <;> simp only [runS] <;> split
    · exact ih _ ⟨hs, ha, hb⟩
    · have := stepS_inv sc mainOld dirsOld s b hs hb
      exact ih _ ⟨this.1, ha, this.2⟩
    · exact ih _ ⟨hs, ha, hb⟩
    · have := stepS_inv sc mainOld dirsOld s a hs ha
      exact ih _ ⟨this.1, this.2, hb⟩

/-- **Build-then-publish is safe for every schedule**: whatever the old contents, whatever the
stale flags (truthful or not — the invariant does not depend on them) and however the two threads
interleave, every decision produced is the complete old or the complete new policy's decision. -/
theorem swap_safe (sc : Scenario) (mainOld dirsOld : Content) (ms ds : Bool)
    (sched : List Bool) :
    let r := runS sc sched (⟨compute sc mainOld dirsOld, ms, ds⟩, {}, {})
    (∀ d, r.2.1.out = some d → C20.OldOrNew sc mainOld dirsOld d) ∧
    (∀ d, r.2.2.out = some d → C20.OldOrNew sc mainOld dirsOld d) := by
  intro r
  have h : Inv sc mainOld dirsOld r :=
    runS_inv sc mainOld dirsOld sched _ ⟨Or.inl rfl, goodLocal_init .., goodLocal_init ..⟩
  exact ⟨h.2.1.2, h.2.2.2⟩


/-! ### Non-vacuity on the F10 scenario -/

/-- strictly alternating schedule: both threads finish, both deny (old and new policy both deny),
and the published store is the complete new policy -/
example :
    let r := runS C20.f10 [true, false, true, false, true, false, true, false, true, false, true, false, true, false]
      (C20.f10Start, {}, {})
    r.2.1.out = some false ∧ r.2.2.out = some false ∧
      r.1.rules = compute C20.f10 C20.f10.mainNew C20.f10.dirsNew := by decide

/-- the very schedule on which the in-place model misbehaves (`C20.inplace_violates`: B allows)
is harmless here: B, whose flags were cleared by A, decides on the still-old store and denies -/
example :
    let r := runS C20.f10 C20.witness (C20.f10Start, {}, {})
    r.2.1.out = some false ∧ r.2.2.out = some false := by decide

end OsloPolicy.Sched
