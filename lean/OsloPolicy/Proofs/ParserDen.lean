import OsloPolicy.Proofs.ParserComplete
/-
The tree built for a sentence denotes what the precedence rules say — including the
flattening performed by the re-balancing reducer (`_mix_or_and_expr`).
-/
namespace OsloPolicy

theorem denAll_eq (ρ ts) : denAll ρ ts = ts.all (Tree.den ρ) := by
  induction ts with
  | nil => simp [denAll]
  | cons t ts ih => simp [denAll, ih]

theorem denAny_eq (ρ ts) : denAny ρ ts = ts.any (Tree.den ρ) := by
  induction ts with
  | nil => simp [denAny]
  | cons t ts ih => simp [denAny, ih]

theorem den_and (ρ ts) : Tree.den ρ (.and ts) = ts.all (Tree.den ρ) := by
  simp [Tree.den, denAll_eq]
theorem den_or (ρ ts) : Tree.den ρ (.or ts) = ts.any (Tree.den ρ) := by
  simp [Tree.den, denAny_eq]

theorem ent1_den (ρ) (l : List Tree) (h : l ≠ []) :
    Tree.den ρ (entTree (ent1 l)) = l.all (Tree.den ρ) := by
  match l, h with
  | [x], _ => simp [ent1, entTree]
  | x :: y :: r, _ => simp [ent1, entTree, den_and]

theorem toOrList_den (ρ) (X : Ent) (h : IsNT X) :
    (toOrList X).any (Tree.den ρ) = Tree.den ρ (entTree X) := by
  cases X <;> simp [IsNT] at h <;> simp [toOrList, entTree, den_and, den_or]

theorem mixLast_snoc (pre : List Tree) (f c : Tree) :
    ∃ g, mixLast (pre ++ [f]) c = pre ++ [g] ∧ ∀ ρ, Tree.den ρ g = (Tree.den ρ f && Tree.den ρ c) := by
  unfold mixLast
  simp only [List.getLast?_append, List.getLast?_singleton, List.dropLast_concat]
  cases f <;> simp [den_and]

theorem foldl_mix_den (ρ) (rest : List Tree) : ∀ (pre : List Tree) (f : Tree),
    (rest.foldl mixLast (pre ++ [f])).any (Tree.den ρ)
      = (pre.any (Tree.den ρ) || (Tree.den ρ f && rest.all (Tree.den ρ))) := by
  induction rest with
  | nil => intro pre f; simp
  | cons c rest ih =>
    intro pre f
    obtain ⟨g, hg, hden⟩ := mixLast_snoc pre f c
    simp only [List.foldl_cons, hg, ih, hden, List.all_cons, Bool.and_assoc]

theorem orCtx_den (ρ) (X : Ent) (h : IsNT X) (ops : List Tree) (hne : ops ≠ []) :
    Tree.den ρ (entTree (orCtx X ops)) = (Tree.den ρ (entTree X) || ops.all (Tree.den ρ)) := by
  match ops, hne with
  | f :: rest, _ =>
    simp only [orCtx, entTree, den_or, foldl_mix_den, toOrList_den ρ X h, List.all_cons]

mutual
theorem den2 (ρ) : (e : E 2) → Tree.den ρ (sem2 e) = e.den ρ
  | .leaf t => by simp [sem2, E.den]
  | .paren e => by simp [sem2, E.den, den0 ρ e]
  | .not e => by simp [sem2, E.den, Tree.den, den2 ρ e]
theorem den1 (ρ) : (e : E 1) → (sem1 e).all (Tree.den ρ) = e.den ρ
  | .up1 e => by simp [sem1, E.den, den2 ρ e]
  | .and a b => by simp [sem1, E.den, den1 ρ a, den2 ρ b]
theorem den0 (ρ) : (e : E 0) → Tree.den ρ (entTree (sem0 e)) = e.den ρ
  | .up0 e => by simp [sem0, E.den, ent1_den ρ _ (sem1_ne e), den1 ρ e]
  | .or l r => by
      simp only [sem0, E.den, orCtx_den ρ _ (sem0_nt l) _ (sem1_ne r), den0 ρ l, den1 ρ r]
end

theorem build_den (ρ) (e : E 0) : (build e).den ρ = e.den ρ := den0 ρ e

end OsloPolicy
