import OsloPolicy.Model.SampleGen
/-
C17 — the generated YAML sample overrides nothing.

Every line `sampleYaml` emits is empty or starts with `#`, no line hides a line break
(so no text can "escape" its comment), the only `#"…` lines are the commented rule lines
`#"name": "check_str"`, and every default has one.
-/
namespace OsloPolicy

/-- characters that end a line for `str.splitlines` (a superset of YAML's line breaks) -/
def isBreak (c : Char) : Bool :=
  c = '\n' || c = '\r' || c = '\x0b' || c = '\x0c' || c = '\x1c' || c = '\x1d' || c = '\x1e' ||
  c = '\u0085' || c = '\u2028' || c = '\u2029'

def NoBreak (s : Str) : Prop := ∀ c ∈ s, isBreak c = false

/-- contract of `textwrap.wrap(text, 70, initial_indent='# ', subsequent_indent='# ')` -/
def WrapOK (wrap : Str → List Str) : Prop :=
  ∀ s, ∀ l ∈ wrap s, (∃ r, l = '#' :: ' ' :: r) ∧ NoBreak l

/-- contract of `str.splitlines` -/
def SplitOK (split : Str → List Str) : Prop := ∀ s, ∀ l ∈ split s, NoBreak l

/-- a comment line: a bare `#` or `# …` -/
def CommentLine (l : Str) : Prop := l = ['#'] ∨ ∃ r, l = '#' :: ' ' :: r

/-- the fields that are interpolated verbatim are free of line breaks ("printable") -/
def GenDefault.Printable (d : GenDefault) : Prop :=
  NoBreak d.name ∧ NoBreak d.checkStr ∧ NoBreak d.deprecatedSince ∧
  (∀ ops, d.operations = some ops → ∀ o ∈ ops, NoBreak o.method ∧ NoBreak o.path) ∧
  (∀ ts, d.scopeTypes = some ts → ∀ t ∈ ts, NoBreak t) ∧
  (∀ ls, d.description = some ls → ∀ l ∈ ls, NoBreak l) ∧
  (∀ ls, d.deprecatedReason = some ls → ∀ l ∈ ls, NoBreak l) ∧
  (∀ o, d.deprecated = some o → NoBreak o.1 ∧ NoBreak o.2)

/-! ### `NoBreak` closure -/

theorem noBreak_nil : NoBreak [] := by intro c h; cases h

theorem noBreak_cons_iff {c : Char} {s : Str} :
    NoBreak (c :: s) ↔ isBreak c = false ∧ NoBreak s := by
  simp [NoBreak]

theorem noBreak_append_iff {a b : Str} : NoBreak (a ++ b) ↔ NoBreak a ∧ NoBreak b := by
  simp only [NoBreak, List.mem_append]
  constructor
  · intro h; exact ⟨fun c hc => h c (Or.inl hc), fun c hc => h c (Or.inr hc)⟩
  · rintro ⟨h1, h2⟩ c (hc | hc)
    · exact h1 c hc
    · exact h2 c hc

theorem NoBreak.sub {a b : Str} (hb : NoBreak b) (h : ∀ c ∈ a, c ∈ b) : NoBreak a :=
  fun c hc => hb c (h c hc)

theorem mem_dropWhile {p : Char → Bool} : ∀ {s : Str} {c : Char}, c ∈ s.dropWhile p → c ∈ s
  | [], _, h => by simp at h
  | x :: s, c, h => by
    rw [List.dropWhile_cons] at h
    split at h
    · exact List.mem_cons_of_mem _ (mem_dropWhile h)
    · exact h

theorem mem_pyLstrip {s : Str} {c : Char} (h : c ∈ pyLstrip s) : c ∈ s := mem_dropWhile h

theorem mem_pyRstrip {s : Str} {c : Char} (h : c ∈ pyRstrip s) : c ∈ s := by
  unfold pyRstrip at h
  rw [List.mem_reverse] at h
  exact List.mem_reverse.mp (mem_dropWhile h)

theorem noBreak_pyRstrip {s : Str} (h : NoBreak s) : NoBreak (pyRstrip s) :=
  h.sub fun _ => mem_pyRstrip

theorem noBreak_pyLstrip {s : Str} (h : NoBreak s) : NoBreak (pyLstrip s) :=
  h.sub fun _ => mem_pyLstrip

theorem noBreak_q {s : Str} : NoBreak (q s) ↔ NoBreak s := by
  simp [q, noBreak_cons_iff, noBreak_append_iff, noBreak_nil, isBreak]

theorem noBreak_hashSp {s : Str} : NoBreak (hashSp s) ↔ NoBreak s := by
  simp [hashSp, noBreak_cons_iff, isBreak]

theorem noBreak_joinWith {sep : Str} (hsep : NoBreak sep) :
    ∀ {ls : List Str}, (∀ l ∈ ls, NoBreak l) → NoBreak (joinWith sep ls)
  | [], _ => by simpa [joinWith] using noBreak_nil
  | [x], h => by simpa [joinWith] using h
  | x :: y :: r, h => by
    rw [joinWith, noBreak_append_iff, noBreak_append_iff]
    exact ⟨⟨h x (by simp), hsep⟩, noBreak_joinWith hsep fun l hl => h l (List.mem_cons_of_mem _ hl)⟩

theorem commentLine_hashSp (s : Str) : CommentLine (hashSp s) := Or.inr ⟨s, rfl⟩

/-- a comment line never looks like a rule line -/
theorem CommentLine.not_rule {l : Str} (h : CommentLine l) : ¬ ∃ r, l = '#' :: '"' :: r := by
  rintro ⟨r, hr⟩
  rcases h with h | ⟨r', h⟩
  · rw [h] at hr; simp at hr
  · rw [h] at hr; simp at hr

theorem CommentLine.head {l : Str} (h : CommentLine l) : l.head? = some '#' := by
  rcases h with h | ⟨r, h⟩ <;> simp [h]

/-! ### help text -/

/-- `P l := CommentLine l ∧ NoBreak l` -/
def HelpP (l : Str) : Prop := CommentLine l ∧ NoBreak l

theorem helpP_bare : HelpP ['#'] :=
  ⟨Or.inl rfl, by simp [noBreak_cons_iff, noBreak_nil, isBreak]⟩

theorem helpP_hashSp {s : Str} (h : NoBreak s) : HelpP (hashSp s) :=
  ⟨commentLine_hashSp s, noBreak_hashSp.mpr h⟩

theorem helpP_wrap {wrap : Str → List Str} (hw : WrapOK wrap) (s : Str) :
    ∀ l ∈ wrap s, HelpP l := fun l hl => ⟨Or.inr (hw s l hl).1, (hw s l hl).2⟩

theorem forall_mem_append {P : Str → Prop} {a b : List Str}
    (ha : ∀ l ∈ a, P l) (hb : ∀ l ∈ b, P l) : ∀ l ∈ a ++ b, P l := by
  intro l hl
  rcases List.mem_append.mp hl with h | h
  · exact ha l h
  · exact hb l h

theorem forall_mem_singleton {P : Str → Prop} {a : Str} (ha : P a) : ∀ l ∈ [a], P l := by
  intro l hl; rw [List.mem_singleton.mp hl]; exact ha

theorem helpLoop_inv (wrap : Str → List Str) (hw : WrapOK wrap) :
    ∀ (ls out para : List Str), (∀ l ∈ ls, NoBreak l) → (∀ l ∈ out, HelpP l) →
      ∀ l ∈ helpLoop wrap ls out para, HelpP l
  | [], out, para, _, hout => by
    unfold helpLoop
    split
    · exact hout
    · exact forall_mem_append hout (helpP_wrap hw _)
  | line :: rest, out, para, hls, hout => by
    have hline : NoBreak line := hls line (by simp)
    have hrest : ∀ l ∈ rest, NoBreak l := fun l hl => hls l (List.mem_cons_of_mem _ hl)
    have hlit : HelpP (hashSp (pyRstrip line)) := helpP_hashSp (noBreak_pyRstrip hline)
    unfold helpLoop
    split
    · exact helpLoop_inv wrap hw rest _ [] hrest
        (forall_mem_append (forall_mem_append hout (helpP_wrap hw _)) (forall_mem_singleton helpP_bare))
    · split
      · exact helpLoop_inv wrap hw rest out _ hrest hout
      · split
        · exact helpLoop_inv wrap hw rest _ [] hrest
            (forall_mem_append hout (forall_mem_singleton hlit))
        · exact helpLoop_inv wrap hw rest _ [] hrest
            (forall_mem_append
              (forall_mem_append (forall_mem_append hout (helpP_wrap hw _))
                (forall_mem_singleton helpP_bare))
              (forall_mem_singleton hlit))

/-- 1. help text: every line is empty, or a comment line; none contains a line break -/
theorem formatHelp_lines (wrap : Str → List Str) (hw : WrapOK wrap) (ols : Option (List Str))
    (hls : ∀ ls, ols = some ls → ∀ l ∈ ls, NoBreak l) :
    ∀ l ∈ formatHelp wrap ols, (l = [] ∨ CommentLine l) ∧ NoBreak l := by
  cases ols with
  | none =>
    intro l hl
    simp only [formatHelp, List.mem_singleton] at hl
    subst hl
    exact ⟨Or.inr helpP_bare.1, helpP_bare.2⟩
  | some ls =>
    have hinv := helpLoop_inv wrap hw ls [] [] (hls ls rfl) (by simp)
    intro l hl
    simp only [formatHelp] at hl
    generalize helpLoop wrap ls [] [] = r at hinv hl
    cases r with
    | nil => rw [List.mem_singleton.mp hl]; exact ⟨Or.inl rfl, noBreak_nil⟩
    | cons a r => exact ⟨Or.inr (hinv l hl).1, (hinv l hl).2⟩

/-! ### one default -/

/-- what a line of one formatted default may be (`pre` is the prefix of the rule line) -/
def LineOK (pre : Str) (d : GenDefault) (l : Str) : Prop :=
  (l = [] ∨ CommentLine l ∨ l = pre ++ ruleText d) ∧ NoBreak l

theorem LineOK.of_help {pre : Str} {d : GenDefault} {l : Str}
    (h : (l = [] ∨ CommentLine l) ∧ NoBreak l) : LineOK pre d l :=
  ⟨h.1.elim Or.inl (fun h => Or.inr (Or.inl h)), h.2⟩

theorem LineOK.of_helpP {pre : Str} {d : GenDefault} {l : Str} (h : HelpP l) : LineOK pre d l :=
  ⟨Or.inr (Or.inl h.1), h.2⟩

theorem lineOK_nil {pre : Str} {d : GenDefault} : LineOK pre d [] := ⟨Or.inl rfl, noBreak_nil⟩

theorem isBreak_range (c : Char) (h : isBreak c = true) : c.toNat < 32 ∨ 126 < c.toNat := by
  simp only [isBreak, Bool.or_eq_true, decide_eq_true_eq] at h
  rcases h with ((((((((rfl | rfl) | rfl) | rfl) | rfl) | rfl) | rfl) | rfl) | rfl) | rfl <;> decide

theorem hexDigit_noBreak (n : Nat) : isBreak (hexDigit n) = false := by
  unfold hexDigit
  split <;> decide

theorem noBreak_u4 (n : Nat) : NoBreak (u4 n) := by
  intro c hc
  simp only [u4, List.mem_cons, List.mem_nil_iff, or_false] at hc
  rcases hc with rfl | rfl | rfl | rfl | rfl | rfl
  · decide
  · decide
  all_goals exact hexDigit_noBreak _

/-- whatever the character, what `json.dumps` writes for it contains no line break -/
theorem noBreak_jsonEscChar (c : Char) : NoBreak (jsonEscChar c) := by
  unfold jsonEscChar
  split
  · intro x hx; simp at hx; rcases hx with rfl | rfl <;> decide
  split
  · intro x hx; simp at hx; rcases hx with rfl | rfl <;> decide
  split
  · intro x hx; simp at hx; rcases hx with rfl | rfl <;> decide
  split
  · intro x hx; simp at hx; rcases hx with rfl | rfl <;> decide
  split
  · intro x hx; simp at hx; rcases hx with rfl | rfl <;> decide
  split
  · intro x hx; simp at hx; rcases hx with rfl | rfl <;> decide
  split
  · intro x hx; simp at hx; rcases hx with rfl | rfl <;> decide
  split
  · rename_i h
    intro x hx
    simp only [List.mem_cons, List.mem_nil_iff, or_false] at hx
    subst hx
    cases hb : isBreak x with
    | false => rfl
    | true => have := isBreak_range x hb; omega
  split
  · exact noBreak_u4 _
  · exact noBreak_append_iff.2 ⟨noBreak_u4 _, noBreak_u4 _⟩

/-- the formatted check string never contains a line break when the check string has none (and an escaped one never
does, whatever the check string) -/
theorem noBreak_formatCheckStr {s : Str} (hs : NoBreak s) : NoBreak (formatCheckStr s) := by
  unfold formatCheckStr
  split
  · refine noBreak_cons_iff.2 ⟨by decide, noBreak_append_iff.2 ⟨?_, by simp [NoBreak, isBreak]⟩⟩
    intro x hx
    obtain ⟨c, -, hxc⟩ := List.mem_flatMap.1 hx
    exact noBreak_jsonEscChar c x hxc
  · exact noBreak_q.2 hs

theorem noBreak_formatCheckStr_escaped (s : Str) (h : needsEscape s = true) : NoBreak (formatCheckStr s) := by
  unfold formatCheckStr
  rw [if_pos h]
  refine noBreak_cons_iff.2 ⟨by decide, noBreak_append_iff.2 ⟨?_, by simp [NoBreak, isBreak]⟩⟩
  intro x hx
  obtain ⟨c, -, hxc⟩ := List.mem_flatMap.1 hx
  exact noBreak_jsonEscChar c x hxc

theorem noBreak_ruleText {d : GenDefault} (hd : d.Printable) : NoBreak (ruleText d) := by
  obtain ⟨hn, hc, -⟩ := hd
  have hf := noBreak_formatCheckStr hc
  simp [ruleText, noBreak_append_iff, noBreak_cons_iff, noBreak_q, hn, hf, isBreak]

theorem opLines_ok {d : GenDefault} (hd : d.Printable) : ∀ l ∈ opLines d, HelpP l := by
  obtain ⟨-, -, -, hops, -⟩ := hd
  intro l hl
  unfold opLines at hl
  split at hl
  · cases hl
  · rename_i ops heq
    obtain ⟨o, ho, rfl⟩ := List.mem_map.mp hl
    have := hops ops heq o (List.mem_filter.mp ho).1
    refine helpP_hashSp ?_
    simp [noBreak_append_iff, noBreak_cons_iff, this.1, this.2, isBreak]

theorem scopeLine_ok {d : GenDefault} (hd : d.Printable) : ∀ l ∈ scopeLine d, HelpP l := by
  obtain ⟨-, -, -, -, hts, -⟩ := hd
  intro l hl
  unfold scopeLine at hl
  split at hl
  · cases hl
  · rename_i ts heq
    rw [List.mem_singleton.mp hl]
    refine helpP_hashSp ?_
    rw [noBreak_append_iff]
    refine ⟨by simp [NoBreak, isBreak], noBreak_joinWith (by simp [NoBreak, isBreak]) (hts ts heq)⟩

theorem renameWarning_ok : ∀ l ∈ renameWarning, HelpP l := by
  have h1 : ∀ l ∈ renameWarning, ∃ r, l = '#' :: ' ' :: r := by simp [renameWarning]
  have h2 : ∀ l ∈ renameWarning, NoBreak l := by simp [renameWarning, NoBreak, isBreak]
  exact fun l hl => ⟨Or.inr (h1 l hl), h2 l hl⟩

theorem noBreak_deprecatedSentence {d : GenDefault} (hd : d.Printable) (old : Str × Str)
    (ho : NoBreak old.1 ∧ NoBreak old.2) : NoBreak (deprecatedSentence d old) := by
  obtain ⟨hn, hc, hsince, -⟩ := hd
  simp [deprecatedSentence, noBreak_append_iff, noBreak_cons_iff, noBreak_q, noBreak_nil,
    hn, hc, hsince, ho.1, ho.2, isBreak]

/-- common statement behind theorems 2 and 5 -/
theorem formatRuleYaml_ok (wrap : Str → List Str) (split : Str → List Str) (hw : WrapOK wrap)
    (hs : SplitOK split) (cr add : Bool) (d : GenDefault) (hd : d.Printable) :
    ∀ l ∈ formatRuleYaml wrap split cr add d, LineOK (if cr then ['#'] else []) d l := by
  have hd' := hd
  obtain ⟨hn, hc, hsince, -, -, hdesc, hreason, hold⟩ := hd'
  have hDEP : HelpP (hashSp "DEPRECATED".toList) :=
    helpP_hashSp (by simp [NoBreak, isBreak])
  have hReason : ∀ l ∈ formatHelp wrap d.deprecatedReason, LineOK (if cr then ['#'] else []) d l :=
    fun l hl => LineOK.of_help (formatHelp_lines wrap hw _ hreason l hl)
  -- the core block
  have hcore : ∀ l ∈ ((match d.description with
      | none => []
      | some ls => formatHelp wrap (some ls)) ++
      opLines d ++ scopeLine d ++ [(if cr then ['#'] else []) ++ ruleText d] ++ [[]]),
      LineOK (if cr then ['#'] else []) d l := by
    refine forall_mem_append (forall_mem_append (forall_mem_append (forall_mem_append ?_ ?_) ?_) ?_) ?_
    · intro l hl
      split at hl
      · cases hl
      · rename_i ls heq
        exact LineOK.of_help
          (formatHelp_lines wrap hw (some ls) (fun ls' h => by cases h; exact hdesc ls heq) l hl)
    · exact fun l hl => LineOK.of_helpP (opLines_ok hd l hl)
    · exact fun l hl => LineOK.of_helpP (scopeLine_ok hd l hl)
    · refine forall_mem_singleton ⟨Or.inr (Or.inr rfl), ?_⟩
      rw [noBreak_append_iff]
      refine ⟨?_, noBreak_ruleText hd⟩
      cases cr <;> simp [noBreak_nil, noBreak_cons_iff, isBreak]
    · exact forall_mem_singleton lineOK_nil
  intro l hl
  unfold formatRuleYaml at hl
  simp only at hl
  split at hl
  · -- deprecated for removal
    refine forall_mem_append (forall_mem_append ?_ hReason) hcore l hl
    intro l hl
    simp only [List.mem_cons, List.not_mem_nil, or_false] at hl
    rcases hl with rfl | rfl
    · exact LineOK.of_helpP hDEP
    · refine LineOK.of_helpP (helpP_hashSp ?_)
      simp [noBreak_append_iff, noBreak_cons_iff, noBreak_q, noBreak_nil, hn, hsince, isBreak]
  · split at hl
    · rename_i old heq
      have hold' : NoBreak old.1 ∧ NoBreak old.2 := by
        cases add
        · simp at heq
        · exact hold old (by simpa using heq)
      refine forall_mem_append (forall_mem_append (forall_mem_append (forall_mem_append
        (forall_mem_append hcore ?_) ?_) hReason) ?_) (forall_mem_singleton lineOK_nil) l hl
      · exact forall_mem_singleton (LineOK.of_helpP hDEP)
      · intro l hl
        refine LineOK.of_help (formatHelp_lines wrap hw _ ?_ l hl)
        intro ls h; cases h
        exact hs _
      · intro l hl
        split at hl
        · refine forall_mem_append (fun l hl => LineOK.of_helpP (renameWarning_ok l hl))
            (forall_mem_singleton (LineOK.of_helpP (helpP_hashSp ?_))) l hl
          simp [noBreak_append_iff, noBreak_cons_iff, noBreak_q, hn, hold'.1, isBreak]
        · cases hl
    · exact hcore l hl

/-- 2. one default: every line is empty, a comment line, or exactly the commented rule line -/
theorem formatRuleYaml_lines (wrap : Str → List Str) (split : Str → List Str) (hw : WrapOK wrap)
    (hs : SplitOK split) (add : Bool) (d : GenDefault) (hd : d.Printable) :
    ∀ l ∈ formatRuleYaml wrap split true add d,
      (l = [] ∨ CommentLine l ∨ l = '#' :: ruleText d) ∧ NoBreak l := by
  intro l hl
  simpa [LineOK] using formatRuleYaml_ok wrap split hw hs true add d hd l hl

/-- 5. descriptions, operations, scope and deprecation notes occur only on comment lines: with
rule commenting switched OFF (`commentRule = false`, as the converter does for overridden rules)
the ONLY non-comment, non-empty line is the rule line itself -/
theorem formatRuleYaml_uncommented (wrap : Str → List Str) (split : Str → List Str)
    (hw : WrapOK wrap) (hs : SplitOK split) (add : Bool) (d : GenDefault) (hd : d.Printable) :
    ∀ l ∈ formatRuleYaml wrap split false add d, l = [] ∨ CommentLine l ∨ l = ruleText d := by
  intro l hl
  have := (formatRuleYaml_ok wrap split hw hs false add d hd l hl).1
  simpa using this

/-- the rule line is always emitted -/
theorem ruleLine_mem (wrap : Str → List Str) (split : Str → List Str) (cr add : Bool)
    (d : GenDefault) :
    ((if cr then ['#'] else []) ++ ruleText d) ∈ formatRuleYaml wrap split cr add d := by
  unfold formatRuleYaml
  simp only
  split
  · simp
  · split <;> simp

/-- 3. **the sample overrides nothing**: every line of the YAML sample is empty or begins with
`#`, and no line hides a line break -/
theorem sample_all_comments (wrap : Str → List Str) (split : Str → List Str) (hw : WrapOK wrap)
    (hs : SplitOK split) (excl : Bool) (ds : List GenDefault) (hd : ∀ d ∈ ds, d.Printable) :
    ∀ l ∈ sampleYaml wrap split excl ds, (l = [] ∨ l.head? = some '#') ∧ NoBreak l := by
  intro l hl
  obtain ⟨d, hdm, hl⟩ := List.mem_flatMap.mp hl
  obtain ⟨h, hnb⟩ := formatRuleYaml_lines wrap split hw hs _ d (hd d hdm) l hl
  refine ⟨?_, hnb⟩
  rcases h with h | h | h
  · exact Or.inl h
  · exact Or.inr h.head
  · exact Or.inr (by simp [h])

/-- 4. the only lines of the form `#"…` are the rule lines of the defaults, and every default has
its rule line: once the `#` of those lines is removed the file maps each name to exactly its
check string -/
theorem sample_rule_lines (wrap : Str → List Str) (split : Str → List Str) (hw : WrapOK wrap)
    (hs : SplitOK split) (excl : Bool) (ds : List GenDefault) (hd : ∀ d ∈ ds, d.Printable) :
    (∀ l ∈ sampleYaml wrap split excl ds, (∃ r, l = '#' :: '"' :: r) →
      ∃ d ∈ ds, l = '#' :: ruleText d) ∧
    (∀ d ∈ ds, ('#' :: ruleText d) ∈ sampleYaml wrap split excl ds) := by
  constructor
  · intro l hl hq
    obtain ⟨d, hdm, hl⟩ := List.mem_flatMap.mp hl
    obtain ⟨h, -⟩ := formatRuleYaml_lines wrap split hw hs _ d (hd d hdm) l hl
    rcases h with h | h | h
    · obtain ⟨r, hr⟩ := hq; rw [h] at hr; cases hr
    · exact absurd hq h.not_rule
    · exact ⟨d, hdm, h⟩
  · intro d hdm
    refine List.mem_flatMap.mpr ⟨d, hdm, ?_⟩
    simpa using ruleLine_mem wrap split true (!excl) d

/-- 6. the JSON sample's entries are exactly (name, check_str) of the defaults, in order -/
theorem json_entries (ds : List GenDefault) : sampleJsonEntries ds = ds.map ruleText := rfl

end OsloPolicy
