import OsloPolicy.Proofs.PrintLayout
import OsloPolicy.Proofs.PrintParse
/-
Text-level round trip (C15): everything `_parse_text_rule` produces is a printable tree
(`WFT`), printing a printable tree and parsing the text gives the tree back, hence the
printer is injective on printable trees and `parse ∘ print ∘ parse = parse`.
All seven statements hold as specified; no hypothesis had to be added.
-/
namespace OsloPolicy

/-- what a check token produced by the tokenizer looks like -/
def LeafOK : Tree → Prop
  | .tt => True
  | .ff => True
  | .chk k m => CleanLeaf (k ++ ':' :: m) ∧ ':' ∉ k
  | _ => False

/-! ### Words of the whitespace split -/

theorem splitWsAux_words (s : Str) : ∀ cur : Str, (∀ c ∈ cur, isSpace c = false) →
    ∀ w ∈ splitWsAux s cur, w ≠ [] ∧ ∀ c ∈ w, isSpace c = false := by
  induction s with
  | nil =>
    intro cur hcur w hw
    simp only [splitWsAux] at hw
    split at hw
    · simp at hw
    · next he =>
      simp only [List.mem_singleton] at hw
      subst hw
      refine ⟨?_, ?_⟩
      · intro e
        apply he
        have : cur = [] := by simpa using e
        simp [this]
      · intro c hc
        exact hcur c (by simpa using hc)
  | cons a r ih =>
    intro cur hcur w hw
    simp only [splitWsAux] at hw
    split at hw
    · split at hw
      · exact ih [] (by simp) w hw
      · next he =>
        rcases List.mem_cons.1 hw with rfl | hw
        · refine ⟨?_, ?_⟩
          · intro e
            apply he
            have : cur = [] := by simpa using e
            simp [this]
          · intro c hc
            exact hcur c (by simpa using hc)
        · exact ih [] (by simp) w hw
    · next ha =>
      refine ih (a :: cur) ?_ w hw
      intro c hc
      rcases List.mem_cons.1 hc with rfl | hc
      · simpa using ha
      · exact hcur c hc

/-- every word of the whitespace split is non-empty and free of whitespace -/
theorem splitWs_words (s : Str) : ∀ w ∈ splitWs s, w ≠ [] ∧ ∀ c ∈ w, isSpace c = false :=
  splitWsAux_words s [] (by simp)

/-! ### Stripping -/

theorem head_dropWhile (p : Char → Bool) (l : Str) :
    ∀ x, (l.dropWhile p).head? = some x → p x = false := by
  induction l with
  | nil => intro x h; simp at h
  | cons a r ih =>
    intro x h
    rw [List.dropWhile_cons] at h
    split at h
    · exact ih x h
    · next hp =>
      simp only [List.head?_cons, Option.some.injEq] at h
      subst h; simpa using hp

theorem mem_of_mem_dropWhile' (p : Char → Bool) (l : Str) : ∀ x ∈ l.dropWhile p, x ∈ l := by
  induction l with
  | nil => intro x h; simp at h
  | cons a r ih =>
    intro x h
    rw [List.dropWhile_cons] at h
    split at h
    · exact List.mem_cons_of_mem _ (ih x h)
    · exact h

/-- a `dropWhile` result is what remains after a prefix -/
theorem dropWhile_eq_drop (p : Char → Bool) (l : Str) :
    ∃ pre, l = pre ++ l.dropWhile p := by
  induction l with
  | nil => exact ⟨[], rfl⟩
  | cons a r ih =>
    rw [List.dropWhile_cons]
    split
    · obtain ⟨pre, h⟩ := ih
      exact ⟨a :: pre, by rw [List.cons_append, ← h]⟩
    · exact ⟨[], rfl⟩

theorem rstripChar_prefix (c : Char) (s : Str) : ∃ post, s = rstripChar c s ++ post := by
  obtain ⟨pre, h⟩ := dropWhile_eq_drop (· = c) s.reverse
  refine ⟨pre.reverse, ?_⟩
  have := congrArg List.reverse h
  rw [List.reverse_reverse, List.reverse_append] at this
  exact this

theorem rstripChar_mem (c : Char) (s : Str) : ∀ x ∈ rstripChar c s, x ∈ s := by
  intro x hx
  obtain ⟨post, h⟩ := rstripChar_prefix c s
  rw [h]; exact List.mem_append_left _ hx

theorem rstripChar_last (c : Char) (s : Str) : (rstripChar c s).getLast? ≠ some c := by
  unfold rstripChar
  rw [List.getLast?_reverse]
  intro h
  have := head_dropWhile (· = c) s.reverse c h
  simp at this

theorem rstripChar_head (c : Char) (s : Str) (hne : rstripChar c s ≠ []) :
    (rstripChar c s).head? = s.head? := by
  obtain ⟨post, h⟩ := rstripChar_prefix c s
  generalize rstripChar c s = core at h hne
  subst h
  cases core with
  | nil => exact absurd rfl hne
  | cons a r => rfl

/-! ### One word -/

/-- the only check token of a word is the middle one -/
theorem tokenizeWord_chk (w : Str) (t : Tree) (h : Tok.chk t ∈ tokenizeWord w) :
    Tok.chk t ∈ midOf (rstripChar ')' (w.dropWhile (· = '('))) := by
  unfold tokenizeWord at h
  simp only [] at h
  split at h
  · simp [List.mem_replicate] at h
  · simp only [List.mem_append, List.mem_replicate] at h
    rcases h with (h | h) | h
    · simp at h
    · exact h
    · simp at h

/-- when the middle of a word is a check token, the stripped word is a clean leaf -/
theorem midOf_chk (core : Str) (t : Tree) (h : Tok.chk t ∈ midOf core) :
    t = parseCheck core ∧ core ≠ [] ∧ core.map asciiLower ≠ kwAnd ∧
      core.map asciiLower ≠ kwOr ∧ core.map asciiLower ≠ kwNot ∧ isQuoted core = false := by
  unfold midOf at h
  simp only [] at h
  split at h
  · simp at h
  · next h1 =>
    split at h
    · simp at h
    · next h2 =>
      split at h
      · simp at h
      · next h3 =>
        split at h
        · simp at h
        · next h4 =>
          split at h
          · simp at h
          · next h5 =>
            simp only [List.mem_singleton, Tok.chk.injEq] at h
            refine ⟨h, ?_, h1, h2, h3, by simpa using h5⟩
            rintro rfl; simp at h4

theorem tokenizeWord_leaf (w : Str) (hw : ∀ c ∈ w, isSpace c = false) (t : Tree)
    (h : Tok.chk t ∈ tokenizeWord w) : ∃ core, t = parseCheck core ∧ CleanLeaf core := by
  have hm := tokenizeWord_chk w t h
  obtain ⟨ht, hne, ha, ho, hn, hq⟩ := midOf_chk _ t hm
  refine ⟨_, ht, hne, ?_, ?_, rstripChar_last _ _, ha, ho, hn, hq⟩
  · intro c hc
    exact hw c (mem_of_mem_dropWhile' _ _ c (rstripChar_mem _ _ c hc))
  · rw [rstripChar_head _ _ hne]
    intro hh
    have := head_dropWhile (· = '(') w '(' hh
    simp at this

/-! ### `_parse_check` on a clean leaf -/

theorem splitColon_some : ∀ (s k m : Str), splitColon s = some (k, m) →
    s = k ++ ':' :: m ∧ ':' ∉ k := by
  intro s
  induction s with
  | nil => intro k m h; simp [splitColon] at h
  | cons c r ih =>
    intro k m h
    simp only [splitColon] at h
    split at h
    · next hc =>
      simp only [Option.some.injEq, Prod.mk.injEq] at h
      obtain ⟨rfl, rfl⟩ := h
      subst hc; simp
    · next hc =>
      split at h
      · next k' m' hs =>
        simp only [Option.some.injEq, Prod.mk.injEq] at h
        obtain ⟨rfl, rfl⟩ := h
        obtain ⟨rfl, hk⟩ := ih k' m' hs
        refine ⟨rfl, ?_⟩
        intro hmem
        rcases List.mem_cons.1 hmem with e | e
        · exact hc e.symm
        · exact hk e
      · simp at h

theorem parseCheck_leafOK (s : Str) (h : CleanLeaf s) : LeafOK (parseCheck s) := by
  unfold parseCheck
  split
  · simp [LeafOK]
  · split
    · simp [LeafOK]
    · split
      · next k m hs =>
        obtain ⟨rfl, hk⟩ := splitColon_some s k m hs
        exact ⟨h, hk⟩
      · simp [LeafOK]

/-- 1. every check token the tokenizer emits is `@`, `!` or a clean `kind:match` leaf -/
theorem tokenize_leaves (s : Str) : ∀ t, Tok.chk t ∈ tokenize s → LeafOK t := by
  intro t ht
  unfold tokenize at ht
  obtain ⟨w, hw, htw⟩ := List.mem_flatMap.1 ht
  obtain ⟨core, rfl, hc⟩ := tokenizeWord_leaf w (splitWs_words s w hw).2 t htw
  exact parseCheck_leafOK core hc

/-! ### Assembling `WFT` -/

mutual
/-- 2. assembling WFT from the two structural facts -/
theorem WFT_of_wide_leaves : (t : Tree) → (hw : Wide t) → (hl : LeavesAll LeafOK t) → WFT t
  | .tt, _, _ => by simp [WFT]
  | .ff, _, _ => by simp [WFT]
  | .chk k m, _, hl => by
      simp only [LeavesAll, LeafOK] at hl
      simp only [WFT]; exact hl
  | .not t, hw, hl => by
      simp only [Wide] at hw; simp only [LeavesAll] at hl
      simp only [WFT]; exact WFT_of_wide_leaves t hw hl
  | .and ts, hw, hl => by
      simp only [Wide] at hw; simp only [LeavesAll] at hl
      simp only [WFT]; exact ⟨hw.1, WFTs_of_wides_leaves ts hw.2 hl⟩
  | .or ts, hw, hl => by
      simp only [Wide] at hw; simp only [LeavesAll] at hl
      simp only [WFT]; exact ⟨hw.1, WFTs_of_wides_leaves ts hw.2 hl⟩
theorem WFTs_of_wides_leaves : (ts : List Tree) → (hw : Wides ts) →
    (hl : LeavesAlls LeafOK ts) → WFTs ts
  | [], _, _ => by simp [WFTs]
  | t :: ts, hw, hl => by
      simp only [Wides] at hw; simp only [LeavesAlls] at hl
      simp only [WFTs]
      exact ⟨WFT_of_wide_leaves t hw.1 hl.1, WFTs_of_wides_leaves ts hw.2 hl.2⟩
end

theorem LeafOK.isLeaf {t : Tree} (h : LeafOK t) : IsLeafTree t := by
  cases t <;> simp_all [LeafOK, IsLeafTree]

/-- 3. everything the text parser produces can be printed and read back -/
theorem parseText_WFT (s : Str) : WFT (parseText s) := by
  unfold parseText
  split
  · simp [WFT]
  · split
    · next t ht =>
      have hg := parseToks_good LeafOK (tokenize s) t
        (fun x hx => ⟨(tokenize_leaves s x hx).isLeaf, tokenize_leaves s x hx⟩) ht
      exact WFT_of_wide_leaves t hg.1 hg.2
    · simp [WFT]

/-! ### Print then parse -/

/-- 4. the printed text is never empty -/
theorem print_ne_nil (t : Tree) : t.print ≠ [] := by
  cases t <;> simp [Tree.print]

/-- 5. print-then-parse is the identity on printable trees -/
theorem parseText_print (t : Tree) (h : WFT t) : parseText t.print = t := by
  have hne : t.print.isEmpty = false := by
    cases hp : t.print with
    | nil => exact absurd hp (print_ne_nil t)
    | cons a r => rfl
  unfold parseText
  rw [hne, tokenize_print t h, parseToks_printToks t (WFT.wide t h)]
  simp

/-- 6. hence the printer is injective on printable trees -/
theorem print_inj (t₁ t₂ : Tree) (h₁ : WFT t₁) (h₂ : WFT t₂) (h : t₁.print = t₂.print) :
    t₁ = t₂ := by
  rw [← parseText_print t₁ h₁, ← parseText_print t₂ h₂, h]

/-- 7. parse ∘ print ∘ parse = parse on every string -/
theorem parseText_roundtrip (s : Str) : parseText (parseText s).print = parseText s :=
  parseText_print _ (parseText_WFT s)

end OsloPolicy
