import OsloPolicy.Spec.Layout
/-
The tokenizer inverts every layout: `tokenize (spell sep0 ws) = ws.flatMap toks`.
All four statements hold as specified; no hypothesis had to be added.
-/
namespace OsloPolicy

/-! ### Characters -/

theorem isSpace_not_upper (c : Char) (h : isSpace c = true) : ¬ ('A' ≤ c ∧ c ≤ 'Z') := by
  intro hc
  have h1 : 'A'.toNat ≤ c.toNat := hc.1
  have h2 : c.toNat ≤ 'Z'.toNat := hc.2
  simp [isSpace, pySpaceCodes] at h h1 h2
  omega

theorem asciiLower_space (c : Char) (h : isSpace c = true) : asciiLower c = c := by
  unfold asciiLower
  rw [if_neg (isSpace_not_upper c h)]

/-- the letters of `and`, `or`, `not` -/
def kwLetters : List Char := ['a', 'n', 'd', 'o', 'r', 't']

/-- a character that lower-cases to a keyword letter is neither whitespace nor a parenthesis -/
theorem kw_char_ok (c : Char) (h : asciiLower c ∈ kwLetters) :
    isSpace c = false ∧ c ≠ '(' ∧ c ≠ ')' := by
  refine ⟨?_, ?_, ?_⟩
  · cases hs : isSpace c with
    | false => rfl
    | true =>
      rw [asciiLower_space c hs] at h
      simp [kwLetters] at h
      rcases h with rfl | rfl | rfl | rfl | rfl | rfl <;> revert hs <;> decide
  · rintro rfl; revert h; decide
  · rintro rfl; revert h; decide

/-- A keyword spelling. -/
def IsKwSpelling (sp : Str) : Prop :=
  sp.map asciiLower = kwAnd ∨ sp.map asciiLower = kwOr ∨ sp.map asciiLower = kwNot

theorem IsKwSpelling.ne_nil {sp : Str} (h : IsKwSpelling sp) : sp ≠ [] := by
  rintro rfl
  rcases h with h | h | h <;> revert h <;> decide

theorem IsKwSpelling.char_ok {sp : Str} (h : IsKwSpelling sp) :
    ∀ c ∈ sp, isSpace c = false ∧ c ≠ '(' ∧ c ≠ ')' := by
  intro c hc
  apply kw_char_ok
  have hm : asciiLower c ∈ sp.map asciiLower := List.mem_map_of_mem hc
  have h1 : ∀ x ∈ kwAnd, x ∈ kwLetters := by decide
  have h2 : ∀ x ∈ kwOr, x ∈ kwLetters := by decide
  have h3 : ∀ x ∈ kwNot, x ∈ kwLetters := by decide
  rcases h with h | h | h <;> rw [h] at hm
  · exact h1 _ hm
  · exact h2 _ hm
  · exact h3 _ hm

theorem IsKwSpelling.head {sp : Str} (h : IsKwSpelling sp) : sp.head? ≠ some '(' := by
  cases sp with
  | nil => simp
  | cons a r =>
    simp only [List.head?_cons, ne_eq, Option.some.injEq]
    exact (h.char_ok a (by simp)).2.1

theorem IsKwSpelling.last {sp : Str} (h : IsKwSpelling sp) : sp.getLast? ≠ some ')' := by
  intro hl
  have := h.char_ok ')' (List.mem_of_getLast? hl)
  exact this.2.2 rfl

theorem Core.WF.isKw {k : Tok} {sp : Str} (h : (Core.kw k sp).WF) : IsKwSpelling sp := by
  rcases h with h | h | h
  · exact .inl h.2
  · exact .inr (.inl h.2)
  · exact .inr (.inr h.2)

/-! ### Stripping parentheses -/

theorem dropWhile_replicate_append (n : Nat) (a : Char) (l : Str) (h : l.head? ≠ some a) :
    (List.replicate n a ++ l).dropWhile (· = a) = l := by
  induction n with
  | zero =>
    cases l with
    | nil => rfl
    | cons c r =>
      have : c ≠ a := by simpa using h
      simp [this]
  | succ n ih => simpa [List.replicate_succ, List.dropWhile_cons] using ih

theorem rstripChar_append_replicate (n : Nat) (a : Char) (l : Str) (h : l.getLast? ≠ some a) :
    rstripChar a (l ++ List.replicate n a) = l := by
  unfold rstripChar
  rw [List.reverse_append, List.reverse_replicate,
    dropWhile_replicate_append n a l.reverse (by simpa using h), List.reverse_reverse]

/-- the middle token(s) the tokenizer produces for a stripped word -/
def midOf (core : Str) : List Tok :=
  let low := core.map asciiLower
  if low = "and".toList then [.kAnd]
  else if low = "or".toList then [.kOr]
  else if low = "not".toList then [.kNot]
  else if core.isEmpty then []
  else if isQuoted core then [.str (core.tail.dropLast)]
  else [.chk (parseCheck core)]

theorem midOf_nil : midOf [] = [] := by decide

theorem tokenizeWord_shape (l t : Nat) (s : Str) (h1 : s.head? ≠ some '(')
    (h2 : s.getLast? ≠ some ')') :
    tokenizeWord (List.replicate l '(' ++ s ++ List.replicate t ')') =
      List.replicate l Tok.lp ++ midOf s ++ List.replicate t Tok.rp := by
  have hhead : (s ++ List.replicate t ')').head? ≠ some '(' := by
    cases s with
    | nil => cases t <;> simp [List.replicate_succ]
    | cons a r => simpa using h1
  have hclean : (List.replicate l '(' ++ s ++ List.replicate t ')').dropWhile (· = '(') =
      s ++ List.replicate t ')' := by
    rw [List.append_assoc]; exact dropWhile_replicate_append l '(' _ hhead
  have hcore : rstripChar ')' (s ++ List.replicate t ')') = s :=
    rstripChar_append_replicate t ')' s h2
  unfold tokenizeWord
  simp only [hclean, hcore]
  have e1 : (List.replicate l '(' ++ s ++ List.replicate t ')').length -
      (s ++ List.replicate t ')').length = l := by
    simp only [List.length_append, List.length_replicate]; omega
  have e2 : (s ++ List.replicate t ')').length - s.length = t := by
    simp only [List.length_append, List.length_replicate]; omega
  rw [e1, e2]
  split
  · next he =>
    have : s = [] ∧ t = 0 := by
      cases s with
      | nil => cases t <;> simp_all [List.replicate_succ]
      | cons a r => simp at he
    obtain ⟨rfl, rfl⟩ := this
    simp [midOf_nil]
  · rfl

theorem midOf_kw {k : Tok} {sp : Str} (h : (Core.kw k sp).WF) : midOf sp = [k] := by
  unfold midOf
  rcases h with ⟨rfl, h⟩ | ⟨rfl, h⟩ | ⟨rfl, h⟩
  · simp only [h]; simp [kwAnd]
  · simp only [h]; simp [kwOr]
  · simp only [h]; simp [kwNot]

theorem midOf_leaf {s : Str} (h : CleanLeaf s) : midOf s = [.chk (parseCheck s)] := by
  obtain ⟨hne, _, _, _, ha, ho, hn, hq⟩ := h
  unfold midOf
  have he : s.isEmpty = false := by cases s <;> simp_all
  simp only [kwAnd, kwOr, kwNot] at ha ho hn
  simp only [if_neg ha, if_neg ho, if_neg hn, he, hq]
  simp

/-- the tokenizer reads one well-formed word as the tokens it spells -/
theorem tokenizeWord_chars (w : Word) (h : w.WF) : tokenizeWord w.chars = w.toks := by
  obtain ⟨l, core, t⟩ := w
  obtain ⟨hc, _⟩ := h
  simp only [Word.chars, Word.toks]
  cases core with
  | none =>
    rw [tokenizeWord_shape l t _ (by simp [Core.chars]) (by simp [Core.chars])]
    simp [Core.chars, Core.toks, midOf_nil]
  | kw k sp =>
    have hk := Core.WF.isKw hc
    simp only [Core.chars]
    rw [tokenizeWord_shape l t _ hk.head hk.last]
    simp [Core.toks, midOf_kw hc]
  | leaf s =>
    have hc' : CleanLeaf s := hc
    simp only [Core.chars]
    rw [tokenizeWord_shape l t _ hc'.2.2.1 hc'.2.2.2.1]
    simp [Core.toks, midOf_leaf hc']

/-- word characters are never whitespace -/
theorem Word.chars_noSpace (w : Word) (h : w.WF) : ∀ c ∈ w.chars, isSpace c = false := by
  obtain ⟨l, core, t⟩ := w
  obtain ⟨hc, _⟩ := h
  intro c hm
  simp only [Word.chars, List.mem_append, List.mem_replicate] at hm
  rcases hm with (⟨_, rfl⟩ | hm) | ⟨_, rfl⟩
  · decide
  · cases core with
    | none => simp [Core.chars] at hm
    | kw k sp => exact ((Core.WF.isKw hc).char_ok c hm).1
    | leaf s => exact (hc : CleanLeaf s).2.1 c hm
  · decide

/-! ### Whitespace splitting -/

theorem splitWsAux_word (w rest cur : Str) (hw : ∀ c ∈ w, isSpace c = false) :
    splitWsAux (w ++ rest) cur = splitWsAux rest (w.reverse ++ cur) := by
  induction w generalizing cur with
  | nil => rfl
  | cons a r ih =>
    have ha : isSpace a = false := hw a (by simp)
    simp only [List.cons_append, splitWsAux, ha, Bool.false_eq_true, if_false]
    rw [ih _ (fun c hc => hw c (by simp [hc]))]
    simp

theorem splitWsAux_sep_nil (sep rest : Str) (hs : IsSep sep) :
    splitWsAux (sep ++ rest) [] = splitWsAux rest [] := by
  induction sep with
  | nil => rfl
  | cons a r ih =>
    have ha : isSpace a = true := hs a (by simp)
    simp only [List.cons_append, splitWsAux, ha, if_true, List.isEmpty_nil]
    exact ih (fun c hc => hs c (by simp [hc]))

theorem splitWsAux_sep_cons (sep rest cur : Str) (hs : IsSep sep) (hne : sep ≠ [])
    (hc : cur ≠ []) : splitWsAux (sep ++ rest) cur = cur.reverse :: splitWsAux rest [] := by
  cases sep with
  | nil => exact absurd rfl hne
  | cons a r =>
    have ha : isSpace a = true := hs a (by simp)
    have he : cur.isEmpty = false := by cases cur <;> simp_all
    simp only [List.cons_append, splitWsAux, ha, if_true, he, Bool.false_eq_true, if_false]
    rw [splitWsAux_sep_nil r rest (fun c hc => hs c (by simp [hc]))]

theorem splitWsAux_layout (ws : List (Word × Str)) (h : LayoutOK ws) :
    splitWsAux (ws.flatMap (fun p => p.1.chars ++ p.2)) [] = ws.map (fun p => p.1.chars) := by
  induction ws with
  | nil => rfl
  | cons p r ih =>
    obtain ⟨w, sep⟩ := p
    cases r with
    | nil =>
      obtain ⟨hw, hs⟩ := h
      have hne : w.chars.reverse ≠ [] := by simpa using hw.2
      simp only [List.flatMap_cons, List.flatMap_nil, List.append_nil, List.map_cons, List.map_nil]
      rw [splitWsAux_word _ _ _ (w.chars_noSpace hw), List.append_nil]
      by_cases hsep : sep = []
      · subst hsep
        have he : w.chars.reverse.isEmpty = false := by
          cases hr : w.chars.reverse <;> simp_all
        simp [splitWsAux, he]
      · have := splitWsAux_sep_cons sep [] _ hs hsep hne
        rw [List.append_nil] at this
        rw [this]; simp [splitWsAux]
    | cons q r' =>
      obtain ⟨hw, hs, hsne, hrest⟩ := h
      have hne : w.chars.reverse ≠ [] := by simpa using hw.2
      rw [List.flatMap_cons, List.map_cons, List.append_assoc,
        splitWsAux_word _ _ _ (w.chars_noSpace hw), List.append_nil,
        splitWsAux_sep_cons sep _ _ hs hsne hne, List.reverse_reverse, ih hrest]

/-- whitespace splitting recovers exactly the words of a layout -/
theorem splitWs_spell (sep0 : Str) (ws : List (Word × Str)) (h0 : IsSep sep0) (h : LayoutOK ws) :
    splitWs (spell sep0 ws) = ws.map (fun p => p.1.chars) := by
  unfold splitWs spell
  rw [splitWsAux_sep_nil sep0 _ h0, splitWsAux_layout ws h]

theorem flatMap_congr' {α β} {f g : α → List β} :
    ∀ (l : List α), (∀ a ∈ l, f a = g a) → l.flatMap f = l.flatMap g
  | [], _ => rfl
  | a :: l, h => by
    rw [List.flatMap_cons, List.flatMap_cons, h a (by simp),
      flatMap_congr' l (fun b hb => h b (by simp [hb]))]

theorem LayoutOK.wf {ws : List (Word × Str)} (h : LayoutOK ws) : ∀ p ∈ ws, p.1.WF := by
  induction ws with
  | nil => simp
  | cons p r ih =>
    obtain ⟨w, sep⟩ := p
    cases r with
    | nil =>
      intro q hq
      simp only [List.mem_singleton] at hq
      subst hq; exact h.1
    | cons q r' =>
      obtain ⟨hw, _, _, hrest⟩ := h
      intro x hx
      rcases List.mem_cons.1 hx with rfl | hx
      · exact hw
      · exact ih hrest x hx

/-- MAIN: every layout of a token list tokenizes back to that token list -/
theorem tokenize_spell (sep0 : Str) (ws : List (Word × Str)) (h0 : IsSep sep0) (h : LayoutOK ws) :
    tokenize (spell sep0 ws) = ws.flatMap (fun p => p.1.toks) := by
  unfold tokenize
  rw [splitWs_spell sep0 ws h0 h, List.flatMap_map]
  apply flatMap_congr'
  intro p hp
  exact tokenizeWord_chars p.1 (h.wf p hp)

end OsloPolicy
