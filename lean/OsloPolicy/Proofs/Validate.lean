import OsloPolicy.Spec.RefGraph
import OsloPolicy.Proofs.EvalFuel
/-
C13: `check_rules` is exact with respect to the reference graph (`Spec/RefGraph.lean`),
and a rule set it accepts cannot exhaust the evaluator's fuel.
-/
namespace OsloPolicy

/-! ### Association lists -/

theorem afind_mem {α} (m : Str) : ∀ (rs : List (Str × α)) (t : α), afind m rs = some t → (m, t) ∈ rs
  | [], _, h => by simp [afind] at h
  | (k, v) :: r, t, h => by
      simp only [afind] at h
      split at h
      · next hk => simp at h; subst hk; subst h; simp
      · exact List.mem_cons_of_mem _ (afind_mem m r t h)

theorem afind_mem_keys {α} (m : Str) (rs : List (Str × α)) (t : α) (h : afind m rs = some t) :
    m ∈ rs.map (·.1) :=
  List.mem_map.2 ⟨(m, t), afind_mem m rs t h, rfl⟩

/-! ### A. the tree walkers visit exactly the references of the tree -/

mutual
theorem undefTree_iff (rs : List (Str × Tree)) :
    (t : Tree) → (undefTree rs t = true ↔ RefsUndefined rs t)
  | .tt => by simp [undefTree, RefsUndefined, refsTree]
  | .ff => by simp [undefTree, RefsUndefined, refsTree]
  | .chk k m => by
      simp only [undefTree, RefsUndefined, refsTree]
      by_cases hk : k = ruleKind <;> simp [hk]
  | .not t => by
      simp only [undefTree, RefsUndefined, refsTree]; exact undefTree_iff rs t
  | .and ts => by
      simp only [undefTree, RefsUndefined, refsTree]; exact undefList_iff rs ts
  | .or ts => by
      simp only [undefTree, RefsUndefined, refsTree]; exact undefList_iff rs ts
theorem undefList_iff (rs : List (Str × Tree)) :
    (ts : List Tree) → (undefList rs ts = true ↔ ∃ m ∈ refsList ts, afind m rs = none)
  | [] => by simp [undefList, refsList]
  | t :: ts => by
      have h1 := undefTree_iff rs t
      have h2 := undefList_iff rs ts
      simp only [RefsUndefined] at h1
      simp only [undefList, refsList, Bool.or_eq_true, List.mem_append, h1, h2]
      constructor
      · rintro (⟨m, hm, h⟩ | ⟨m, hm, h⟩)
        · exact ⟨m, Or.inl hm, h⟩
        · exact ⟨m, Or.inr hm, h⟩
      · rintro ⟨m, hm | hm, h⟩
        · exact Or.inl ⟨m, hm, h⟩
        · exact Or.inr ⟨m, hm, h⟩
end

mutual
theorem cycTree_eq_any (step : List Str → Str → Bool) (seen : List Str) :
    (t : Tree) → cycTree step seen t = (refsTree t).any (step seen)
  | .tt => by simp [cycTree, refsTree]
  | .ff => by simp [cycTree, refsTree]
  | .chk k m => by
      simp only [cycTree, refsTree]
      by_cases hk : k = ruleKind <;> simp [hk]
  | .not t => by simp only [cycTree, refsTree]; exact cycTree_eq_any step seen t
  | .and ts => by simp only [cycTree, refsTree]; exact cycList_eq_any step seen ts
  | .or ts => by simp only [cycTree, refsTree]; exact cycList_eq_any step seen ts
theorem cycList_eq_any (step : List Str → Str → Bool) (seen : List Str) :
    (ts : List Tree) → cycList step seen ts = (refsList ts).any (step seen)
  | [] => by simp [cycList, refsList]
  | t :: ts => by
      simp only [cycList, refsList, List.any_append, cycTree_eq_any step seen t,
        cycList_eq_any step seen ts]
end

/-! ### B. the path-sensitive walk -/

theorem cycRef_zero (rs : List (Str × Tree)) (seen : List Str) (m : Str) :
    cycRef rs 0 seen m = seen.contains m := by
  simp only [cycRef]

theorem cycRef_succ (rs : List (Str × Tree)) (n : Nat) (seen : List Str) (m : Str) :
    cycRef rs (n + 1) seen m =
      (seen.contains m || (succs rs m).any (cycRef rs n (m :: seen))) := by
  simp only [cycRef, succs]
  cases afind m rs with
  | none => simp
  | some t => simp only [cycTree_eq_any]

theorem succs_defined {rs : List (Str × Tree)} {m m' : Str} (h : m' ∈ succs rs m) :
    m ∈ rs.map (·.1) := by
  unfold succs at h
  cases hR : afind m rs with
  | none => simp [hR] at h
  | some t => exact afind_mem_keys m rs t hR

/-- DFS says "cycle" → some reference walk from `m` runs into `seen` or into itself -/
theorem cycRef_sound (rs : List (Str × Tree)) : ∀ fuel seen m, cycRef rs fuel seen m = true →
    ∃ l, Walk rs (m :: l) ∧ ¬ (seen ++ m :: l).Nodup := by
  intro fuel
  induction fuel with
  | zero =>
    intro seen m h
    rw [cycRef_zero] at h
    have hm : m ∈ seen := by simpa using h
    exact ⟨[], .one m, by simp [List.nodup_append, hm]⟩
  | succ fuel ih =>
    intro seen m h
    rw [cycRef_succ] at h
    simp only [Bool.or_eq_true, List.any_eq_true] at h
    rcases h with h | ⟨m', hm', h⟩
    · have hm : m ∈ seen := by simpa using h
      exact ⟨[], .one m, by simp [List.nodup_append, hm]⟩
    · obtain ⟨l, hw, hnd⟩ := ih (m :: seen) m' h
      refine ⟨m' :: l, .cons hm' hw, ?_⟩
      intro hn
      apply hnd
      have : (seen ++ m :: m' :: l).Perm ((m :: seen) ++ m' :: l) := by
        simp
      exact (this.nodup_iff).1 hn

/-- every name on the path-set is a defined rule, all distinct -/
def SeenGood (keys seen : List Str) : Prop :=
  seen.Nodup ∧ ∀ x ∈ seen, x ∈ keys

/-- some walk from `m` repeats → DFS says "cycle", provided the fuel covers the unseen rules -/
theorem cycRef_complete (rs : List (Str × Tree)) :
    ∀ l fuel seen m, Walk rs (m :: l) → ¬ (seen ++ m :: l).Nodup → SeenGood (rs.map (·.1)) seen →
      (rs.map (·.1)).length + 1 ≤ fuel + seen.length → cycRef rs fuel seen m = true := by
  intro l
  induction l with
  | nil =>
    intro fuel seen m _ hnd hg _
    have : m ∈ seen := by
      apply Classical.byContradiction; intro hm
      apply hnd
      simp only [List.nodup_append, hg.1, List.nodup_cons, List.not_mem_nil, not_false_eq_true,
        List.nodup_nil, and_self, List.mem_singleton, true_and]
      intro a ha b hb; subst hb; intro hab; subst hab; exact hm ha
    cases fuel with
    | zero => rw [cycRef_zero]; simpa using this
    | succ fuel => rw [cycRef_succ]; simp [this]
  | cons m' l ih =>
    intro fuel seen m hw hnd hg hfuel
    by_cases hm : m ∈ seen
    · cases fuel with
      | zero => rw [cycRef_zero]; simpa using hm
      | succ fuel => rw [cycRef_succ]; simp [hm]
    · cases hw with
      | cons hedge hw' =>
        have hmk : m ∈ rs.map (·.1) := succs_defined hedge
        have hg' : SeenGood (rs.map (·.1)) (m :: seen) :=
          ⟨List.nodup_cons.2 ⟨hm, hg.1⟩, by
            intro x hx; rcases List.mem_cons.1 hx with rfl | hx
            · exact hmk
            · exact hg.2 x hx⟩
        have hlen : (m :: seen).length ≤ (rs.map (·.1)).length :=
          List.Nodup.length_le_of_subset hg'.1 (fun x hx => hg'.2 x hx)
        cases fuel with
        | zero => simp at hlen hfuel; omega
        | succ fuel =>
          rw [cycRef_succ]
          simp only [Bool.or_eq_true, List.any_eq_true]
          right
          refine ⟨m', hedge, ih fuel (m :: seen) m' hw' ?_ hg' (by simp at hfuel ⊢; omega)⟩
          intro hn; apply hnd
          have : (seen ++ m :: m' :: l).Perm ((m :: seen) ++ m' :: l) := by
            simp
          exact (this.nodup_iff).2 hn

theorem cycRef_exact (rs : List (Str × Tree)) (m : Str) :
    cycRef rs (rs.length + 1) [] m = true ↔ ∃ l, Walk rs (m :: l) ∧ ¬ (m :: l).Nodup := by
  constructor
  · intro h; simpa using cycRef_sound rs _ [] m h
  · rintro ⟨l, hw, hnd⟩
    exact cycRef_complete rs l _ [] m hw (by simpa using hnd) ⟨List.nodup_nil, by simp⟩ (by simp)

theorem cycleCheck_iff (rs : List (Str × Tree)) (t : Tree) :
    cycleCheck rs t = true ↔ ReachesCycle rs t := by
  simp only [cycleCheck, cycTree_eq_any, List.any_eq_true, ReachesCycle, cycRef_exact]

/-! ### C. exactness of `check_rules` -/

theorem checkRules_false_iff (rs : List (Str × Tree)) :
    checkRules rs false = false ↔ ∃ p ∈ rs, RefsUndefined rs p.2 ∨ ReachesCycle rs p.2 := by
  simp only [checkRules, List.all_eq_false, Bool.not_false, Bool.true_and, Bool.not_eq_true',
    Bool.not_eq_false, Bool.or_eq_true, undefTree_iff, cycleCheck_iff]

theorem checkRules_skip_false_iff (rs : List (Str × Tree)) :
    checkRules rs true = false ↔ ∃ p ∈ rs, ReachesCycle rs p.2 := by
  simp only [checkRules, List.all_eq_false, Bool.not_true, Bool.false_and, Bool.false_or,
    Bool.not_eq_true', Bool.not_eq_false, cycleCheck_iff]

/-! ### D. accepted rule sets do not exhaust the fuel -/

mutual
/-- fuel exhaustion can only come out of a reference -/
theorem evalTree_rec (leaf : Str → Str → Outcome) (r : Str → Outcome) (hl : NoRec leaf) :
    (t : Tree) → evalTree leaf r t = .raise .recursion → ∃ m ∈ refsTree t, r m = .raise .recursion
  | .tt, h => by simp [evalTree] at h
  | .ff, h => by simp [evalTree] at h
  | .chk k m, h => by
      simp only [evalTree] at h
      split at h
      · next hk => exact ⟨m, by simp [refsTree, ruleKind, hk], h⟩
      · exact absurd h (hl k m)
  | .not t, h => by
      simp only [evalTree] at h
      cases hv : evalTree leaf r t with
      | ret b => rw [hv] at h; simp at h
      | raise x =>
        rw [hv] at h; simp only [Outcome.raise.injEq] at h; subst h
        simpa only [refsTree] using evalTree_rec leaf r hl t hv
  | .and ts, h => by
      simp only [evalTree] at h
      simpa only [refsTree] using evalAll_rec leaf r hl ts h
  | .or ts, h => by
      simp only [evalTree] at h
      simpa only [refsTree] using evalAny_rec leaf r hl ts h
theorem evalAll_rec (leaf : Str → Str → Outcome) (r : Str → Outcome) (hl : NoRec leaf) :
    (ts : List Tree) → evalAll leaf r ts = .raise .recursion → ∃ m ∈ refsList ts, r m = .raise .recursion
  | [], h => by simp [evalAll] at h
  | t :: ts, h => by
      simp only [evalAll] at h
      simp only [refsList, List.mem_append]
      cases hv : evalTree leaf r t with
      | ret b =>
        rw [hv] at h
        cases b with
        | true =>
          obtain ⟨m, hm, hr⟩ := evalAll_rec leaf r hl ts h
          exact ⟨m, Or.inr hm, hr⟩
        | false => simp at h
      | raise x =>
        rw [hv] at h; simp only [Outcome.raise.injEq] at h; subst h
        obtain ⟨m, hm, hr⟩ := evalTree_rec leaf r hl t hv
        exact ⟨m, Or.inl hm, hr⟩
theorem evalAny_rec (leaf : Str → Str → Outcome) (r : Str → Outcome) (hl : NoRec leaf) :
    (ts : List Tree) → evalAny leaf r ts = .raise .recursion → ∃ m ∈ refsList ts, r m = .raise .recursion
  | [], h => by simp [evalAny] at h
  | t :: ts, h => by
      simp only [evalAny] at h
      simp only [refsList, List.mem_append]
      cases hv : evalTree leaf r t with
      | ret b =>
        rw [hv] at h
        cases b with
        | false =>
          obtain ⟨m, hm, hr⟩ := evalAny_rec leaf r hl ts h
          exact ⟨m, Or.inr hm, hr⟩
        | true => simp at h
      | raise x =>
        rw [hv] at h; simp only [Outcome.raise.injEq] at h; subst h
        obtain ⟨m, hm, hr⟩ := evalTree_rec leaf r hl t hv
        exact ⟨m, Or.inl hm, hr⟩
end

theorem catchKey_eq_rec (o : Outcome) (h : catchKey o = .raise .recursion) : o = .raise .recursion := by
  cases o with
  | ret b => simp [catchKey] at h
  | raise x => cases x <;> simp_all [catchKey]

/-- every reference made from a stored tree is to a defined name -/
def Closed (rs : List (Str × Tree)) : Prop :=
  ∀ p ∈ rs, ∀ m ∈ refsTree p.2, ∃ t, afind m rs = some t

theorem closed_of_checkRules (rs : List (Str × Tree)) (hok : checkRules rs false = true) :
    Closed rs := by
  intro p hp m hm
  cases h : afind m rs with
  | some t => exact ⟨t, rfl⟩
  | none =>
    have : checkRules rs false = false :=
      (checkRules_false_iff rs).2 ⟨p, hp, Or.inl ⟨m, hm, h⟩⟩
    rw [hok] at this; cases this

theorem lookup_of_afind (rs : Rules) (m : Str) (t : Tree) (h : afind m rs.entries = some t) :
    rs.lookup m = some t := by
  simp only [Rules.lookup, h]

/-- In a closed store, exhausting `k` levels of fuel at a defined name exhibits a reference
walk of `k + 1` defined names. -/
theorem evalRef_rec_walk (rs : Rules) (leaf : Str → Str → Outcome) (hl : NoRec leaf)
    (hc : Closed rs.entries) : ∀ (k : Nat) (m : Str), (∃ t, afind m rs.entries = some t) →
      evalRef rs leaf k m = .raise .recursion →
      ∃ l, l.length = k ∧ Walk rs.entries (m :: l) ∧ ∀ x ∈ m :: l, x ∈ rs.entries.map (·.1) := by
  intro k
  induction k with
  | zero =>
    rintro m ⟨t, ht⟩ _
    refine ⟨[], rfl, .one m, ?_⟩
    intro x hx
    simp only [List.mem_singleton] at hx
    subst hx
    exact afind_mem_keys _ _ t ht
  | succ k ih =>
    rintro m ⟨t, ht⟩ h
    rw [evalRef_succ, lookup_of_afind rs m t ht] at h
    simp only [] at h
    obtain ⟨m', hm', hr⟩ := evalTree_rec leaf _ hl t (catchKey_eq_rec _ h)
    have hdef : ∃ t', afind m' rs.entries = some t' := hc (m, t) (afind_mem m _ t ht) m' hm'
    obtain ⟨l, hlen, hw, hall⟩ := ih m' hdef hr
    have hedge : m' ∈ succs rs.entries m := by simp only [succs, ht]; exact hm'
    refine ⟨m' :: l, by simp [hlen], .cons hedge hw, ?_⟩
    intro x hx
    rcases List.mem_cons.1 hx with rfl | hx
    · exact afind_mem_keys _ _ t ht
    · exact hall x hx

theorem checkRules_terminates (rs : Rules) (leaf : Str → Str → Outcome) (hl : NoRec leaf)
    (hok : checkRules rs.entries false = true) :
    ∀ p ∈ rs.entries, eval rs leaf (rs.entries.length + 1) p.2 ≠ .raise .recursion := by
  intro p hp h
  have hc := closed_of_checkRules rs.entries hok
  obtain ⟨m, hm, hr⟩ := evalTree_rec leaf _ hl p.2 h
  obtain ⟨l, hlen, hw, hall⟩ := evalRef_rec_walk rs leaf hl hc _ m (hc p hp m hm) hr
  have hnd : ¬ (m :: l).Nodup := by
    intro hn
    have := List.Nodup.length_le_of_subset hn (fun x hx => hall x hx)
    simp [hlen] at this
    omega
  have : checkRules rs.entries false = false :=
    (checkRules_false_iff rs.entries).2 ⟨p, hp, Or.inr ⟨m, hm, l, hw, hnd⟩⟩
  rw [hok] at this; cases this

end OsloPolicy
