import OsloPolicy.Proofs.Loader
/-
Histories in which the service keeps *registering defaults* (`Enforcer.register_default`) between
file operations and loads.  `register_default` only appends to `registered_rules`; the loop at the
end of every `load_rules` adds a default for each name still absent.  The history invariant of
`Proofs/Loader.lean` is stated through `mergeDefaults … regs rules`, a left fold over `regs`, so it
survives an append — which is what makes a default registered after the first load show up at the
next one.
-/
namespace OsloPolicy

theorem mergeDefaults_append (en : Bool) (fr : Content) (r1 r2 : List RuleDefault) (s : Store) :
    mergeDefaults en fr (r1 ++ r2) s = mergeDefaults en fr r2 (mergeDefaults en fr r1 s) := by
  simp [mergeDefaults, List.foldl_append]

theorem compute_append (en : Bool) (r1 r2 : List RuleDefault) (fs : FS) :
    compute en (r1 ++ r2) fs = mergeDefaults en (filesRules fs) r2 (compute en r1 fs) := by
  simp [compute, mergeDefaults_append]

/-- The invariant for the defaults registered so far is the invariant for any extension of them. -/
theorem Inv_register (en : Bool) (r1 r2 : List RuleDefault) (w : World) (h : Inv en r1 w) :
    Inv en (r1 ++ r2) w := by
  obtain ⟨fsL, cL, h1, h2, h3, h4, h5, h6, h7, h8, h9, h10⟩ := h
  refine ⟨fsL, cL, h1, h2, h3, h4, h5, h6, ?_, h8, h9, h10⟩
  rw [mergeDefaults_append, h7, compute_append, h8]

theorem InvR_step (en : Bool) (w : WorldR) (op : OpR) (h : Inv en w.regs w.world) :
    Inv en (stepR en w op).regs (stepR en w op).world := by
  cases op with
  | fs op => exact Inv_step en w.regs w.world op h
  | register d =>
    by_cases hd : w.regs.any (·.name = d.name) = true
    · simpa [stepR, hd] using h
    · simpa [stepR, hd] using Inv_register en w.regs [d] w.world h

theorem InvR_history (en : Bool) (ops : List OpR) (w : WorldR) (h : Inv en w.regs w.world) :
    Inv en (ops.foldl (stepR en) w).regs (ops.foldl (stepR en) w).world := by
  induction ops generalizing w with
  | nil => exact h
  | cons op ops ih => exact ih _ (InvR_step en w op h)

/-- **C10 with registration.** After any history of file operations, loads and registrations —
starting from any stamped file system and any initially registered defaults — the next load of the
long-lived enforcer yields exactly what a brand-new enforcer holding *all* defaults registered so far
computes from the current files. -/
theorem historyR_fresh (en : Bool) (regs0 : List RuleDefault) (fs0 : FS) (clock0 : Nat)
    (hst : FS.Stamped fs0 clock0) (ops : List OpR) :
    let w := ops.foldl (stepR en) ⟨⟨fs0, Enf.init fs0.dirs.length, clock0⟩, regs0⟩
    (load en w.regs w.world.enf w.world.fs false).rules = (fresh en w.regs w.world.fs).rules := by
  intro w
  have hinv : Inv en w.regs w.world :=
    InvR_history en ops ⟨⟨fs0, Enf.init fs0.dirs.length, clock0⟩, regs0⟩ (Inv_init en regs0 fs0 clock0 hst)
  have hstw : FS.Stamped w.world.fs w.world.clock := by
    obtain ⟨_, _, _, hs, _⟩ := hinv
    exact hs
  rw [Inv_load_fresh en w.regs w.world hinv, (fresh_rules en w.regs w.world.fs hstw).1]

end OsloPolicy
