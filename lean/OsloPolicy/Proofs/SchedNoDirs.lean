import OsloPolicy.Proofs.SchedSafe
/-
C20, a second positive result for the in-place model of `Model/Sched.lean`.

`C20.inplace_violates` needs policy-directory content: the torn store that thread B reads there
is "main file without the policy.d overrides".  Here: if the policy directories define NOTHING
(`sc.dirsNew = []`), then on every "A runs `k` steps, B runs its whole `enforce`, A finishes"
schedule (`oneSwitch`), for every `k`, both decisions are those of the complete old or the complete
new policy.  The reason: the only torn stores B can meet are `mainNew` plus a prefix of the
registered defaults, and B's own default merge completes any of them to the complete new policy
(`foldl_take_complete`); A's remaining steps are then no-ops (`mergeIdem`).
-/

namespace OsloPolicy.Sched

theorem upd_nil (R : Content) : upd R [] = R := rfl

/-- `j` merge steps from pc `n+5`, not reaching the end of the registered defaults -/
theorem solo_merge_part (sc : Scenario) (m d c u : Bool) (j : Nat) :
    ∀ (n : Nat) (R : Content), n + j ≤ sc.regs.length →
      solo sc j (⟨R, m, d⟩, ⟨n + 5, c, u, none⟩) =
        (⟨((sc.regs.drop n).take j).foldl mergeF R, m, d⟩, ⟨n + j + 5, c, u, none⟩) := by
  induction j with
  | zero => intro n R _; rfl
  | succ j ih =>
    intro n R hn
    have hlt : n < sc.regs.length := by omega
    have hsome : sc.regs[n]? = some sc.regs[n] := by simp [hlt]
    rw [solo_succ _ _ _ _ rfl]
    simp only [step, hsome]
    rw [List.drop_eq_getElem_cons hlt, List.take_succ_cons, List.foldl_cons]
    have := ih (n+1) (mergeF R sc.regs[n]) (by omega)
    have e : n + 1 + j + 5 = n + (j + 1) + 5 := by omega
    rw [e] at this
    rw [← this]
    unfold mergeF
    split <;> rfl

/-- completing a store that already holds a prefix of the default merge gives the complete store -/
theorem foldl_take_complete (l : List (Nat × Bool)) (c : Content) (j : Nat) :
    l.foldl mergeF ((l.take j).foldl mergeF c) = l.foldl mergeF c := by
  have h1 : l.foldl mergeF ((l.take j).foldl mergeF c)
      = (l.take j ++ l.drop j).foldl mergeF ((l.take j).foldl mergeF c) := by
    rw [List.take_append_drop]
  have h2 : l.foldl mergeF c = (l.take j ++ l.drop j).foldl mergeF c := by
    rw [List.take_append_drop]
  rw [h1, h2, List.foldl_append, List.foldl_append,
    mergeIdem (l.take j) _ (foldl_mergeF_has _ _)]

/-! ### finishing an `enforce` from each program point (no directory content) -/

section cont
variable (sc : Scenario) (hd : sc.dirsNew = []) (R : Content) (m d c u : Bool)
include hd

omit hd in
theorem solo_from5 (k : Nat) (hk : sc.regs.length + 1 ≤ k) :
    solo sc k (⟨R, m, d⟩, ⟨5, c, u, none⟩) =
      (⟨sc.regs.foldl mergeF R, m, d⟩,
       ⟨sc.regs.length + 5, c, u, some (decideOn sc (sc.regs.foldl mergeF R))⟩) :=
  solo_merge sc m d c u sc.regs.length 0 R k (by omega) hk

theorem solo_from4 (k : Nat) (hk : sc.regs.length + 2 ≤ k) :
    solo sc k (⟨R, m, d⟩, ⟨4, c, u, none⟩) =
      (⟨sc.regs.foldl mergeF R, m, d⟩,
       ⟨sc.regs.length + 5, c, u, some (decideOn sc (sc.regs.foldl mergeF R))⟩) := by
  obtain ⟨k, rfl⟩ : ∃ k', k = k' + 1 := ⟨k - 1, by omega⟩
  rw [solo_succ _ _ _ _ rfl, step4, hd, upd_nil, solo_from5 sc _ _ _ _ _ _ (by omega)]

theorem solo_from3 (h : c = true ∨ u = false) (k : Nat) (hk : sc.regs.length + 3 ≤ k) :
    solo sc k (⟨R, m, d⟩, ⟨3, c, u, none⟩) =
      (⟨sc.regs.foldl mergeF R, m, d⟩,
       ⟨sc.regs.length + 5, c, u, some (decideOn sc (sc.regs.foldl mergeF R))⟩) := by
  obtain ⟨k, rfl⟩ : ∃ k', k = k' + 1 := ⟨k - 1, by omega⟩
  cases c with
  | true => rw [solo_succ _ _ _ _ rfl, step3a, solo_from4 sc hd _ _ _ _ _ _ (by omega)]
  | false =>
    obtain rfl : u = false := by simpa using h
    rw [solo_succ _ _ _ _ rfl, step3c, solo_from5 sc _ _ _ _ _ _ (by omega)]

/-- from pc 2 with the directory flag clear -/
theorem solo_from2 (k : Nat) (hk : sc.regs.length + 4 ≤ k) :
    solo sc k (⟨R, m, false⟩, ⟨2, c, u, none⟩) =
      (⟨sc.regs.foldl mergeF R, m, false⟩,
       ⟨sc.regs.length + 5, c, false, some (decideOn sc (sc.regs.foldl mergeF R))⟩) := by
  obtain ⟨k, rfl⟩ : ∃ k', k = k' + 1 := ⟨k - 1, by omega⟩
  rw [solo_succ _ _ _ _ rfl, step2, solo_from3 sc hd _ _ _ _ _ (Or.inr rfl) _ (by omega)]

/-- from pc 1 the store is overwritten by the main file, whatever it held -/
theorem solo_from1 (k : Nat) (hk : sc.regs.length + 5 ≤ k) :
    solo sc k (⟨R, m, false⟩, ⟨1, c, u, none⟩) =
      (⟨compute sc sc.mainNew [], m, false⟩,
       ⟨sc.regs.length + 5, c, false, some (decideOn sc (compute sc sc.mainNew []))⟩) := by
  obtain ⟨k, rfl⟩ : ∃ k', k = k' + 1 := ⟨k - 1, by omega⟩
  rw [solo_succ _ _ _ _ rfl, step1, solo_from2 sc hd _ _ _ _ _ (by omega)]
  rfl

omit hd in
/-- from inside the merge loop, on a store that already has every registered default -/
theorem solo_fromLoop (hR : ∀ e ∈ sc.regs, (look R e.1).isSome) (n : Nat) (hn : n ≤ sc.regs.length)
    (k : Nat) (hk : sc.regs.length + 1 ≤ k) :
    solo sc k (⟨R, m, d⟩, ⟨n + 5, c, u, none⟩) =
      (⟨R, m, d⟩, ⟨sc.regs.length + 5, c, u, some (decideOn sc R)⟩) := by
  have := solo_merge sc m d c u (sc.regs.length - n) n R k (by omega) (by omega)
  rw [mergeIdem _ _ (fun e he => hR e (List.mem_of_mem_drop he))] at this
  exact this

/-- **a complete `enforce` with both stale flags clear** re-merges the defaults into whatever
the store holds; an empty store is re-read from the main file first -/
theorem solo_clean (X : Content) (hX : R.isEmpty = false → sc.regs.foldl mergeF R = X)
    (hE : R.isEmpty = true → X = compute sc sc.mainNew []) (k : Nat) (hk : span sc ≤ k) :
    ∃ b, solo sc k (⟨R, false, false⟩, {}) = (⟨X, false, false⟩, b) ∧ b.out = some (decideOn sc X) := by
  obtain ⟨k, rfl⟩ : ∃ k', k = k' + 1 := ⟨k - 1, by unfold span at hk; omega⟩
  have hk' : sc.regs.length + 6 ≤ k := by unfold span at hk; omega
  show ∃ b, solo sc _ (_, ⟨0, false, false, none⟩) = _ ∧ _
  cases hR : R.isEmpty with
  | true =>
    rw [solo_succ _ _ _ _ rfl, step0a _ _ _ _ _ _ _ (by simp [hR]),
      solo_from1 sc hd _ _ _ _ _ (by omega), hE hR]
    exact ⟨_, rfl, rfl⟩
  | false =>
    rw [solo_succ _ _ _ _ rfl, step0b _ _ _ _ _ _ _ (by simp [hR]),
      solo_from2 sc hd _ _ _ _ _ (by omega), hX hR]
    exact ⟨_, rfl, rfl⟩

end cont

/-- `oneSwitch` as three solo runs -/
theorem oneSwitch_of (sc : Scenario) (s0 s1 s2 : Shared) (k : Nat) (a b : Local) (dA dB : Bool)
    (h1 : solo sc k (s0, {}) = (s1, a))
    (h2 : solo sc (span sc) (s1, {}) = (s2, b)) (hb : b.out = some dB)
    (h3 : (solo sc (span sc) (s2, a)).2.out = some dA) :
    oneSwitch sc s0 k = (some dA, some dB) := by
  unfold oneSwitch
  simp only [run_append, run_replicate_true, run_replicate_false, h1, h2, h3, hb]

theorem solo_add (sc : Scenario) (j k : Nat) (st : Shared × Local) :
    solo sc (j + k) st = solo sc k (solo sc j st) := by
  induction j generalizing st with
  | zero => rw [Nat.zero_add]; rfl
  | succ j ih =>
    obtain ⟨s, l⟩ := st
    rw [Nat.add_right_comm]
    cases h : done l with
    | true => rw [solo_done _ _ _ _ h, solo_done _ _ _ _ h, solo_done _ _ _ _ h]
    | false => rw [solo_succ _ _ _ _ h, solo_succ _ _ _ _ h, ih]

theorem compute_nil (sc : Scenario) (main : Content) :
    compute sc main [] = sc.regs.foldl mergeF main := rfl

/-- the shape of every case of the main theorem: A's state after `k` steps, B's complete run
from there ending in a clean store `X`, A's remaining run deciding on `Y` -/
theorem safe_core (sc : Scenario) (Old New : Content) (s0 s1 : Shared) (k : Nat) (a : Local)
    (X Y : Content)
    (h1 : solo sc k (s0, {}) = (s1, a))
    (h2 : ∃ b, solo sc (span sc) (s1, {}) = (⟨X, false, false⟩, b) ∧ b.out = some (decideOn sc X))
    (h3 : (solo sc (span sc) (⟨X, false, false⟩, a)).2.out = some (decideOn sc Y))
    (hX : X = Old ∨ X = New) (hY : Y = Old ∨ Y = New) :
    let r := oneSwitch sc s0 k
    (∃ d, r.1 = some d ∧ (d = decideOn sc Old ∨ d = decideOn sc New)) ∧
    (∃ d, r.2 = some d ∧ (d = decideOn sc Old ∨ d = decideOn sc New)) := by
  obtain ⟨b, h2, hb⟩ := h2
  intro r
  have hr : r = (some (decideOn sc Y), some (decideOn sc X)) := oneSwitch_of sc s0 s1 _ k a b _ _ h1 h2 hb h3
  rw [hr]
  refine ⟨⟨_, rfl, ?_⟩, ⟨_, rfl, ?_⟩⟩
  · rcases hY with h | h <;> rw [h] <;> simp
  · rcases hX with h | h <;> rw [h] <;> simp

section main
variable (sc : Scenario) (hd : sc.dirsNew = [])
include hd

/-- a complete `enforce` from the clean complete new store changes nothing and decides on it -/
theorem solo_clean_new (k : Nat) (hk : span sc ≤ k) :
    ∃ b, solo sc k (⟨compute sc sc.mainNew [], false, false⟩, {}) =
        (⟨compute sc sc.mainNew [], false, false⟩, b) ∧
      b.out = some (decideOn sc (compute sc sc.mainNew [])) :=
  solo_clean sc hd _ _ (fun _ => compute_merge_idem sc _ _) (fun _ => rfl) k hk

/-- once A has reached the default-merge loop (pc 5, after `i` steps) on a store `R` whose
completion is the complete new policy, every switch point from there on is safe -/
theorem safe_from5 (Old : Content) (s0 : Shared) (i : Nat) (R : Content) (c u : Bool)
    (h5 : solo sc i (s0, {}) = (⟨R, false, false⟩, ⟨5, c, u, none⟩))
    (hR : sc.regs.foldl mergeF R = compute sc sc.mainNew []) (j : Nat) :
    let r := oneSwitch sc s0 (i + j)
    (∃ d, r.1 = some d ∧ (d = decideOn sc Old ∨ d = decideOn sc (compute sc sc.mainNew []))) ∧
    (∃ d, r.2 = some d ∧ (d = decideOn sc Old ∨ d = decideOn sc (compute sc sc.mainNew []))) := by
  by_cases hj : j ≤ sc.regs.length
  · -- A is inside the loop, at index j
    have hp := solo_merge_part sc false false c u j 0 R (by omega)
    simp only [List.drop_zero, Nat.zero_add] at hp
    refine safe_core sc Old _ s0 _ (i + j) _ _ _ (by rw [solo_add, h5, hp])
      (solo_clean sc hd _ _ (fun _ => by rw [foldl_take_complete, hR]) (fun _ => rfl) _ (Nat.le_refl _))
      ?_ (Or.inr rfl) (Or.inr rfl)
    rw [solo_fromLoop sc _ _ _ _ _ (compute_has_regs sc _ _) j hj _ (by unfold span; omega)]
  · -- A has finished
    have hp := solo_from5 sc R false false c u j (by omega)
    rw [hR] at hp
    refine safe_core sc Old _ s0 _ (i + j) _ _ _ (by rw [solo_add, h5, hp])
      (solo_clean_new sc hd _ (Nat.le_refl _)) ?_ (Or.inr rfl) (Or.inr rfl)
    rw [solo_done _ _ _ _ rfl]

end main

/-- With nothing in the policy directories, a main-file edit reloaded by thread A while thread B runs a complete
`enforce` at ANY point of A's reload is safe: both decisions are those of the complete old or the complete new policy. -/
theorem no_dirs_one_switch_safe (sc : Scenario) (mainOld : Content) (ms : Bool)
    (hd : sc.dirsNew = []) (hm : ms = false → mainOld = sc.mainNew) (k : Nat) :
    let r := oneSwitch sc ⟨compute sc mainOld [], ms, false⟩ k
    (∃ d, r.1 = some d ∧ (d = decideOn sc (compute sc mainOld []) ∨ d = decideOn sc (compute sc sc.mainNew []))) ∧
    (∃ d, r.2 = some d ∧ (d = decideOn sc (compute sc mainOld []) ∨ d = decideOn sc (compute sc sc.mainNew []))) := by
  have hfresh : fresh sc = ⟨compute sc sc.mainNew [], false, false⟩ := by unfold fresh; rw [hd]
  have hS : ∀ {n}, n ≤ sc.regs.length + 6 → n ≤ span sc := fun h => by unfold span; omega
  match k with
  | 0 =>
    -- A has not started: B runs alone, then A runs alone
    have hB := solo_run sc mainOld [] ms false hm (fun _ => hd.symm) (span sc) (Nat.le_refl _)
    simp only [hfresh, hd] at hB
    exact safe_core sc _ _ _ _ 0 {} _ _ rfl ⟨_, Prod.ext hB.1 rfl, hB.2⟩
      (by obtain ⟨b, h, hb⟩ := solo_clean_new sc hd _ (Nat.le_refl _); rw [h]; exact hb)
      (Or.inr rfl) (Or.inr rfl)
  | k+1 =>
  by_cases hA : (ms || (compute sc mainOld []).isEmpty) = true
  · -- the main file is stale (or the store is empty): A does the full reload
    have e1 : solo sc 1 (⟨compute sc mainOld [], ms, false⟩, {}) =
        (⟨compute sc mainOld [], false, false⟩, ⟨1, true, false, none⟩) := by
      show solo sc 1 (_, ⟨0, false, false, none⟩) = _
      rw [solo_succ _ _ _ _ rfl, step0a _ _ _ _ _ _ _ hA]; rfl
    have e2 : solo sc 2 (⟨compute sc mainOld [], ms, false⟩, {}) =
        (⟨sc.mainNew, false, false⟩, ⟨2, true, false, none⟩) := by
      rw [solo_add sc 1 1, e1]; rfl
    have e3 : solo sc 3 (⟨compute sc mainOld [], ms, false⟩, {}) =
        (⟨sc.mainNew, false, false⟩, ⟨3, true, false, none⟩) := by
      rw [solo_add sc 2 1, e2]; rfl
    have e4 : solo sc 4 (⟨compute sc mainOld [], ms, false⟩, {}) =
        (⟨sc.mainNew, false, false⟩, ⟨4, true, false, none⟩) := by
      rw [solo_add sc 3 1, e3]; rfl
    have e5 : solo sc 5 (⟨compute sc mainOld [], ms, false⟩, {}) =
        (⟨sc.mainNew, false, false⟩, ⟨5, true, false, none⟩) := by
      rw [solo_add sc 4 1, e4, solo_succ _ _ _ _ rfl, step4, hd, upd_nil]; rfl
    -- B's complete run from the store `mainNew` (defaults missing) yields the complete new store
    have hBnew := solo_clean sc hd sc.mainNew (compute sc sc.mainNew []) (fun _ => rfl) (fun _ => rfl)
      (span sc) (Nat.le_refl _)
    have hidem := compute_merge_idem sc sc.mainNew []
    match k with
    | 0 =>
      -- B sees the complete old store with the stale flag already cleared
      cases hO : (compute sc mainOld []).isEmpty with
      | true =>
        refine safe_core sc _ _ _ _ 1 _ _ _ e1
          (solo_clean sc hd _ (compute sc sc.mainNew []) (fun h => by rw [hO] at h; cases h) (fun _ => rfl) _ (Nat.le_refl _))
          ?_ (Or.inr rfl) (Or.inr rfl)
        rw [solo_from1 sc hd _ _ _ _ _ (hS (by omega))]
      | false =>
        refine safe_core sc _ _ _ _ 1 _ _ _ e1
          (solo_clean sc hd _ (compute sc mainOld []) (fun _ => compute_merge_idem sc _ _)
            (fun h => by rw [hO] at h; cases h) _ (Nat.le_refl _))
          ?_ (Or.inl rfl) (Or.inr rfl)
        rw [solo_from1 sc hd _ _ _ _ _ (hS (by omega))]
    | 1 =>
      refine safe_core sc _ _ _ _ 2 _ _ _ e2 hBnew ?_ (Or.inr rfl) (Or.inr rfl)
      rw [solo_from2 sc hd _ _ _ _ _ (hS (by omega)), hidem]
    | 2 =>
      refine safe_core sc _ _ _ _ 3 _ _ _ e3 hBnew ?_ (Or.inr rfl) (Or.inr rfl)
      rw [solo_from3 sc hd _ _ _ _ _ (Or.inl rfl) _ (hS (by omega)), hidem]
    | 3 =>
      refine safe_core sc _ _ _ _ 4 _ _ _ e4 hBnew ?_ (Or.inr rfl) (Or.inr rfl)
      rw [solo_from4 sc hd _ _ _ _ _ _ (hS (by omega)), hidem]
    | j+4 =>
      have := safe_from5 sc hd (compute sc mainOld []) _ 5 _ _ _ e5 rfl j
      rw [show 5 + j = j + 4 + 1 by omega] at this
      exact this
  · -- nothing is stale and the store is non-empty: old = new, the store never changes
    have hA' : (ms || (compute sc mainOld []).isEmpty) = false := by simpa using hA
    obtain rfl : ms = false := by cases ms <;> simp_all
    obtain rfl := hm rfl
    have e1 : solo sc 1 (⟨compute sc sc.mainNew [], false, false⟩, {}) =
        (⟨compute sc sc.mainNew [], false, false⟩, ⟨2, false, false, none⟩) := by
      show solo sc 1 (_, ⟨0, false, false, none⟩) = _
      rw [solo_succ _ _ _ _ rfl, step0b _ _ _ _ _ _ _ hA']; rfl
    have e2 : solo sc 2 (⟨compute sc sc.mainNew [], false, false⟩, {}) =
        (⟨compute sc sc.mainNew [], false, false⟩, ⟨3, false, false, none⟩) := by
      rw [solo_add sc 1 1, e1]; rfl
    have e3 : solo sc 3 (⟨compute sc sc.mainNew [], false, false⟩, {}) =
        (⟨compute sc sc.mainNew [], false, false⟩, ⟨5, false, false, none⟩) := by
      rw [solo_add sc 2 1, e2]; rfl
    have hBnew := solo_clean_new sc hd (span sc) (Nat.le_refl _)
    have hidem := compute_merge_idem sc sc.mainNew []
    match k with
    | 0 =>
      refine safe_core sc _ _ _ _ 1 _ _ _ e1 hBnew ?_ (Or.inr rfl) (Or.inr rfl)
      rw [solo_from2 sc hd _ _ _ _ _ (hS (by omega)), hidem]
    | 1 =>
      refine safe_core sc _ _ _ _ 2 _ _ _ e2 hBnew ?_ (Or.inr rfl) (Or.inr rfl)
      rw [solo_from3 sc hd _ _ _ _ _ (Or.inr rfl) _ (hS (by omega)), hidem]
    | j+2 =>
      have := safe_from5 sc hd (compute sc sc.mainNew []) _ 3 _ _ _ e3 hidem j
      rw [show 3 + j = j + 2 + 1 by omega] at this
      exact this

/-! ### Non-vacuity: registered default + permissive default rule, no directory files -/

/-- registered defaults `p:!` (name 0, NOT defined by the main file) and `x:@` (name 1); the main
file defines `x` (edited allow → deny) and a permissive default rule (name 9, allow); no policy
directory content; the request asks for `p` -/
def noDirs : Scenario :=
  { mainNew := [(1, false), (9, true)], dirsNew := [], regs := [(0, false), (1, true)],
    defaultRule := some 9, query := 0 }
def noDirsMainOld : Content := [(1, true), (9, true)]

/-- the theorem instantiated in the middle of A's reload (`k = 3`: cache entry refreshed, store
overwritten by the main file — registered default `p` missing —, directory scan done) -/
example :
    let r := oneSwitch noDirs ⟨compute noDirs noDirsMainOld [], true, false⟩ 3
    (∃ d, r.1 = some d ∧ (d = decideOn noDirs (compute noDirs noDirsMainOld []) ∨
        d = decideOn noDirs (compute noDirs noDirs.mainNew []))) ∧
    (∃ d, r.2 = some d ∧ (d = decideOn noDirs (compute noDirs noDirsMainOld []) ∨
        d = decideOn noDirs (compute noDirs noDirs.mainNew []))) :=
  no_dirs_one_switch_safe noDirs noDirsMainOld true rfl (fun h => by cases h) 3

/-- concretely: at that point the store is torn (deciding on it directly would ALLOW `p` through the
permissive default rule), yet both threads deny, as the complete old and new policies do -/
example :
    (run noDirs [true, true, true] (⟨compute noDirs noDirsMainOld [], true, false⟩, {}, {})).1.rules
        = noDirs.mainNew ∧
    decideOn noDirs noDirs.mainNew = true ∧
    decideOn noDirs (compute noDirs noDirsMainOld []) = false ∧
    decideOn noDirs (compute noDirs noDirs.mainNew []) = false ∧
    oneSwitch noDirs ⟨compute noDirs noDirsMainOld [], true, false⟩ 3 = (some false, some false) := by
  decide


end OsloPolicy.Sched
