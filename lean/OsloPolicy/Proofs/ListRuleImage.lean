import OsloPolicy.Proofs.RoundTrip
/-
The old list-of-lists rule syntax (`_parse_list_rule`) also produces printable trees,
provided each of its strings goes through `_parse_check` to a printable leaf.
-/
namespace OsloPolicy

/-- a string whose `_parse_check` result is a printable leaf -/
def CleanCheckText (s : Str) : Prop :=
  s = ['@'] ∨ s = ['!'] ∨ (CleanLeaf s ∧ ∃ k m, splitColon s = some (k, m))

theorem WFTs_iff (ts : List Tree) : WFTs ts ↔ ∀ x ∈ ts, WFT x := by
  induction ts with
  | nil => simp [WFTs]
  | cons t ts ih => simp [WFTs, ih]

/-- exactly which strings `_parse_check` turns into a printable leaf: `@`, `!`, anything
without a colon (it becomes `FalseCheck`), and clean leaf texts -/
theorem parseCheck_WFT_iff (s : Str) :
    WFT (parseCheck s) ↔ s = ['@'] ∨ s = ['!'] ∨ splitColon s = none ∨ CleanLeaf s := by
  unfold parseCheck
  split
  · next h => simp [WFT, h]
  · next h1 =>
    split
    · next h => simp [WFT, h]
    · next h2 =>
      split
      · next k m hs =>
        obtain ⟨rfl, hk⟩ := splitColon_some s k m hs
        simp only [WFT, h1, h2, hs, false_or]
        constructor
        · intro h; exact .inr h.1
        · intro h
          rcases h with h | h
          · simp at h
          · exact ⟨h, hk⟩
      · next hs => simp [WFT, hs]

theorem CleanCheckText.wft {s : Str} (h : CleanCheckText s) : WFT (parseCheck s) := by
  rw [parseCheck_WFT_iff]
  rcases h with h | h | ⟨h, _⟩
  · exact .inl h
  · exact .inr (.inl h)
  · exact .inr (.inr (.inr h))

theorem andOf_WFT (ts : List Tree) (hne : ts ≠ []) (h : ∀ x ∈ ts, WFT x) : WFT (andOf ts) := by
  match ts, hne with
  | [t], _ => simpa [andOf] using h
  | t :: u :: r, _ =>
    simp only [andOf, WFT, WFTs_iff]
    exact ⟨by simp, h⟩

theorem orOf_WFT (ts : List Tree) (h : ∀ x ∈ ts, WFT x) : WFT (orOf ts) := by
  match ts with
  | [] => simp [orOf, WFT]
  | [t] => simpa [orOf] using h
  | t :: u :: r =>
    simp only [orOf, WFT, WFTs_iff]
    exact ⟨by simp, h⟩

/-- a truthy member of the outer list has at least one string -/
theorem innerStrings_ne_nil (x : JVal) (ss : List Str) (h : innerStrings x = some ss)
    (ht : x.truthy = true) : ss ≠ [] := by
  cases x with
  | str s =>
    simp only [innerStrings, Option.some.injEq] at h
    subst h; simp
  | arr xs t =>
    cases xs with
    | nil => simp [JVal.truthy] at ht
    | cons y r =>
      simp only [innerStrings, List.foldr_cons] at h
      split at h
      · simp only [Option.some.injEq] at h
        subst h; simp
      · simp at h
  | _ => simp [innerStrings] at h

theorem listRuleMembers_WFT (xs : List JVal)
    (h : ∀ x ∈ xs, ∀ ss, innerStrings x = some ss → ∀ s ∈ ss, WFT (parseCheck s)) :
    ∀ t ∈ listRuleMembers xs, WFT t := by
  induction xs with
  | nil => intro t ht; simp [listRuleMembers] at ht
  | cons x r ih =>
    have ihr := ih (fun y hy => h y (by simp [hy]))
    intro t ht
    simp only [listRuleMembers] at ht
    split at ht
    · exact ihr t ht
    · next htr =>
      split at ht
      · next ss hss =>
        rcases List.mem_cons.1 ht with rfl | ht
        · apply andOf_WFT
          · have := innerStrings_ne_nil x ss hss (by simpa using htr)
            simpa using this
          · intro y hy
            obtain ⟨s, hs, rfl⟩ := List.mem_map.1 hy
            exact h x (by simp) ss hss s hs
        · exact ihr t ht
      · exact ihr t ht

/-- General form: the list syntax yields a printable tree as soon as every string in it
parses to a printable leaf. -/
theorem parseListRule_WFT' (v : JVal)
    (h : ∀ xs t, v = .arr xs t → ∀ x ∈ xs, ∀ ss, innerStrings x = some ss →
      ∀ s ∈ ss, WFT (parseCheck s)) : WFT (parseListRule v) := by
  unfold parseListRule
  split
  · simp [WFT]
  · next xs hxs =>
    split
    · simp [WFT]
    · cases v with
      | arr ys t =>
        simp only [listRuleShape] at hxs
        split at hxs
        · simp only [Option.some.injEq] at hxs
          subst hxs
          exact orOf_WFT _ (listRuleMembers_WFT ys (h ys t rfl))
        · simp at hxs
      | _ => simp [listRuleShape] at hxs

theorem parseListRule_WFT (v : JVal)
    (h : ∀ xs t, v = .arr xs t → ∀ x ∈ xs, ∀ ss, innerStrings x = some ss →
      ∀ s ∈ ss, CleanCheckText s) : WFT (parseListRule v) :=
  parseListRule_WFT' v (fun xs t hv x hx ss hss s hs => (h xs t hv x hx ss hss s hs).wft)

/-- hence the list syntax, printed, parses back (as text) to the same tree -/
theorem parseText_print_listRule (v : JVal)
    (h : ∀ xs t, v = .arr xs t → ∀ x ∈ xs, ∀ ss, innerStrings x = some ss →
      ∀ s ∈ ss, CleanCheckText s) :
    parseText (parseListRule v).print = parseListRule v :=
  parseText_print _ (parseListRule_WFT v h)

end OsloPolicy
