import OsloPolicy.Spec.Layers
/-
C09 / C11: the loader's layering of rule definitions (registered defaults < policy file <
policy directories, files sorted) and the deprecated-rule override table, proved against
the specification in `Spec/Layers.lean`.

Nothing here assumes that keys of an association list are unique: every statement is about
`afind` (first match), and `ainsert k` replaces the *first* binding of `k`, so the two
agree on arbitrary lists.
-/
namespace OsloPolicy

/-! ## A. association lists behave like Python dicts -/

theorem afind_ainsert_self {α} (k : Str) (v : α) (l : List (Str × α)) :
    afind k (ainsert k v l) = some v := by
  induction l with
  | nil => simp [ainsert, afind]
  | cons p r ih =>
    obtain ⟨k', v'⟩ := p
    simp only [ainsert]
    split
    · simp [afind]
    · next h => simp only [afind, h, ↓reduceIte]; exact ih

theorem afind_ainsert_other {α} (k k' : Str) (v : α) (l : List (Str × α)) (h : k' ≠ k) :
    afind k' (ainsert k v l) = afind k' l := by
  induction l with
  | nil =>
    have h' : ¬ k = k' := fun e => h e.symm
    simp [ainsert, afind, h']
  | cons p r ih =>
    obtain ⟨k₁, v₁⟩ := p
    simp only [ainsert]
    split
    · next hk =>
      have h' : ¬ k = k' := fun e => h e.symm
      have h'' : ¬ k₁ = k' := fun e => h (by rw [← e, hk])
      simp only [afind, h', h'', ↓reduceIte]
    · simp only [afind, ih]

/-- lookup after an insertion, both cases at once -/
theorem afind_ainsert {α} (k n : Str) (v : α) (l : List (Str × α)) :
    afind n (ainsert k v l) = if k = n then some v else afind n l := by
  split
  · next h => subst h; exact afind_ainsert_self k v l
  · next h => exact afind_ainsert_other k n v l (fun e => h e.symm)

/-! ## B. one file applied to a store -/

/-- the common shape of `updStore` and `updFileRules` -/
theorem afind_foldl_ainsert {β} (f : JVal → β) (c : Content) (s : List (Str × β)) (n : Str) :
    afind n (c.foldl (fun acc p => ainsert p.1 (f p.2) acc) s) =
      match alast n c with | some v => some (f v) | none => afind n s := by
  induction c generalizing s with
  | nil => simp [alast]
  | cons p r ih =>
    obtain ⟨k, v⟩ := p
    simp only [List.foldl_cons, ih, alast]
    cases alast n r with
    | some v' => rfl
    | none =>
      simp only [afind_ainsert]
      split <;> rfl

theorem afind_updStore (s : Store) (c : Content) (n : Str) :
    afind n (updStore s c) =
      match alast n c with | some v => some (parseValue v) | none => afind n s :=
  afind_foldl_ainsert parseValue c s n

theorem afind_updFileRules (fr c : Content) (n : Str) :
    afind n (updFileRules fr c) =
      match alast n c with | some v => some v | none => afind n fr :=
  afind_foldl_ainsert id c fr n

/-! ## C. layers: last definition in layer order wins -/

theorem afind_foldl_updStore (ls : List Content) (s : Store) (n : Str) :
    afind n (ls.foldl updStore s) =
      match lastDef n ls with | some v => some (parseValue v) | none => afind n s := by
  induction ls generalizing s with
  | nil => simp [lastDef]
  | cons c r ih =>
    simp only [List.foldl_cons, ih, lastDef]
    cases lastDef n r with
    | some v => rfl
    | none => exact afind_updStore s c n

theorem afind_foldl_updFileRules (ls : List Content) (fr : Content) (n : Str) :
    afind n (ls.foldl updFileRules fr) =
      match lastDef n ls with | some v => some v | none => afind n fr := by
  induction ls generalizing fr with
  | nil => simp [lastDef]
  | cons c r ih =>
    simp only [List.foldl_cons, ih, lastDef]
    cases lastDef n r with
    | some v => rfl
    | none => exact afind_updFileRules fr c n

theorem afind_filesStore (fs : FS) (n : Str) :
    afind n (filesStore fs) = (lastDef n (fileLayers fs)).map parseValue := by
  simp only [filesStore, afind_foldl_updStore]
  cases lastDef n (fileLayers fs) <;> rfl

theorem afind_filesRules (fs : FS) (n : Str) :
    afind n (filesRules fs) = lastDef n (fileLayers fs) := by
  simp only [filesRules, afind_foldl_updFileRules]
  cases lastDef n (fileLayers fs) <;> rfl

theorem filesStore_eq_parse (fs : FS) (n : Str) :
    afind n (filesStore fs) = (afind n (filesRules fs)).map parseValue := by
  rw [afind_filesStore, afind_filesRules]

/-! ## D. registered defaults fill in only names still absent -/

theorem afind_mergeDefaults (enforceNew : Bool) (fr : Content) (regs : List RuleDefault)
    (rules : Store) (n : Str) :
    afind n (mergeDefaults enforceNew fr regs rules) =
      match afind n rules with
      | some t => some t
      | none => (regs.find? (·.name = n)).map (defaultCheck enforceNew fr) := by
  unfold mergeDefaults
  induction regs generalizing rules with
  | nil => cases h : afind n rules <;> simp [h]
  | cons d r ih =>
    simp only [List.foldl_cons, ih, List.find?_cons]
    by_cases hn : d.name = n
    · subst hn
      cases hr : afind d.name rules with
      | some t => simp only [hr, Option.isSome_some, ↓reduceIte]
      | none =>
        simp only [Option.isSome_none, Bool.false_eq_true, ↓reduceIte, afind_ainsert_self,
          decide_true, Option.map_some]
    · have hn' : n ≠ d.name := fun e => hn e.symm
      have hdec : decide (d.name = n) = false := by simp [hn]
      have hstep : afind n (if (afind d.name rules).isSome = true then rules
          else ainsert d.name (defaultCheck enforceNew fr d) rules) = afind n rules := by
        split
        · rfl
        · exact afind_ainsert_other _ _ _ _ hn'
      simp only [hstep, hdec]

/-! ## E. C09 -/

theorem compute_effective (enforceNew : Bool) (regs : List RuleDefault) (fs : FS) (n : Str) :
    afind n (compute enforceNew regs fs) = effective enforceNew regs fs n := by
  simp only [compute, effective, afind_mergeDefaults, afind_filesStore]
  cases lastDef n (fileLayers fs) <;> rfl

/-- names defined nowhere stay undefined -/
theorem compute_undefined (enforceNew : Bool) (regs : List RuleDefault) (fs : FS) (n : Str)
    (h1 : lastDef n (fileLayers fs) = none) (h2 : ∀ d ∈ regs, d.name ≠ n) :
    afind n (compute enforceNew regs fs) = none := by
  rw [compute_effective]
  simp only [effective, h1]
  have : regs.find? (·.name = n) = none := by
    simp only [List.find?_eq_none, decide_eq_true_eq]
    exact h2
  simp [this]

/-! ## F. sorting -/

theorem insertByName_perm (e : Entry) (l : List Entry) : (insertByName e l).Perm (e :: l) := by
  induction l with
  | nil => exact List.Perm.refl _
  | cons x r ih =>
    simp only [insertByName]
    split
    · exact List.Perm.refl _
    · exact (List.Perm.cons x ih).trans (List.Perm.swap e x r)

theorem sortByName_perm (l : List Entry) : (sortByName l).Perm l := by
  induction l with
  | nil => exact List.Perm.refl _
  | cons x r ih =>
    simp only [sortByName, List.foldr_cons]
    exact (insertByName_perm x _).trans (List.Perm.cons x ih)

theorem strLt_asymm : (a b : Str) → strLt a b = true → strLt b a = false
  | [], [], h => by simp [strLt] at h
  | [], _ :: _, _ => by simp [strLt]
  | _ :: _, [], h => by simp [strLt] at h
  | a :: as, b :: bs, h => by
    simp only [strLt, Bool.or_eq_true, decide_eq_true_eq, Bool.and_eq_true] at h
    simp only [strLt, Bool.or_eq_false_iff, decide_eq_false_iff_not, Bool.and_eq_false_iff]
    rcases h with h | ⟨h1, h2⟩
    · exact ⟨by omega, Or.inl (by omega)⟩
    · exact ⟨by omega, Or.inr (strLt_asymm as bs h2)⟩

theorem strLt_trans : (a b c : Str) → strLt a b = true → strLt b c = true → strLt a c = true
  | [], [], _, h, _ => by simp [strLt] at h
  | [], _ :: _, [], _, h => by simp [strLt] at h
  | [], _ :: _, _ :: _, _, _ => by simp [strLt]
  | _ :: _, [], _, h, _ => by simp [strLt] at h
  | _ :: _, _ :: _, [], _, h => by simp [strLt] at h
  | a :: as, b :: bs, c :: cs, h1, h2 => by
    simp only [strLt, Bool.or_eq_true, decide_eq_true_eq, Bool.and_eq_true] at h1 h2 ⊢
    rcases h1 with h1 | ⟨h1, h1'⟩ <;> rcases h2 with h2 | ⟨h2, h2'⟩
    · exact Or.inl (by omega)
    · exact Or.inl (by omega)
    · exact Or.inl (by omega)
    · exact Or.inr ⟨by omega, strLt_trans as bs cs h1' h2'⟩

theorem insertByName_sorted (e : Entry) (l : List Entry)
    (h : l.Pairwise (fun a b => strLt b.name a.name = false)) :
    (insertByName e l).Pairwise (fun a b => strLt b.name a.name = false) := by
  induction l with
  | nil => simp [insertByName]
  | cons x r ih =>
    rw [List.pairwise_cons] at h
    simp only [insertByName]
    split
    · next hlt =>
      refine List.pairwise_cons.mpr ⟨?_, List.pairwise_cons.mpr h⟩
      intro b hb
      rcases List.mem_cons.mp hb with rfl | hb
      · exact strLt_asymm _ _ hlt
      · cases hbe : strLt b.name e.name with
        | false => rfl
        | true =>
          have := strLt_trans _ _ _ hbe hlt
          rw [h.1 b hb] at this
          exact absurd this (by simp)
    · next hlt =>
      refine List.pairwise_cons.mpr ⟨?_, ih h.2⟩
      intro b hb
      rcases List.mem_cons.mp ((insertByName_perm e r).mem_iff.mp hb) with rfl | hb
      · simpa using hlt
      · exact h.1 b hb

theorem sortByName_sorted (l : List Entry) :
    (sortByName l).Pairwise (fun a b => strLt b.name a.name = false) := by
  induction l with
  | nil => simp [sortByName]
  | cons x r ih =>
    simp only [sortByName, List.foldr_cons]
    exact insertByName_sorted x _ ih

theorem visible_mem (d : Dir) (e : Entry) :
    e ∈ d.visible ↔ e ∈ d.entries ∧ e.isDir = false ∧ e.name.head? ≠ some '.' := by
  simp only [Dir.visible, (sortByName_perm _).mem_iff, List.mem_filter, Bool.and_eq_true,
    Bool.not_eq_true', bne_iff_ne, ne_eq]

/-- a missing directory contributes nothing; dot-files and sub-directories are ignored -/
theorem dirLayers_none (ds : List (Option Dir)) : dirLayers (none :: ds) = dirLayers ds := by
  simp [dirLayers]

/-! ## G. C11 -/

/-- the OR-ed fallback decides as "new default or old default" -/
theorem governs_cases (enforceNew : Bool) (fr : Content) (d : RuleDefault) :
    governs enforceNew fr d = (match afind d.name fr with
      | some v => parseValue v
      | none => defaultCheck enforceNew fr d) := by
  unfold governs
  cases hfr : afind d.name fr with
  | some v => rfl
  | none =>
    simp only [defaultCheck]
    cases hdep : d.deprecated with
    | none => rfl
    | some old =>
      obtain ⟨o, os⟩ := old
      simp only [handleDeprecated, hfr, Option.isNone_none, Bool.and_true, and_true]
      by_cases ho : o = d.name
      · simp [ho]
      · simp only [ho, ↓reduceIte, ne_eq, not_false_eq_true]
        cases afind o fr with
        | none => rfl
        | some v =>
          simp only
          by_cases hp : (parseValue v).print = rulePrefix ++ d.name
          · simp only [hp, not_true_eq_false, ↓reduceIte]
          · simp only [hp, not_false_eq_true, ↓reduceIte]

theorem find?_name_of_unique (regs : List RuleDefault) (d : RuleDefault)
    (hd : d ∈ regs) (huniq : ∀ d' ∈ regs, d'.name = d.name → d' = d) :
    regs.find? (·.name = d.name) = some d := by
  induction regs with
  | nil => cases hd
  | cons x r ih =>
    simp only [List.find?_cons]
    by_cases hx : x.name = d.name
    · have : x = d := huniq x (List.mem_cons_self ..) hx
      simp [this]
    · have hdec : decide (x.name = d.name) = false := by simp [hx]
      simp only [hdec]
      rcases List.mem_cons.mp hd with rfl | hd
      · exact absurd rfl hx
      · exact ih hd (fun d' hd' => huniq d' (List.mem_cons_of_mem _ hd'))

theorem governs_correct (enforceNew : Bool) (regs : List RuleDefault) (fs : FS) (d : RuleDefault)
    (hd : d ∈ regs) (huniq : ∀ d' ∈ regs, d'.name = d.name → d' = d) :
    afind d.name (compute enforceNew regs fs) = some (governs enforceNew (filesRules fs) d) := by
  rw [governs_cases]
  simp only [compute, afind_mergeDefaults, filesStore_eq_parse,
    find?_name_of_unique regs d hd huniq]
  cases afind d.name (filesRules fs) <;> rfl

/-! ## H. the policy-file choice -/

theorem pickDefault_spec (i : PickInput) :
    pickDefault i =
      if i.value = policyYaml ∧ i.fallback = true ∧ i.neverConfigured = true ∧
          i.yamlExists = false ∧ i.jsonExists = true then policyJson else i.value := by
  unfold pickDefault
  by_cases hv : i.value = policyYaml <;>
    cases i.fallback <;> cases i.yamlExists <;> cases i.neverConfigured <;>
    cases i.jsonExists <;> simp [hv]

theorem pick_spec (i : PickInput) :
    pickPolicyFile i =
      match i.ctor with
      | some f => if f.isEmpty then (if i.value = policyYaml ∧ i.fallback = true ∧ i.neverConfigured = true ∧ i.yamlExists = false ∧ i.jsonExists = true then policyJson else i.value) else f
      | none => if i.value = policyYaml ∧ i.fallback = true ∧ i.neverConfigured = true ∧ i.yamlExists = false ∧ i.jsonExists = true then policyJson else i.value := by
  unfold pickPolicyFile
  cases i.ctor with
  | none => exact pickDefault_spec i
  | some f => simp only [pickDefault_spec]

end OsloPolicy
