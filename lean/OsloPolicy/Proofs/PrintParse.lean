import OsloPolicy.Proofs.ParserSound
import OsloPolicy.Spec.Layout
/-
Printer/parser round trip at token level, and the shape of the parser's image:

* `parseToks_printToks`: parsing the tokens that `str(tree)` spells gives the tree back,
  provided every and/or node has at least two members (`Wide`);
* `parseToks_wide` / `parseToks_leaves`: every tree the parser builds from leaf check
  tokens is `Wide`, and a property of the check tokens holds at every leaf of the tree.
-/
namespace OsloPolicy

/-! ### `Wide` -/

mutual
/-- Every `.and ts` / `.or ts` node, at any depth, has at least two members. -/
def Wide : Tree → Prop
  | .tt => True
  | .ff => True
  | .chk _ _ => True
  | .not t => Wide t
  | .and ts => 2 ≤ ts.length ∧ Wides ts
  | .or ts => 2 ≤ ts.length ∧ Wides ts
def Wides : List Tree → Prop
  | [] => True
  | t :: ts => Wide t ∧ Wides ts
end

mutual
theorem WFT.wide : (t : Tree) → (h : WFT t) → Wide t
  | .tt, _ => by simp [Wide]
  | .ff, _ => by simp [Wide]
  | .chk _ _, _ => by simp [Wide]
  | .not t, h => by
      simp only [WFT] at h; simp only [Wide]; exact WFT.wide t h
  | .and ts, h => by
      simp only [WFT] at h; simp only [Wide]; exact ⟨h.1, WFTs.wides ts h.2⟩
  | .or ts, h => by
      simp only [WFT] at h; simp only [Wide]; exact ⟨h.1, WFTs.wides ts h.2⟩
theorem WFTs.wides : (ts : List Tree) → (h : WFTs ts) → Wides ts
  | [], _ => by simp [Wides]
  | t :: ts, h => by
      simp only [WFTs] at h; simp only [Wides]; exact ⟨WFT.wide t h.1, WFTs.wides ts h.2⟩
end

/-! ### Printer then parser -/

/-- Entries an and-expression can be extended from. -/
def IsAT : Ent → Prop
  | .chk _ | .andE _ => True
  | _ => False

def toAndList : Ent → List Tree
  | .chk x => [x]
  | .andE ts => ts
  | _ => []

theorem reduce_chk_and (t X r) (h : IsAT X) :
    reduce (.chk t :: .kAnd :: X :: r) = .andE (toAndList X ++ [t]) :: r := by
  cases X <;> simp [IsAT] at h
  · simp [reduce_chk_and_chk, toAndList]
  · simp [reduce_chk_and_andE, toAndList]

mutual
/-- Every printed tree is atom-level: running its tokens is pushing one `chk` entry. -/
theorem run_print : (t : Tree) → Wide t → ∀ st, run st (printToks t) = reduce (.chk t :: st)
  | .tt, _, st => by simp [printToks, run_cons, run_nil, shift, Tok.ent]
  | .ff, _, st => by simp [printToks, run_cons, run_nil, shift, Tok.ent]
  | .chk k m, _, st => by simp [printToks, run_cons, run_nil, shift, Tok.ent]
  | .not t, h, st => by
      simp only [Wide] at h
      simp only [printToks, run_cons, shift, Tok.ent, reduce_kNot]
      rw [run_print t h, reduce_chk_not]
  | .and [], h, st => by simp [Wide] at h
  | .and [a], h, st => by simp [Wide] at h
  | .and (a :: b :: rest), h, st => by
      simp only [Wide, Wides] at h
      simp only [printToks, sepToks, run_cons, run_append, shift, Tok.ent, reduce_lp, run_nil]
      rw [run_print a h.2.1, reduce_chk_quiet _ _ (by simp [Quiet]), reduce_kAnd,
        run_sepAnd (b :: rest) (by simp) (by simp only [Wides]; exact h.2.2) _ _ (by simp [IsAT]),
        reduce_rp _ _ (by simp [IsNT])]
      simp [toAndList, entTree]
  | .or [], h, st => by simp [Wide] at h
  | .or [a], h, st => by simp [Wide] at h
  | .or (a :: b :: rest), h, st => by
      simp only [Wide, Wides] at h
      simp only [printToks, sepToks, run_cons, run_append, shift, Tok.ent, reduce_lp, run_nil]
      rw [run_print a h.2.1, reduce_chk_quiet _ _ (by simp [Quiet]), reduce_kOr,
        run_sepOr (b :: rest) (by simp) (by simp only [Wides]; exact h.2.2) _ _ (by simp [IsNT]),
        reduce_rp _ _ (by simp [IsNT])]
      simp [toOrList, entTree]
/-- The members of an and-group after the first: each one extends the and-expression. -/
theorem run_sepAnd : (ts : List Tree) → ts ≠ [] → Wides ts → ∀ st X, IsAT X →
    run (.kAnd :: X :: st) (sepToks .kAnd ts) = .andE (toAndList X ++ ts) :: st
  | [], hne, _, _, _, _ => absurd rfl hne
  | [t], _, h, st, X, hX => by
      simp only [Wides] at h
      simp only [sepToks]
      rw [run_print t h.1, reduce_chk_and _ _ _ hX]
  | t :: u :: r, _, h, st, X, hX => by
      simp only [Wides] at h
      simp only [sepToks, run_append, run_cons, shift, Tok.ent]
      rw [run_print t h.1, reduce_chk_and _ _ _ hX, reduce_kAnd,
        run_sepAnd (u :: r) (by simp) (by simp only [Wides]; exact h.2) st _ (by simp [IsAT])]
      simp [toAndList]
/-- The members of an or-group after the first: each one arrives as a `chk` entry (an
and-member was printed in parentheses), so only `_make_or_expr` / `_extend_or_expr` fire. -/
theorem run_sepOr : (ts : List Tree) → ts ≠ [] → Wides ts → ∀ st X, IsNT X →
    run (.kOr :: X :: st) (sepToks .kOr ts) = .orE (toOrList X ++ ts) :: st
  | [], hne, _, _, _, _ => absurd rfl hne
  | [t], _, h, st, X, hX => by
      simp only [Wides] at h
      simp only [sepToks]
      rw [run_print t h.1, reduce_chk_or _ _ _ hX]
  | t :: u :: r, _, h, st, X, hX => by
      simp only [Wides] at h
      simp only [sepToks, run_append, run_cons, shift, Tok.ent]
      rw [run_print t h.1, reduce_chk_or _ _ _ hX, reduce_kOr,
        run_sepOr (u :: r) (by simp) (by simp only [Wides]; exact h.2) st _ (by simp [IsNT])]
      simp [toOrList]
end

/-- Token-level fix-point: parsing the tokens the printer spells gives the tree back.
Only needs the and/or nodes to have ≥ 2 members. -/
theorem parseToks_printToks (t : Tree) (h : Wide t) : parseToks (printToks t) = some t := by
  unfold parseToks
  rw [run_print t h [], reduce_chk_quiet _ _ (by simp [Quiet])]
  simp [result]

/-! ### The parser's image -/

/-- every check token of the list carries a tree satisfying P -/
def ToksAll (P : Tree → Prop) (toks : List Tok) : Prop := ∀ t, Tok.chk t ∈ toks → P t

mutual
/-- P holds at every leaf (`tt`, `ff`, `chk k m` node) of the tree -/
def LeavesAll (P : Tree → Prop) : Tree → Prop
  | .tt => P .tt
  | .ff => P .ff
  | .chk k m => P (.chk k m)
  | .not t => LeavesAll P t
  | .and ts => LeavesAlls P ts
  | .or ts => LeavesAlls P ts
def LeavesAlls (P : Tree → Prop) : List Tree → Prop
  | [] => True
  | t :: ts => LeavesAll P t ∧ LeavesAlls P ts
end

/-- The tree is a single leaf node. -/
def IsLeafTree : Tree → Prop
  | .tt | .ff | .chk _ _ => True
  | _ => False

theorem Wides_iff (ts : List Tree) : Wides ts ↔ ∀ x ∈ ts, Wide x := by
  induction ts with
  | nil => simp [Wides]
  | cons t ts ih => simp [Wides, ih]

theorem LeavesAlls_iff (P) (ts : List Tree) : LeavesAlls P ts ↔ ∀ x ∈ ts, LeavesAll P x := by
  induction ts with
  | nil => simp [LeavesAlls]
  | cons t ts ih => simp [LeavesAlls, ih]

/-- What the parser's output satisfies: wide, and `P` at every leaf. -/
def Good (P : Tree → Prop) (t : Tree) : Prop := Wide t ∧ LeavesAll P t

theorem Good_and (P ts) : Good P (.and ts) ↔ 2 ≤ ts.length ∧ ∀ x ∈ ts, Good P x := by
  simp only [Good, Wide, LeavesAll, Wides_iff, LeavesAlls_iff]
  grind

theorem Good_or (P ts) : Good P (.or ts) ↔ 2 ≤ ts.length ∧ ∀ x ∈ ts, Good P x := by
  simp only [Good, Wide, LeavesAll, Wides_iff, LeavesAlls_iff]
  grind

theorem Good_not (P t) : Good P (.not t) ↔ Good P t := by
  simp only [Good, Wide, LeavesAll]

theorem Good_leaf (P t) (hl : IsLeafTree t) (hp : P t) : Good P t := by
  cases t <;> simp_all [IsLeafTree, Good, Wide, LeavesAll]

/-- `_mix_or_and_expr` keeps the number of members and keeps them good. -/
theorem mixLast_good (P) (ts : List Tree) (c : Tree) (hts : ∀ x ∈ ts, Good P x) (hc : Good P c) :
    (mixLast ts c).length = ts.length ∧ ∀ x ∈ mixLast ts c, Good P x := by
  rcases List.eq_nil_or_concat ts with rfl | ⟨pre, f, rfl⟩
  · simp [mixLast]
  · simp only [List.concat_eq_append] at hts
    have hf : Good P f := hts f (by simp)
    have hpre : ∀ x ∈ pre, Good P x := fun x hx => hts x (by simp [hx])
    unfold mixLast
    simp only [List.concat_eq_append, List.getLast?_append, List.getLast?_singleton,
      List.dropLast_concat]
    cases f with
    | and as =>
      simp only [Option.some_or, List.length_append, List.length_singleton, true_and]
      intro x hx
      simp only [List.mem_append, List.mem_singleton] at hx
      rcases hx with hx | rfl
      · exact hpre x hx
      · rw [Good_and] at hf ⊢
        refine ⟨by simp; omega, ?_⟩
        intro y hy
        simp only [List.mem_append, List.mem_singleton] at hy
        rcases hy with hy | rfl
        · exact hf.2 y hy
        · exact hc
    | _ =>
      simp only [Option.some_or, List.length_append, List.length_singleton, true_and]
      intro x hx
      simp only [List.mem_append, List.mem_singleton] at hx
      rcases hx with hx | rfl
      · exact hpre x hx
      · rw [Good_and]
        refine ⟨by simp, ?_⟩
        intro y hy
        simp only [List.mem_cons, List.not_mem_nil, or_false] at hy
        rcases hy with rfl | rfl
        · exact hf
        · exact hc

theorem foldl_mix_good (P) (rest : List Tree) (hrest : ∀ x ∈ rest, Good P x) :
    ∀ ts : List Tree, (∀ x ∈ ts, Good P x) →
      (rest.foldl mixLast ts).length = ts.length ∧ ∀ x ∈ rest.foldl mixLast ts, Good P x := by
  induction rest with
  | nil => intro ts h; exact ⟨rfl, h⟩
  | cons c rest ih =>
    intro ts h
    have hm := mixLast_good P ts c h (hrest c (by simp))
    have := ih (fun x hx => hrest x (by simp [hx])) (mixLast ts c) hm.2
    simp only [List.foldl_cons]
    exact ⟨this.1.trans hm.1, this.2⟩

theorem toOrList_good (P) (X : Ent) (hX : IsNT X) (h : Good P (entTree X)) :
    1 ≤ (toOrList X).length ∧ ∀ x ∈ toOrList X, Good P x := by
  cases X <;> simp [IsNT] at hX
  · simpa [toOrList, entTree] using h
  · simpa [toOrList, entTree] using h
  · simp only [toOrList, entTree, Good_or] at h ⊢
    exact ⟨by omega, h.2⟩

theorem orCtx_good (P) (X : Ent) (hX : IsNT X) (h : Good P (entTree X)) (ops : List Tree)
    (hops : ∀ x ∈ ops, Good P x) : Good P (entTree (orCtx X ops)) := by
  cases ops with
  | nil => simpa [orCtx] using h
  | cons f rest =>
    have hl := toOrList_good P X hX h
    have hstart : ∀ x ∈ toOrList X ++ [f], Good P x := by
      intro x hx
      simp only [List.mem_append, List.mem_singleton] at hx
      rcases hx with hx | rfl
      · exact hl.2 x hx
      · exact hops _ (by simp)
    have := foldl_mix_good P rest (fun x hx => hops x (by simp [hx])) _ hstart
    simp only [orCtx, entTree, Good_or]
    refine ⟨?_, this.2⟩
    rw [this.1]; simp; omega

theorem ent1_good (P) (l : List Tree) (hne : l ≠ []) (h : ∀ x ∈ l, Good P x) :
    Good P (entTree (ent1 l)) := by
  match l, hne with
  | [x], _ => simpa [ent1, entTree] using h
  | x :: y :: r, _ =>
    simp only [ent1, entTree, Good_and]
    exact ⟨by simp, h⟩

mutual
theorem good2 (P) : (e : E 2) → ToksAll (fun t => IsLeafTree t ∧ P t) e.render → Good P (sem2 e)
  | .leaf t, h => by
      have := h t (by simp [E.render])
      simp only [sem2]; exact Good_leaf P t this.1 this.2
  | .paren e, h => by
      simp only [sem2]
      exact good0 P e (fun t ht => h t (by simp [E.render, ht]))
  | .not e, h => by
      simp only [sem2, Good_not]
      exact good2 P e (fun t ht => h t (by simp [E.render, ht]))
theorem good1 (P) : (e : E 1) → ToksAll (fun t => IsLeafTree t ∧ P t) e.render →
    ∀ x ∈ sem1 e, Good P x
  | .up1 e, h => by
      simp only [sem1, List.mem_singleton, forall_eq]
      exact good2 P e (fun t ht => h t (by simpa [E.render] using ht))
  | .and a b, h => by
      intro x hx
      simp only [sem1, List.mem_append, List.mem_singleton] at hx
      rcases hx with hx | rfl
      · exact good1 P a (fun t ht => h t (by simp [E.render, ht])) x hx
      · exact good2 P b (fun t ht => h t (by simp [E.render, ht]))
theorem good0 (P) : (e : E 0) → ToksAll (fun t => IsLeafTree t ∧ P t) e.render →
    Good P (entTree (sem0 e))
  | .up0 e, h => by
      simp only [sem0]
      exact ent1_good P _ (sem1_ne e) (good1 P e (fun t ht => h t (by simpa [E.render] using ht)))
  | .or l r, h => by
      simp only [sem0]
      exact orCtx_good P _ (sem0_nt l)
        (good0 P l (fun t ht => h t (by simp [E.render, ht]))) _
        (good1 P r (fun t ht => h t (by simp [E.render, ht])))
end

/-- Everything the parser builds from leaf check tokens is wide, and carries at its
leaves whatever held of the check tokens. -/
theorem parseToks_good (P : Tree → Prop) (toks : List Tok) (t : Tree)
    (hleaf : ToksAll (fun t => IsLeafTree t ∧ P t) toks) (h : parseToks toks = some t) :
    Wide t ∧ LeavesAll P t := by
  obtain ⟨e, rfl, rfl⟩ := parseToks_sound toks t h
  exact good0 P e hleaf

theorem parseToks_leaves (P : Tree → Prop) (toks : List Tok) (t : Tree)
    (hleaf : ToksAll (fun t => (match t with | .tt | .ff | .chk _ _ => True | _ => False) ∧ P t) toks)
    (h : parseToks toks = some t) : LeavesAll P t := by
  refine (parseToks_good P toks t ?_ h).2
  intro x hx
  have := hleaf x hx
  cases x <;> simp_all [IsLeafTree]

theorem parseToks_wide (toks : List Tok) (t : Tree)
    (hleaf : ToksAll (fun t => match t with | .tt | .ff | .chk _ _ => True | _ => False) toks)
    (h : parseToks toks = some t) : Wide t := by
  refine (parseToks_good (fun _ => True) toks t ?_ h).1
  intro x hx
  have := hleaf x hx
  cases x <;> simp_all [IsLeafTree]

end OsloPolicy
