import OsloPolicy.Model.Tools
import OsloPolicy.Proofs.Layers
import OsloPolicy.Proofs.RoundTrip
/-
C18: the tools that rewrite policy files (`oslopolicy-policy-upgrade`,
`oslopolicy-convert-json-to-yaml`, `oslopolicy-policy-generator`,
`oslopolicy-list-redundant`), at the level of the mapping name ↦ rule value.

As in `Proofs/Layers.lean`, nothing here assumes that the keys of an association list are
unique unless a statement says so: everything is about `afind` (first match).
-/
namespace OsloPolicy

/-! ## A. list facts -/

/-- lookup after a removal, both cases at once -/
theorem afind_aremove {α} (k n : Str) (l : List (Str × α)) :
    afind n (aremove k l) = if k = n then none else afind n l := by
  induction l with
  | nil => simp [aremove, afind]
  | cons p r ih =>
    obtain ⟨k', v⟩ := p
    simp only [aremove]
    by_cases h : k' = k
    · subst h
      simp only [↓reduceIte, ih, afind]
      split <;> rfl
    · simp only [h, ↓reduceIte, afind, ih]
      by_cases h2 : k' = n
      · have h3 : ¬ k = n := fun e => h (h2.trans e.symm)
        simp [h2, h3]
      · simp [h2]

theorem afind_aremove_self {α} (k : Str) (l : List (Str × α)) : afind k (aremove k l) = none := by
  simp [afind_aremove]

theorem afind_aremove_other {α} (k k' : Str) (l : List (Str × α)) (h : k' ≠ k) :
    afind k' (aremove k l) = afind k' l := by
  have h' : ¬ k = k' := fun e => h e.symm
  simp [afind_aremove, h']

theorem afind_append {α} (n : Str) (l₁ l₂ : List (Str × α)) :
    afind n (l₁ ++ l₂) = match afind n l₁ with | some v => some v | none => afind n l₂ := by
  induction l₁ with
  | nil => simp [afind]
  | cons p r ih =>
    obtain ⟨k, v⟩ := p
    simp only [List.cons_append, afind]
    split
    · rfl
    · exact ih

theorem afind_some_mem {α} (n : Str) (l : List (Str × α)) (v : α) (h : afind n l = some v) :
    (n, v) ∈ l := by
  induction l with
  | nil => simp [afind] at h
  | cons p r ih =>
    obtain ⟨k, w⟩ := p
    simp only [afind] at h
    split at h
    · next hk => cases h; subst hk; exact List.mem_cons_self ..
    · exact List.mem_cons_of_mem _ (ih h)

/-! ## B. `oslopolicy-policy-upgrade` -/

/-- one iteration of the loop, seen through `afind` -/
theorem afind_upgradeStep (old acc : Content) (d : RuleDefault) (n : Str) :
    afind n (upgradeStep old acc d) =
      match d.deprecated with
      | none => afind n acc
      | some (o, _) =>
        match afind o old with
        | none => afind n acc
        | some v =>
          if isAliasTo d.name v = false ∧ d.name = n then some v
          else if o = n then none else afind n acc := by
  unfold upgradeStep
  cases d.deprecated with
  | none => rfl
  | some p =>
    obtain ⟨o, os⟩ := p
    simp only
    cases afind o old with
    | none => rfl
    | some v =>
      simp only
      cases ha : isAliasTo d.name v with
      | true => simp [afind_aremove]
      | false =>
        simp only [Bool.false_eq_true, ↓reduceIte, afind_ainsert, afind_aremove, true_and]

/-- iteration `d` can change what the accumulator holds under `n`: it has a deprecated name
that the (original) file defines, and `n` is its new or its old name -/
def Touches (file : Content) (n : Str) (d : RuleDefault) : Prop :=
  ∃ o os v, d.deprecated = some (o, os) ∧ afind o file = some v ∧ (d.name = n ∨ o = n)

theorem afind_upgradeStep_untouched (file acc : Content) (d : RuleDefault) (n : Str)
    (h : ¬ Touches file n d) : afind n (upgradeStep file acc d) = afind n acc := by
  rw [afind_upgradeStep]
  cases hdep : d.deprecated with
  | none => rfl
  | some p =>
    obtain ⟨o, os⟩ := p
    simp only
    cases hf : afind o file with
    | none => rfl
    | some v =>
      have h1 : ¬ d.name = n := fun e => h ⟨o, os, v, hdep, hf, Or.inl e⟩
      have h2 : ¬ o = n := fun e => h ⟨o, os, v, hdep, hf, Or.inr e⟩
      simp [h1, h2]

/-- loop invariant 1: a name no iteration touches keeps its binding -/
theorem afind_foldl_untouched (file : Content) (n : Str) (l : List RuleDefault) (acc : Content)
    (h : ∀ d ∈ l, ¬ Touches file n d) :
    afind n (l.foldl (upgradeStep file) acc) = afind n acc := by
  induction l generalizing acc with
  | nil => rfl
  | cons x r ih =>
    simp only [List.foldl_cons]
    rw [ih _ (fun d hd => h d (List.mem_cons_of_mem _ hd)),
      afind_upgradeStep_untouched file acc x n (h x (List.mem_cons_self ..))]

/-- an iteration whose new name is not `n` never creates a binding for `n` -/
theorem afind_upgradeStep_none (file acc : Content) (d : RuleDefault) (n : Str)
    (hn : d.name ≠ n) (h : afind n acc = none) : afind n (upgradeStep file acc d) = none := by
  rw [afind_upgradeStep]
  cases d.deprecated with
  | none => exact h
  | some p =>
    obtain ⟨o, os⟩ := p
    simp only
    cases afind o file with
    | none => exact h
    | some v => simp [hn, h]

/-- loop invariant 2: a name that is nobody's new name, once absent, stays absent -/
theorem afind_foldl_none (file : Content) (n : Str) (l : List RuleDefault) (acc : Content)
    (hn : ∀ d ∈ l, d.name ≠ n) (h : afind n acc = none) :
    afind n (l.foldl (upgradeStep file) acc) = none := by
  induction l generalizing acc with
  | nil => exact h
  | cons x r ih =>
    simp only [List.foldl_cons]
    exact ih _ (fun d hd => hn d (List.mem_cons_of_mem _ hd))
      (afind_upgradeStep_none file acc x n (hn x (List.mem_cons_self ..)) h)

/-- loop invariant 3: a name that is nobody's new name and that some iteration pops is
absent at the end, whatever the accumulator was -/
theorem afind_foldl_popped (file : Content) (n : Str) (l : List RuleDefault) (acc : Content)
    (hn : ∀ d ∈ l, d.name ≠ n) (d : RuleDefault) (hd : d ∈ l) (os : JVal)
    (hdep : d.deprecated = some (n, os)) (hf : (afind n file).isSome) :
    afind n (l.foldl (upgradeStep file) acc) = none := by
  induction l generalizing acc with
  | nil => cases hd
  | cons x r ih =>
    simp only [List.foldl_cons]
    have hn' : ∀ d ∈ r, d.name ≠ n := fun d hd => hn d (List.mem_cons_of_mem _ hd)
    rcases List.mem_cons.mp hd with rfl | hd
    · apply afind_foldl_none file n r _ hn'
      rw [afind_upgradeStep, hdep]
      obtain ⟨v, hv⟩ := Option.isSome_iff_exists.mp hf
      have h1 : ¬ d.name = n := hn d (List.mem_cons_self ..)
      simp [hv, h1]
    · exact ih _ hn' hd

/-- the iteration for `d` itself, seen under `d`'s own name -/
theorem afind_upgradeStep_self (file acc : Content) (d : RuleDefault) (o : Str) (os v : JVal)
    (hdep : d.deprecated = some (o, os)) (hf : afind o file = some v) :
    afind d.name (upgradeStep file acc d) =
      if isAliasTo d.name v then (if o = d.name then none else afind d.name acc) else some v := by
  rw [afind_upgradeStep, hdep]
  simp only [hf]
  cases isAliasTo d.name v <;> simp

/-- loop invariant 4: if `d` is the only iteration that touches `d.name`, and the file
defines `d`'s deprecated name as `v`, then at the end `d.name ↦ v` — or nothing when `v` is
merely the alias `rule:<d.name>` (given that in that case nothing was there before). -/
theorem afind_foldl_target (file : Content) (d : RuleDefault) (o : Str) (os v : JVal)
    (hdep : d.deprecated = some (o, os)) (hf : afind o file = some v)
    (l : List RuleDefault) (acc : Content)
    (honly : ∀ x ∈ l, Touches file d.name x → x = d)
    (hd : d ∈ l ∨ afind d.name acc = (if isAliasTo d.name v then none else some v))
    (halias : isAliasTo d.name v = true → o ≠ d.name → afind d.name acc = none) :
    afind d.name (l.foldl (upgradeStep file) acc) = (if isAliasTo d.name v then none else some v) := by
  induction l generalizing acc with
  | nil =>
    rcases hd with hd | hd
    · cases hd
    · exact hd
  | cons x r ih =>
    simp only [List.foldl_cons]
    have honly' : ∀ y ∈ r, Touches file d.name y → y = d :=
      fun y hy => honly y (List.mem_cons_of_mem _ hy)
    by_cases hx : x = d
    · subst hx
      have hstep : afind x.name (upgradeStep file acc x) =
          (if isAliasTo x.name v then none else some v) := by
        rw [afind_upgradeStep_self file acc x o os v hdep hf]
        cases ha : isAliasTo x.name v with
        | false => simp
        | true =>
          simp only [↓reduceIte]
          split
          · rfl
          · next hne => exact halias ha hne
      apply ih _ honly' (Or.inr hstep)
      intro ha _
      rw [hstep, ha]; rfl
    · have hnt : ¬ Touches file d.name x := fun ht => hx (honly x (List.mem_cons_self ..) ht)
      have hstep := afind_upgradeStep_untouched file acc x d.name hnt
      apply ih _ honly'
      · rcases hd with hd | hd
        · rcases List.mem_cons.mp hd with rfl | hd
          · exact absurd rfl hx
          · exact Or.inl hd
        · exact Or.inr (hstep.trans hd)
      · intro ha hne
        rw [hstep]; exact halias ha hne

/-- under (U) and (X2), `d` is the only registered policy whose iteration touches `d.name` -/
theorem touches_only_self (file : Content) (regs : List RuleDefault)
    (hU : ∀ d₁ ∈ regs, ∀ d₂ ∈ regs, d₁.name = d₂.name → d₁ = d₂)
    (hX2 : ∀ d ∈ regs, ∀ o os, d.deprecated = some (o, os) → o ≠ d.name → ∀ d' ∈ regs, d'.name ≠ o)
    (d : RuleDefault) (hd : d ∈ regs) (x : RuleDefault) (hx : x ∈ regs)
    (ht : Touches file d.name x) : x = d := by
  obtain ⟨o, os, v, hdep, _, h | h⟩ := ht
  · exact hU x hx d hd h
  · -- `x`'s deprecated name is `d.name`
    by_cases hxd : x.name = d.name
    · exact hU x hx d hd hxd
    · exact absurd h.symm (hX2 x hx o os hdep (fun e => hxd (h ▸ e).symm) d hd)

/-- **What the upgraded file holds under a registered (new) name.**

CORRECTION of the statement as first proposed.  The proposal had, for a deprecation that
keeps the name (`o = d.name`), the right-hand side `afind d.name file`.  That is false:
`_upgrade_policies` does not test `o ≠ d.name`, so for such a `d` it pops `d.name` and
re-inserts it *unless the value is the alias `rule:<d.name>`* — i.e. a self-referential file
rule `"a": "rule:a"` under a same-name deprecation is deleted.  Counterexample (checked by
evaluation): `regs = [⟨"a", "role:x", some ("a", "role:y")⟩]`, `file = [("a", "rule:a")]`;
(U), (X1), (X2) hold, `toolUpgrade file regs = []`, so the lookup gives `none`, not
`some "rule:a"` (kernel-checked: `upgrade_needs_noSelfAlias` in section D).  The true statement has the same shape in both branches of `o = d.name`;
it is kept in the proposed layout so that the changed branch is visible.
`upgrade_new_name_noSelfAlias` below is the statement as proposed, under the extra
hypothesis (X3) that excludes exactly this case. -/
theorem upgrade_new_name (file : Content) (regs : List RuleDefault)
    (hU : ∀ d₁ ∈ regs, ∀ d₂ ∈ regs, d₁.name = d₂.name → d₁ = d₂)
    (hX1 : ∀ d ∈ regs, ∀ o os, d.deprecated = some (o, os) → o ≠ d.name →
      (afind o file).isSome → afind d.name file = none)
    (hX2 : ∀ d ∈ regs, ∀ o os, d.deprecated = some (o, os) → o ≠ d.name → ∀ d' ∈ regs, d'.name ≠ o)
    (d : RuleDefault) (hd : d ∈ regs) :
    afind d.name (toolUpgrade file regs) =
      match d.deprecated with
      | some (o, _) =>
        if o = d.name then
          (match afind d.name file with
           | some v => if isAliasTo d.name v then none else some v   -- corrected branch
           | none => none)
        else (match afind o file with
              | some v => if isAliasTo d.name v then none else some v
              | none => afind d.name file)
      | none => afind d.name file := by
  have honly := touches_only_self file regs hU hX2 d hd
  -- when `d`'s own iteration does nothing, nothing touches `d.name`
  have hidle : ¬ Touches file d.name d →
      afind d.name (toolUpgrade file regs) = afind d.name file := fun hnt =>
    afind_foldl_untouched file d.name regs file
      (fun x hx ht => hnt (honly x hx ht ▸ ht))
  cases hdep : d.deprecated with
  | none =>
    simp only
    apply hidle
    rintro ⟨o, os, v, h, _⟩
    rw [hdep] at h; cases h
  | some p =>
    obtain ⟨o, os⟩ := p
    simp only
    cases hf : afind o file with
    | none =>
      have h1 : afind d.name (toolUpgrade file regs) = afind d.name file := by
        apply hidle
        rintro ⟨o', os', v, h, hf', _⟩
        rw [hdep] at h; cases h
        rw [hf] at hf'; cases hf'
      by_cases ho : o = d.name
      · subst ho; simp only [↓reduceIte, hf]; exact h1.trans hf
      · simp only [ho, ↓reduceIte]; exact h1
    | some v =>
      have h1 : afind d.name (toolUpgrade file regs) =
          (if isAliasTo d.name v then none else some v) := by
        apply afind_foldl_target file d o os v hdep hf regs file honly (Or.inl hd)
        intro _ hne
        exact hX1 d hd o os hdep hne (by simp [hf])
      by_cases ho : o = d.name
      · subst ho; simp only [↓reduceIte, hf]; exact h1
      · simp only [ho, ↓reduceIte]; exact h1

/-- (X3) no file rule under a name whose deprecation keeps the name is the self-alias
`rule:<that name>` (such a rule could only ever raise `RecursionError`) -/
def NoSelfAlias (file : Content) (regs : List RuleDefault) : Prop :=
  ∀ d ∈ regs, ∀ os v, d.deprecated = some (d.name, os) → afind d.name file = some v →
    isAliasTo d.name v = false

/-- the statement as first proposed; it needs (X3) -/
theorem upgrade_new_name_noSelfAlias (file : Content) (regs : List RuleDefault)
    (hU : ∀ d₁ ∈ regs, ∀ d₂ ∈ regs, d₁.name = d₂.name → d₁ = d₂)
    (hX1 : ∀ d ∈ regs, ∀ o os, d.deprecated = some (o, os) → o ≠ d.name →
      (afind o file).isSome → afind d.name file = none)
    (hX2 : ∀ d ∈ regs, ∀ o os, d.deprecated = some (o, os) → o ≠ d.name → ∀ d' ∈ regs, d'.name ≠ o)
    (hX3 : NoSelfAlias file regs)
    (d : RuleDefault) (hd : d ∈ regs) :
    afind d.name (toolUpgrade file regs) =
      match d.deprecated with
      | some (o, _) =>
        if o = d.name then afind d.name file
        else (match afind o file with
              | some v => if isAliasTo d.name v then none else some v
              | none => afind d.name file)
      | none => afind d.name file := by
  rw [upgrade_new_name file regs hU hX1 hX2 d hd]
  cases hdep : d.deprecated with
  | none => rfl
  | some p =>
    obtain ⟨o, os⟩ := p
    simp only
    by_cases ho : o = d.name
    · subst ho
      simp only [↓reduceIte]
      cases hf : afind d.name file with
      | none => rfl
      | some v => simp [hX3 d hd os v hdep hf]
    · simp only [ho, ↓reduceIte]

/-- a renamed deprecated name is absent from the upgraded file: popped if the file had it,
and otherwise never there (only (X2) is needed: nobody re-creates it) -/
theorem upgrade_old_name (file : Content) (regs : List RuleDefault)
    (hX2 : ∀ d ∈ regs, ∀ o os, d.deprecated = some (o, os) → o ≠ d.name → ∀ d' ∈ regs, d'.name ≠ o)
    (d : RuleDefault) (hd : d ∈ regs) (o : Str) (os : JVal)
    (hdep : d.deprecated = some (o, os)) (hne : o ≠ d.name) :
    afind o (toolUpgrade file regs) = none := by
  have hn : ∀ d' ∈ regs, d'.name ≠ o := hX2 d hd o os hdep hne
  cases hf : afind o file with
  | none => exact afind_foldl_none file o regs file hn hf
  | some v => exact afind_foldl_popped file o regs file hn d hd os hdep (by simp [hf])

/-- any other name is untouched (no hypothesis on `regs` or `file`) -/
theorem upgrade_other_name (file : Content) (regs : List RuleDefault) (n : Str)
    (h1 : ∀ d ∈ regs, d.name ≠ n)
    (h2 : ∀ d ∈ regs, ∀ o os, d.deprecated = some (o, os) → o ≠ n) :
    afind n (toolUpgrade file regs) = afind n file := by
  apply afind_foldl_untouched
  rintro d hd ⟨o, os, _, hdep, _, h | h⟩
  · exact h1 d hd h
  · exact h2 d hd o os hdep h

/-- **The upgrade preserves what governs every registered policy** (hence, by C11
`governs_correct`, every decision).

CORRECTION: besides (U), (X1), (X2) this needs (X3) `NoSelfAlias`.  With
`regs = [⟨"a", "role:x", some ("a", "role:y")⟩]`, `file = [("a", "rule:a")]` the tool
deletes the rule, and `governs false file d = rule:a` while
`governs false (toolUpgrade file regs) d = (role:x or role:y)`
(kernel-checked: `upgrade_needs_noSelfAlias` in section D).
Two different registered policies deprecating the same old name (a "split") are allowed. -/
theorem upgrade_governs (enforceNew : Bool) (file : Content) (regs : List RuleDefault)
    (hU : ∀ d₁ ∈ regs, ∀ d₂ ∈ regs, d₁.name = d₂.name → d₁ = d₂)
    (hX1 : ∀ d ∈ regs, ∀ o os, d.deprecated = some (o, os) → o ≠ d.name →
      (afind o file).isSome → afind d.name file = none)
    (hX2 : ∀ d ∈ regs, ∀ o os, d.deprecated = some (o, os) → o ≠ d.name → ∀ d' ∈ regs, d'.name ≠ o)
    (hX3 : NoSelfAlias file regs)
    (d : RuleDefault) (hd : d ∈ regs) :
    governs enforceNew (toolUpgrade file regs) d = governs enforceNew file d := by
  have hnew := upgrade_new_name_noSelfAlias file regs hU hX1 hX2 hX3 d hd
  unfold governs
  cases hdep : d.deprecated with
  | none =>
    rw [hdep] at hnew
    simp only at hnew
    rw [hnew]
  | some p =>
    obtain ⟨o, os⟩ := p
    rw [hdep] at hnew
    simp only at hnew ⊢
    by_cases ho : o = d.name
    · simp only [ho, ↓reduceIte] at hnew ⊢
      rw [hnew]
    · have hold := upgrade_old_name file regs hX2 d hd o os hdep ho
      simp only [ho, ↓reduceIte] at hnew ⊢
      rw [hnew, hold]
      cases hf : afind o file with
      | none => rfl
      | some v =>
        have hnone : afind d.name file = none := hX1 d hd o os hdep ho (by simp [hf])
        rw [hnone]
        simp only
        by_cases ha : (parseValue v).print = rulePrefix ++ d.name
        · have ha' : isAliasTo d.name v = true := by simp [isAliasTo, ha]
          simp [ha, ha']
        · have ha' : isAliasTo d.name v = false := by simp [isAliasTo, ha]
          simp [ha, ha']

/-- the upgrade completes for every file and every list of registered policies — also when
one deprecated name is split into several new policies (defect F6: the shipped tool raised
`KeyError` on the second `pop`); in the model this is totality of `toolUpgrade`, and
`upgrade_split` below says what the result is in that case -/
theorem upgrade_total (file : Content) (regs : List RuleDefault) :
    ∃ out, toolUpgrade file regs = out := ⟨_, rfl⟩

/-- the split case made explicit: `o` deprecated in favour of two different new names, the
file defines only `o ↦ v` (not an alias): both new names get `v`, `o` is gone -/
theorem upgrade_split (file : Content) (regs : List RuleDefault)
    (hU : ∀ d₁ ∈ regs, ∀ d₂ ∈ regs, d₁.name = d₂.name → d₁ = d₂)
    (hX1 : ∀ d ∈ regs, ∀ o os, d.deprecated = some (o, os) → o ≠ d.name →
      (afind o file).isSome → afind d.name file = none)
    (hX2 : ∀ d ∈ regs, ∀ o os, d.deprecated = some (o, os) → o ≠ d.name → ∀ d' ∈ regs, d'.name ≠ o)
    (d₁ d₂ : RuleDefault) (h₁ : d₁ ∈ regs) (h₂ : d₂ ∈ regs) (o : Str) (os₁ os₂ v : JVal)
    (hd₁ : d₁.deprecated = some (o, os₁)) (hd₂ : d₂.deprecated = some (o, os₂))
    (hn₁ : o ≠ d₁.name) (hn₂ : o ≠ d₂.name) (hf : afind o file = some v)
    (ha₁ : isAliasTo d₁.name v = false) (ha₂ : isAliasTo d₂.name v = false) :
    afind d₁.name (toolUpgrade file regs) = some v ∧
    afind d₂.name (toolUpgrade file regs) = some v ∧
    afind o (toolUpgrade file regs) = none := by
  refine ⟨?_, ?_, upgrade_old_name file regs hX2 d₁ h₁ o os₁ hd₁ hn₁⟩
  · rw [upgrade_new_name file regs hU hX1 hX2 d₁ h₁, hd₁]; simp [hn₁, hf, ha₁]
  · rw [upgrade_new_name file regs hU hX1 hX2 d₂ h₂, hd₂]; simp [hn₂, hf, ha₂]

/-! ## C. converter, generator, redundancy list -/

/-- **Converter, no assumption on keys**: the effective binding of `n` in the converted file
is the first binding of `n` in the file that does not equal the registered default. -/
theorem convert_lookup_first (file : Content) (regs : List RuleDefault) (n : Str) :
    afind n (toolConvert file regs) =
      (file.find? fun p => p.1 = n && !equalsDefault regs n p.2).map (·.2) := by
  unfold toolConvert
  induction file with
  | nil => rfl
  | cons p r ih =>
    obtain ⟨k, v⟩ := p
    simp only [List.filter_cons, List.find?_cons]
    by_cases hk : k = n
    · subst hk
      cases he : equalsDefault regs k v with
      | true => simpa using ih
      | false => simp [afind]
    · have hk' : (decide (k = n) && !equalsDefault regs n v) = false := by simp [hk]
      simp only [hk']
      split
      · simp only [afind, hk, ↓reduceIte]; exact ih
      · exact ih

/-- **Converter, keys unique** (a parsed JSON/YAML mapping): a rule equal to its registered
default disappears (it is written as a comment), every other binding is kept.

`Nodup` is needed only for the `equalsDefault … = true` case: with
`file = [("a", "role:x"), ("a", "role:z")]` and the default `a ↦ role:x`, filtering removes
the first binding and uncovers the second, so the converted file has `a ↦ role:z` although
`afind "a" file = "role:x"` equals the default (kernel-checked: `convert_needs_nodup`).  The two cases
that hold for every list are `convert_lookup_kept` and `convert_lookup_absent`. -/
theorem convert_lookup (file : Content) (regs : List RuleDefault) (n : Str)
    (hnd : (file.map (·.1)).Nodup) :
    afind n (toolConvert file regs) =
      match afind n file with
      | some v => if equalsDefault regs n v then none else some v
      | none => none := by
  rw [convert_lookup_first]
  induction file with
  | nil => rfl
  | cons p r ih =>
    obtain ⟨k, v⟩ := p
    simp only [List.map_cons, List.nodup_cons] at hnd
    simp only [List.find?_cons, afind]
    by_cases hk : k = n
    · subst hk
      simp only [↓reduceIte, decide_true, Bool.true_and]
      cases he : equalsDefault regs k v with
      | false => simp
      | true =>
        simp only [Bool.not_true, ↓reduceIte]
        -- no later binding of `k`
        have : r.find? (fun p => p.1 = k && !equalsDefault regs k p.2) = none := by
          rw [List.find?_eq_none]
          intro q hq
          have : q.1 ≠ k := fun e => hnd.1 (e ▸ List.mem_map_of_mem hq)
          simp [this]
        rw [this]; rfl
    · simp only [hk, decide_false, Bool.false_and, ↓reduceIte]
      exact ih hnd.2

/-- without `Nodup`: an effective binding that differs from the default is kept -/
theorem convert_lookup_kept (file : Content) (regs : List RuleDefault) (n : Str) (v : JVal)
    (h : afind n file = some v) (he : equalsDefault regs n v = false) :
    afind n (toolConvert file regs) = some v := by
  rw [convert_lookup_first]
  induction file with
  | nil => simp [afind] at h
  | cons p r ih =>
    obtain ⟨k, w⟩ := p
    simp only [afind] at h
    simp only [List.find?_cons]
    by_cases hk : k = n
    · simp only [hk, ↓reduceIte, Option.some.injEq] at h
      subst h
      simp [hk, he]
    · simp only [hk, ↓reduceIte] at h
      simp only [hk, decide_false, Bool.false_and]
      exact ih h

/-- without `Nodup`: the converter defines no new name -/
theorem convert_lookup_absent (file : Content) (regs : List RuleDefault) (n : Str)
    (h : afind n file = none) : afind n (toolConvert file regs) = none := by
  rw [convert_lookup_first]
  induction file with
  | nil => rfl
  | cons p r ih =>
    obtain ⟨k, w⟩ := p
    simp only [afind] at h
    simp only [List.find?_cons]
    by_cases hk : k = n
    · simp [hk] at h
    · simp only [hk, ↓reduceIte] at h
      simp only [hk, decide_false, Bool.false_and]
      exact ih h

/-- lookup in the registered defaults written out by the generator -/
theorem afind_map_defaults (regs : List RuleDefault) (p : RuleDefault → Bool) (n : Str)
    (hp : ∀ d ∈ regs, d.name = n → p d = true) :
    afind n ((regs.filter p).map fun d => (d.name, d.checkStr)) =
      (regs.find? (·.name = n)).map (·.checkStr) := by
  induction regs with
  | nil => rfl
  | cons x r ih =>
    have ih' := ih (fun d hd => hp d (List.mem_cons_of_mem _ hd))
    simp only [List.filter_cons, List.find?_cons]
    by_cases hx : x.name = n
    · have hpx := hp x (List.mem_cons_self ..) hx
      simp [hpx, afind, hx]
    · have hdec : decide (x.name = n) = false := by simp [hx]
      simp only [hdec]
      split
      · simp only [List.map_cons, afind, hx, ↓reduceIte]; exact ih'
      · exact ih'

/-- **Generator**: a rule found in files stays; any other name gets its registered default -/
theorem generate_lookup (fr : Content) (regs : List RuleDefault) (n : Str) :
    afind n (toolGenerate fr regs) =
      match afind n fr with
      | some v => some v
      | none => (regs.find? (·.name = n)).map (·.checkStr) := by
  unfold toolGenerate
  rw [afind_append]
  cases hf : afind n fr with
  | some v => rfl
  | none =>
    simp only
    apply afind_map_defaults
    intro d _ hdn
    simp [hdn, hf]

/-- **Redundancy list**: exactly the names of file rules that equal the registered default -/
theorem redundant_mem (fr : Content) (regs : List RuleDefault) (n : Str) :
    n ∈ toolRedundant fr regs ↔ ∃ v, (n, v) ∈ fr ∧ equalsDefault regs n v = true := by
  unfold toolRedundant
  simp only [List.mem_map, List.mem_filter]
  constructor
  · rintro ⟨⟨k, v⟩, ⟨hm, he⟩, rfl⟩
    exact ⟨v, hm, he⟩
  · rintro ⟨v, hm, he⟩
    exact ⟨(n, v), ⟨hm, he⟩, rfl⟩

/-- a rule that equals its registered default *is* the default's tree, provided both are
printable (`WFT`): this is why commenting it out (converter) or deleting it (redundancy
list) changes no decision -/
theorem equalsDefault_same_tree (regs : List RuleDefault) (n : Str) (v : JVal) (d : RuleDefault)
    (hf : regs.find? (·.name = n) = some d)
    (h : equalsDefault regs n v = true) (hv : WFT (parseValue v)) (hd : WFT (parseValue d.checkStr)) :
    parseValue v = parseValue d.checkStr := by
  unfold equalsDefault at h
  rw [hf] at h
  exact print_inj _ _ hv hd (by simpa using h)

/-- string rule values are always printable -/
theorem parseValue_str_WFT (s : Str) : WFT (parseValue (.str s)) := by
  simp only [parseValue]
  exact parseText_WFT s

/-- so for string rules (what policy files and `RuleDefault`s hold in practice)
`equalsDefault` means "same tree" with no side condition -/
theorem equalsDefault_str_same_tree (regs : List RuleDefault) (n : Str) (s sd : Str)
    (d : RuleDefault) (hf : regs.find? (·.name = n) = some d) (hds : d.checkStr = .str sd)
    (h : equalsDefault regs n (.str s) = true) :
    parseValue (.str s) = parseValue d.checkStr :=
  equalsDefault_same_tree regs n (.str s) d hf h (parseValue_str_WFT s)
    (hds ▸ parseValue_str_WFT sd)

/-! ## D. the counterexamples behind the corrections, kernel-checked -/

theorem parseText_leaf (k m : Str) (h : WFT (.chk k m)) : parseText (k ++ ':' :: m) = .chk k m := by
  simpa [Tree.print] using parseText_print _ h

/-- `a ↦ role:x`, deprecated under the *same* name with the old default `role:y` -/
def cexDefault : RuleDefault :=
  ⟨['a'], .str ['r','o','l','e',':','x'], some (['a'], .str ['r','o','l','e',':','y'])⟩
/-- the file `{"a": "rule:a"}` -/
def cexFile : Content := [(['a'], .str ['r','u','l','e',':','a'])]

theorem cex_alias : isAliasTo ['a'] (.str ['r','u','l','e',':','a']) = true := by
  have h := parseText_leaf ['r','u','l','e'] ['a'] (by simp only [WFT, CleanLeaf]; decide)
  simp only [List.cons_append, List.nil_append] at h
  simp [isAliasTo, parseValue, h, Tree.print, rulePrefix]

theorem cex_upgrade : toolUpgrade cexFile [cexDefault] = [] := by
  simp [toolUpgrade, upgradeStep, cexDefault, cexFile, afind, aremove, cex_alias]

/-- (U), (X1), (X2) hold, yet the lookup under the new name and what governs both change:
`upgrade_new_name` as first proposed and `upgrade_governs` without (X3) are false -/
theorem upgrade_needs_noSelfAlias :
    (∀ d₁ ∈ [cexDefault], ∀ d₂ ∈ [cexDefault], d₁.name = d₂.name → d₁ = d₂) ∧
    (∀ d ∈ [cexDefault], ∀ o os, d.deprecated = some (o, os) → o ≠ d.name →
      (afind o cexFile).isSome → afind d.name cexFile = none) ∧
    (∀ d ∈ [cexDefault], ∀ o os, d.deprecated = some (o, os) → o ≠ d.name →
      ∀ d' ∈ [cexDefault], d'.name ≠ o) ∧
    afind cexDefault.name (toolUpgrade cexFile [cexDefault]) = none ∧
    (afind cexDefault.name cexFile).isSome ∧
    governs false (toolUpgrade cexFile [cexDefault]) cexDefault ≠ governs false cexFile cexDefault := by
  refine ⟨by simp, ?_, ?_, by simp [cex_upgrade, afind], by simp [cexFile, cexDefault, afind], ?_⟩
  · intro d hd o os hdep hne
    simp only [List.mem_singleton] at hd; subst hd
    simp only [cexDefault, Option.some.injEq, Prod.mk.injEq] at hdep
    exact absurd hdep.1.symm hne
  · intro d hd o os hdep hne
    simp only [List.mem_singleton] at hd; subst hd
    simp only [cexDefault, Option.some.injEq, Prod.mk.injEq] at hdep
    exact absurd hdep.1.symm hne
  · rw [cex_upgrade]
    have h := parseText_leaf ['r','u','l','e'] ['a'] (by simp only [WFT, CleanLeaf]; decide)
    simp only [List.cons_append, List.nil_append] at h
    simp [governs, cexDefault, cexFile, afind, jvalStrNe, parseValue, h]

/-- the list `[("a", "role:x"), ("a", "role:z")]` (not a Python dict: duplicated key) -/
def cexDupFile : Content :=
  [(['a'], .str ['r','o','l','e',':','x']), (['a'], .str ['r','o','l','e',':','z'])]

/-- with a duplicated key the match-form of `convert_lookup` fails: the effective binding
equals the default, yet the converted file still defines the name (by the later binding) -/
theorem convert_needs_nodup :
    (∃ v, afind ['a'] cexDupFile = some v ∧ equalsDefault [cexDefault] ['a'] v = true) ∧
    afind ['a'] (toolConvert cexDupFile [cexDefault]) = some (.str ['r','o','l','e',':','z']) := by
  have hx := parseText_leaf ['r','o','l','e'] ['x'] (by simp only [WFT, CleanLeaf]; decide)
  have hz := parseText_leaf ['r','o','l','e'] ['z'] (by simp only [WFT, CleanLeaf]; decide)
  simp only [List.cons_append, List.nil_append] at hx hz
  constructor
  · exact ⟨_, rfl, by simp [equalsDefault, cexDefault]⟩
  · rw [convert_lookup_first]
    simp [cexDupFile, equalsDefault, cexDefault, parseValue, hx, hz, Tree.print]

end OsloPolicy
