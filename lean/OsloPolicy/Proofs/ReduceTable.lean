import OsloPolicy.Model.Parser
import OsloPolicy.Model.Tables
import OsloPolicy.Generated.RepoTables
import OsloPolicy.Proofs.ParserSound
/-
(`Proofs.ParserSound` is imported for a technical reason only — nothing from it is used.
`fun_induction reduce` makes Lean 4.33 generate auxiliary constants such as
`reduce.match_1.congr_eq_1._sparseCasesOn_15` in the module that first needs them.
`ParserSound` needs them too; two modules that generate them independently cannot be
imported together ("environment already contains …"), so this file has to sit downstream
of the `ParserComplete → ParserDen → ParserSound` chain.)
-/
/-
A *table-driven* reducer: `reduceWith table` interprets any `reducers` table the way
`ParseState.reduce` does, and is proved equal to the hand-written `reduce` of
`Model/Parser.lean` for the table extracted from the Python source
(`Generated.reducers`).
-/
namespace OsloPolicy

/-- token kind of a stack entry, as the Python `tokens` list holds it -/
def Ent.kind : Ent → String
  | .lp => "("
  | .rp => ")"
  | .kAnd => "and"
  | .kOr => "or"
  | .kNot => "not"
  | .str _ => "string"
  | .chk _ => "check"
  | .andE _ => "and_expr"
  | .orE _ => "or_expr"

/-- the check object a stack entry carries in the Python `values` list (`none` for the
entries whose value is a plain string: brackets, keywords, 'string' tokens) -/
def Ent.val? : Ent → Option Tree
  | .chk t => some t
  | .andE ts => some (.and ts)
  | .orE ts => some (.or ts)
  | _ => none

/-- the reduction methods, by name: given the matched entries (bottom→top order, as
Python passes `*values`), the entries to push instead (bottom→top); `none` for an
unknown method name or ill-typed arguments (wrong arity, a plain string where a check
object is used, `add_check`/`pop_check` on something that is not an And/OrCheck) -/
def applyMethod (name : String) (args : List Ent) : Option (List Ent) :=
  if name = "_wrap_check" then
    match args with
    | [_, c, _] => c.val?.map fun t => [.chk t]
    | _ => none
  else if name = "_make_and_expr" then
    match args with
    | [c1, _, c2] => match c1.val?, c2.val? with
      | some a, some b => some [.andE [a, b]]
      | _, _ => none
    | _ => none
  else if name = "_mix_or_and_expr" then
    match args with
    | [o, _, c] => match o.val?, c.val? with
      | some (.or ts), some t => some [.orE (mixLast ts t)]
      | _, _ => none
    | _ => none
  else if name = "_extend_and_expr" then
    match args with
    | [e, _, c] => match e.val?, c.val? with
      | some (.and ts), some t => some [.andE (ts ++ [t])]
      | _, _ => none
    | _ => none
  else if name = "_make_or_expr" then
    match args with
    | [c1, _, c2] => match c1.val?, c2.val? with
      | some a, some b => some [.orE [a, b]]
      | _, _ => none
    | _ => none
  else if name = "_extend_or_expr" then
    match args with
    | [e, _, c] => match e.val?, c.val? with
      | some (.or ts), some t => some [.orE (ts ++ [t])]
      | _, _ => none
    | _ => none
  else if name = "_make_not_expr" then
    match args with
    | [_, c] => c.val?.map fun t => [.chk (.not t)]
    | _ => none
  else none

/-- does the pattern (bottom→top) match the top of the stack (head = top)?
Literally `len(tokens) >= len(p) and tokens[-len(p):] == p` on the Python `tokens`
list, which is the stack bottom→top. -/
def matchesTop (pattern : List String) (st : List Ent) : Bool :=
  Tables.isSuffix pattern (st.reverse.map Ent.kind)

/-- one table row tried on the stack: the pattern matches, the method applies, and the
replacement shrinks the stack (every real row replaces 2 or 3 entries by 1, see
`stepRow_guard`; the guard makes `reduceWith` total for *every* table) -/
def stepRow (row : List String × String) (st : List Ent) : Option (List Ent) :=
  if matchesTop row.1 st then
    match applyMethod row.2 (st.take row.1.length).reverse with
    | some out =>
      if (out.reverse ++ st.drop row.1.length).length < st.length then
        some (out.reverse ++ st.drop row.1.length)
      else none
    | none => none
  else none

/-- one step of `ParseState.reduce`: first table row (in table order) whose pattern
matches and whose method applies -/
def stepWith (table : List (List String × String)) (st : List Ent) : Option (List Ent) :=
  table.findSome? fun row => stepRow row st

theorem stepRow_lt {row st st'} (h : stepRow row st = some st') : st'.length < st.length := by
  unfold stepRow at h
  split at h
  · split at h
    · split at h
      · cases h; assumption
      · cases h
    · cases h
  · cases h

/-- every reduction shrinks the stack: the termination argument of `ParseState.reduce` -/
theorem stepWith_lt {table st st'} (h : stepWith table st = some st') :
    st'.length < st.length := by
  obtain ⟨row, _, hrow⟩ := List.exists_of_findSome?_eq_some h
  exact stepRow_lt hrow

/-- `ParseState.reduce` driven by the table -/
def reduceWith (table : List (List String × String)) (st : List Ent) : List Ent :=
  match _hstep : stepWith table st with
  | some st' => reduceWith table st'
  | none => st
termination_by st.length
decreasing_by exact stepWith_lt _hstep

theorem reduceWith_some {table st st'} (h : stepWith table st = some st') :
    reduceWith table st = reduceWith table st' := by
  rw [reduceWith]; split
  · next st'' h' => rw [h] at h'; cases h'; rfl
  · next h' => rw [h] at h'; cases h'

theorem reduceWith_none {table st} (h : stepWith table st = none) :
    reduceWith table st = st := by
  rw [reduceWith]; split
  · next st'' h' => rw [h] at h'; cases h'
  · rfl

/-- every method pushes exactly one entry … -/
theorem applyMethod_length {name args out} (h : applyMethod name args = some out) :
    out.length = 1 := by
  unfold applyMethod at h
  repeat' split at h
  all_goals first
    | cases h; rfl
    | (simp only [Option.map_eq_some_iff] at h; obtain ⟨_, _, rfl⟩ := h; rfl)
    | cases h

theorem isSuffix_iff {p q : List String} : Tables.isSuffix p q = true ↔ p <:+ q := by
  rw [List.suffix_iff_eq_drop]
  simp only [Tables.isSuffix, Bool.and_eq_true, decide_eq_true_eq, beq_iff_eq]
  constructor
  · rintro ⟨_, h⟩; exact h.symm
  · intro h
    have hl : p.length ≤ q.length := (List.IsSuffix.length_le (List.suffix_iff_eq_drop.2 h))
    exact ⟨hl, h.symm⟩

theorem matchesTop_iff {p : List String} {st : List Ent} :
    matchesTop p st = true ↔ (st.take p.length).map Ent.kind = p.reverse := by
  rw [matchesTop, isSuffix_iff, List.map_reverse, ← List.reverse_prefix, List.reverse_reverse,
    List.prefix_iff_eq_take, List.length_reverse, List.map_take]
  exact eq_comm

theorem matchesTop_eq (p : List String) (st : List Ent) :
    matchesTop p st = ((st.take p.length).map Ent.kind == p.reverse) := by
  rw [Bool.eq_iff_iff, matchesTop_iff, beq_iff_eq]

/-- one step of the hand-written `reduce`: the stack it recurses on, `none` in the
fall-through case.  (The `not` row is listed first only so that this `match` gets its own
compiled matcher instead of sharing `reduce.match_1`; the patterns are disjoint, so the
order is immaterial — `reduceWith_model` below is what ties it to `reduce`.) -/
def reduceStep : List Ent → Option (List Ent)
  | .chk t :: .kNot :: r => some (.chk (.not t) :: r)
  | .rp :: .chk t :: .lp :: r => some (.chk t :: r)
  | .rp :: .andE ts :: .lp :: r => some (.chk (.and ts) :: r)
  | .rp :: .orE ts :: .lp :: r => some (.chk (.or ts) :: r)
  | .chk b :: .kAnd :: .chk a :: r => some (.andE [a, b] :: r)
  | .chk c :: .kAnd :: .orE ts :: r => some (.orE (mixLast ts c) :: r)
  | .chk c :: .kAnd :: .andE ts :: r => some (.andE (ts ++ [c]) :: r)
  | .chk b :: .kOr :: .chk a :: r => some (.orE [a, b] :: r)
  | .chk b :: .kOr :: .andE ts :: r => some (.orE [.and ts, b] :: r)
  | .chk c :: .kOr :: .orE ts :: r => some (.orE (ts ++ [c]) :: r)
  | _ => none

/-- the shrink guard in `stepRow` never rejects a real row: every method pushes one
entry, so a row whose pattern has length ≥ 2 always shrinks the stack -/
theorem stepRow_guard {row : List String × String} {st out : List Ent}
    (hlen : 2 ≤ row.1.length) (hm : matchesTop row.1 st = true)
    (ha : applyMethod row.2 (st.take row.1.length).reverse = some out) :
    stepRow row st = some (out.reverse ++ st.drop row.1.length) := by
  have h1 := applyMethod_length ha
  have h2 := congrArg List.length (matchesTop_iff.1 hm)
  simp only [List.length_map, List.length_take, List.length_reverse] at h2
  unfold stepRow
  rw [if_pos hm, ha]
  simp only [List.length_append, List.length_reverse, List.length_drop, h1]
  rw [if_pos (by omega)]

/-- … and every pattern of the table in the source has length ≥ 2, so for that table the
guard is vacuous: `stepRow` is "pattern matches and method applies". -/
theorem stepRow_guard_generated {row : List String × String} (hr : row ∈ Generated.reducers)
    {st out : List Ent} (hm : matchesTop row.1 st = true)
    (ha : applyMethod row.2 (st.take row.1.length).reverse = some out) :
    stepRow row st = some (out.reverse ++ st.drop row.1.length) := by
  have hall : Generated.reducers.all (fun r => decide (2 ≤ r.1.length)) = true := by decide
  exact stepRow_guard (by simpa using List.all_eq_true.1 hall row hr) hm ha

theorem stepWith_nil (st : List Ent) : stepWith [] st = none := rfl

theorem stepWith_cons (row : List String × String) (t st) :
    stepWith (row :: t) st = (stepRow row st).or (stepWith t st) := by
  simp only [stepWith, List.findSome?_cons]
  cases stepRow row st <;> rfl

theorem stepRow3 (k1 k2 k3 m : String) (a b c : Ent) (r : List Ent) :
    stepRow ([k1, k2, k3], m) (c :: b :: a :: r) =
      if a.kind = k1 ∧ b.kind = k2 ∧ c.kind = k3 then
        (applyMethod m [a, b, c]).map (fun out => out.reverse ++ r)
      else none := by
  unfold stepRow
  simp only [matchesTop_eq, List.length_cons, List.length_nil, List.take_succ_cons, List.take_zero,
    List.map_cons, List.map_nil, List.reverse_cons, List.reverse_nil, List.nil_append,
    List.cons_append, beq_iff_eq, List.cons.injEq, and_true, List.drop_succ_cons, List.drop_zero]
  by_cases h : a.kind = k1 ∧ b.kind = k2 ∧ c.kind = k3
  · rw [if_pos h, if_pos ⟨h.2.2, h.2.1, h.1⟩]
    cases hm : applyMethod m [a, b, c] with
    | none => rfl
    | some out =>
      have := applyMethod_length hm
      match out, this with
      | [x], _ => simp
  · rw [if_neg h, if_neg (fun h' => h ⟨h'.2.2, h'.2.1, h'.1⟩)]

theorem stepRow2 (k1 k2 m : String) (a b : Ent) (r : List Ent) :
    stepRow ([k1, k2], m) (b :: a :: r) =
      if a.kind = k1 ∧ b.kind = k2 then
        (applyMethod m [a, b]).map (fun out => out.reverse ++ r)
      else none := by
  unfold stepRow
  simp only [matchesTop_eq, List.length_cons, List.length_nil, List.take_succ_cons, List.take_zero,
    List.map_cons, List.map_nil, List.reverse_cons, List.reverse_nil, List.nil_append,
    List.cons_append, beq_iff_eq, List.cons.injEq, and_true, List.drop_succ_cons, List.drop_zero]
  by_cases h : a.kind = k1 ∧ b.kind = k2
  · rw [if_pos h, if_pos ⟨h.2, h.1⟩]
    cases hm : applyMethod m [a, b] with
    | none => rfl
    | some out =>
      have := applyMethod_length hm
      match out, this with
      | [x], _ => simp
  · rw [if_neg h, if_neg (fun h' => h ⟨h'.2, h'.1⟩)]


theorem stepRow3_inv {k1 k2 k3 m : String} {st st' : List Ent}
    (h : stepRow ([k1, k2, k3], m) st = some st') :
    ∃ a b c r, st = c :: b :: a :: r ∧ a.kind = k1 ∧ b.kind = k2 ∧ c.kind = k3 ∧
      (applyMethod m [a, b, c]).map (fun out => out.reverse ++ r) = some st' := by
  match st with
  | [] | [_] | [_, _] => simp [stepRow, matchesTop_eq] at h
  | c :: b :: a :: r =>
    rw [stepRow3] at h
    split at h
    · next hk => exact ⟨a, b, c, r, rfl, hk.1, hk.2.1, hk.2.2, h⟩
    · cases h

theorem stepRow2_inv {k1 k2 m : String} {st st' : List Ent}
    (h : stepRow ([k1, k2], m) st = some st') :
    ∃ a b r, st = b :: a :: r ∧ a.kind = k1 ∧ b.kind = k2 ∧
      (applyMethod m [a, b]).map (fun out => out.reverse ++ r) = some st' := by
  match st with
  | [] | [_] => simp [stepRow, matchesTop_eq] at h
  | b :: a :: r =>
    rw [stepRow2] at h
    split at h
    · next hk => exact ⟨a, b, r, rfl, hk.1, hk.2, h⟩
    · cases h

theorem stepRow3_second {k1 k2 k3 m : String} {c b : Ent} {r : List Ent} (h : ¬ b.kind = k2) :
    stepRow ([k1, k2, k3], m) (c :: b :: r) = none := by
  cases r with
  | nil => simp [stepRow, matchesTop_eq]
  | cons a r => rw [stepRow3, if_neg (fun h' => h h'.2.1)]

theorem Ent.kind_lp_inv {a : Ent} (h : a.kind = "(") : a = .lp := by cases a <;> simp [Ent.kind] at h ⊢
theorem Ent.kind_rp_inv {a : Ent} (h : a.kind = ")") : a = .rp := by cases a <;> simp [Ent.kind] at h ⊢
theorem Ent.kind_and_inv {a : Ent} (h : a.kind = "and") : a = .kAnd := by cases a <;> simp [Ent.kind] at h ⊢
theorem Ent.kind_or_inv {a : Ent} (h : a.kind = "or") : a = .kOr := by cases a <;> simp [Ent.kind] at h ⊢
theorem Ent.kind_not_inv {a : Ent} (h : a.kind = "not") : a = .kNot := by cases a <;> simp [Ent.kind] at h ⊢
theorem Ent.kind_check_inv {a : Ent} (h : a.kind = "check") : ∃ t, a = .chk t := by
  cases a <;> simp [Ent.kind] at h ⊢
theorem Ent.kind_andE_inv {a : Ent} (h : a.kind = "and_expr") : ∃ t, a = .andE t := by
  cases a <;> simp [Ent.kind] at h ⊢
theorem Ent.kind_orE_inv {a : Ent} (h : a.kind = "or_expr") : ∃ t, a = .orE t := by
  cases a <;> simp [Ent.kind] at h ⊢

/-- soundness of the table: whatever a row of `Tables.reducers` does, `reduce` does -/
theorem reduceStep_of_stepWith {st st' : List Ent} (h : stepWith Tables.reducers st = some st') :
    reduceStep st = some st' := by
  obtain ⟨row, hmem, hrow⟩ := List.exists_of_findSome?_eq_some h
  simp only [Tables.reducers, List.mem_cons, List.not_mem_nil, or_false] at hmem
  rcases hmem with rfl | rfl | rfl | rfl | rfl | rfl | rfl | rfl | rfl | rfl
  · obtain ⟨a, b, c, r, rfl, ha, hb, hc, hm⟩ := stepRow3_inv hrow
    cases Ent.kind_lp_inv ha; obtain ⟨t, rfl⟩ := Ent.kind_check_inv hb; cases Ent.kind_rp_inv hc
    simpa [applyMethod, Ent.val?, reduceStep] using hm
  · obtain ⟨a, b, c, r, rfl, ha, hb, hc, hm⟩ := stepRow3_inv hrow
    cases Ent.kind_lp_inv ha; obtain ⟨t, rfl⟩ := Ent.kind_andE_inv hb; cases Ent.kind_rp_inv hc
    simpa [applyMethod, Ent.val?, reduceStep] using hm
  · obtain ⟨a, b, c, r, rfl, ha, hb, hc, hm⟩ := stepRow3_inv hrow
    cases Ent.kind_lp_inv ha; obtain ⟨t, rfl⟩ := Ent.kind_orE_inv hb; cases Ent.kind_rp_inv hc
    simpa [applyMethod, Ent.val?, reduceStep] using hm
  · obtain ⟨a, b, c, r, rfl, ha, hb, hc, hm⟩ := stepRow3_inv hrow
    obtain ⟨t, rfl⟩ := Ent.kind_check_inv ha; cases Ent.kind_and_inv hb; obtain ⟨u, rfl⟩ := Ent.kind_check_inv hc
    simpa [applyMethod, Ent.val?, reduceStep] using hm
  · obtain ⟨a, b, c, r, rfl, ha, hb, hc, hm⟩ := stepRow3_inv hrow
    obtain ⟨t, rfl⟩ := Ent.kind_orE_inv ha; cases Ent.kind_and_inv hb; obtain ⟨u, rfl⟩ := Ent.kind_check_inv hc
    simpa [applyMethod, Ent.val?, reduceStep] using hm
  · obtain ⟨a, b, c, r, rfl, ha, hb, hc, hm⟩ := stepRow3_inv hrow
    obtain ⟨t, rfl⟩ := Ent.kind_andE_inv ha; cases Ent.kind_and_inv hb; obtain ⟨u, rfl⟩ := Ent.kind_check_inv hc
    simpa [applyMethod, Ent.val?, reduceStep] using hm
  · obtain ⟨a, b, c, r, rfl, ha, hb, hc, hm⟩ := stepRow3_inv hrow
    obtain ⟨t, rfl⟩ := Ent.kind_check_inv ha; cases Ent.kind_or_inv hb; obtain ⟨u, rfl⟩ := Ent.kind_check_inv hc
    simpa [applyMethod, Ent.val?, reduceStep] using hm
  · obtain ⟨a, b, c, r, rfl, ha, hb, hc, hm⟩ := stepRow3_inv hrow
    obtain ⟨t, rfl⟩ := Ent.kind_andE_inv ha; cases Ent.kind_or_inv hb; obtain ⟨u, rfl⟩ := Ent.kind_check_inv hc
    simpa [applyMethod, Ent.val?, reduceStep] using hm
  · obtain ⟨a, b, c, r, rfl, ha, hb, hc, hm⟩ := stepRow3_inv hrow
    obtain ⟨t, rfl⟩ := Ent.kind_orE_inv ha; cases Ent.kind_or_inv hb; obtain ⟨u, rfl⟩ := Ent.kind_check_inv hc
    simpa [applyMethod, Ent.val?, reduceStep] using hm
  · obtain ⟨a, b, r, rfl, ha, hb, hm⟩ := stepRow2_inv hrow
    cases Ent.kind_not_inv ha; obtain ⟨u, rfl⟩ := Ent.kind_check_inv hb
    simpa [applyMethod, Ent.val?, reduceStep] using hm

/-- completeness of the table: whatever `reduce` does, some row of `Tables.reducers` does -/
theorem stepWith_of_reduceStep (st : List Ent) (h : reduceStep st ≠ none) :
    stepWith Tables.reducers st = reduceStep st := by
  revert h
  unfold reduceStep
  split <;> intro h
  all_goals first
    | exact absurd rfl h
    | simp [Tables.reducers, stepWith_cons, stepWith_nil, stepRow3, stepRow2, stepRow3_second, Ent.kind, applyMethod, Ent.val?]

theorem stepWith_model (st : List Ent) : stepWith Tables.reducers st = reduceStep st := by
  cases h : stepWith Tables.reducers st with
  | some st' => exact (reduceStep_of_stepWith h).symm
  | none =>
    cases h2 : reduceStep st with
    | none => rfl
    | some st' =>
      have := stepWith_of_reduceStep st (by simp [h2])
      rw [h, h2] at this; exact this

/-- the hand-written `reduce` is the iteration of `reduceStep` … -/
theorem reduceWith_model : ∀ st, reduceWith Tables.reducers st = reduce st := by
  intro st
  fun_induction reduce st with
  | case11 st h1 h2 h3 h4 h5 h6 h7 h8 h9 h10 =>
    apply reduceWith_none
    rw [stepWith_model]
    unfold reduceStep
    split <;> first | rfl | (exfalso; simp_all)
  | _ =>
    rename_i ih
    rw [reduceWith_some (by rw [stepWith_model]; rfl)]
    exact ih

/-! ### The order of the rows is irrelevant -/

/-- rows with the same pattern name the same method (so they are the same row) -/
def methodsAgree (t : List (List String × String)) : Bool :=
  t.all fun a => t.all fun b => !(a.1 == b.1) || a.2 == b.2

theorem stepRow_matches {row st st'} (h : stepRow row st = some st') :
    matchesTop row.1 st = true := by
  unfold stepRow at h
  split at h
  · assumption
  · cases h

/-- at most one row can fire on a given stack -/
theorem stepRow_unique {t : List (List String × String)} (hno : Tables.nonOverlapping t = true)
    (hm : methodsAgree t = true) {a b} (ha : a ∈ t) (hb : b ∈ t) {st u v}
    (hu : stepRow a st = some u) (hv : stepRow b st = some v) : a = b := by
  have sa := isSuffix_iff.1 (stepRow_matches hu)
  have sb := isSuffix_iff.1 (stepRow_matches hv)
  simp only [Tables.nonOverlapping, List.all_eq_true, Bool.or_eq_true, beq_iff_eq,
    Bool.not_eq_true', ← Bool.not_eq_true, isSuffix_iff] at hno
  simp only [methodsAgree, List.all_eq_true, Bool.or_eq_true, beq_iff_eq,
    Bool.not_eq_eq_eq_not] at hm
  have h1 : a.1 = b.1 := by
    rcases Nat.le_total a.1.length b.1.length with hl | hl
    · rcases hno a ha b hb with h | h
      · exact h
      · exact absurd (List.suffix_of_suffix_length_le sa sb hl) h
    · rcases hno b hb a ha with h | h
      · exact h.symm
      · exact absurd (List.suffix_of_suffix_length_le sb sa hl) h
  have h2 : a.2 = b.2 := by
    rcases hm a ha b hb with h | h
    · exact absurd h1 (by simpa using h)
    · exact h
  exact Prod.ext h1 h2

theorem findSome?_perm_unique {α β} {f : α → Option β} {l₁ l₂ : List α} (hp : l₁.Perm l₂)
    (huniq : ∀ a ∈ l₁, ∀ b ∈ l₁, ∀ u v, f a = some u → f b = some v → u = v) :
    l₁.findSome? f = l₂.findSome? f := by
  cases h₁ : l₁.findSome? f with
  | none =>
    rw [List.findSome?_eq_none_iff] at h₁
    exact (List.findSome?_eq_none_iff.2 fun x hx => h₁ x (hp.mem_iff.2 hx)).symm
  | some u =>
    obtain ⟨a, ha, hfa⟩ := List.exists_of_findSome?_eq_some h₁
    cases h₂ : l₂.findSome? f with
    | none =>
      rw [List.findSome?_eq_none_iff] at h₂
      rw [h₂ a (hp.mem_iff.1 ha)] at hfa; cases hfa
    | some v =>
      obtain ⟨b, hb, hfb⟩ := List.exists_of_findSome?_eq_some h₂
      rw [huniq a ha b (hp.mem_iff.2 hb) u v hfa hfb]

/-- order of the rows is irrelevant when no pattern is a proper suffix of another and
rows with equal patterns agree on the method: at most one row can match a given stack.

`nonOverlapping` alone is NOT enough (it accepts two rows with the *same* pattern):
see `stepWith_perm_needs_methodsAgree` below. -/
theorem stepWith_perm (t₁ t₂ : List (List String × String)) (hp : t₁.Perm t₂)
    (hno : Tables.nonOverlapping t₁ = true) (hm : methodsAgree t₁ = true) (st : List Ent) :
    stepWith t₁ st = stepWith t₂ st := by
  apply findSome?_perm_unique hp
  intro a ha b hb u v hu hv
  cases stepRow_unique hno hm ha hb hu hv
  rw [hu] at hv; cases hv; rfl

/-- Counterexample to `stepWith_perm` without `methodsAgree`: two rows with the same
pattern and different methods are `nonOverlapping`, yet swapping them changes the result
(`a and b` reduces to an and-expression or to an or-expression). -/
theorem stepWith_perm_needs_methodsAgree :
    ∃ t₁ t₂ st, t₁.Perm t₂ ∧ Tables.nonOverlapping t₁ = true ∧ stepWith t₁ st ≠ stepWith t₂ st :=
  ⟨[(["check", "and", "check"], "_make_and_expr"), (["check", "and", "check"], "_make_or_expr")],
   [(["check", "and", "check"], "_make_or_expr"), (["check", "and", "check"], "_make_and_expr")],
   [.chk .tt, .kAnd, .chk .ff], List.Perm.swap _ _ _, by decide,
   by simp [stepWith_cons, stepWith_nil, stepRow3, Ent.kind, applyMethod, Ent.val?]⟩

theorem reduceWith_congr {t₁ t₂ : List (List String × String)}
    (h : ∀ st, stepWith t₁ st = stepWith t₂ st) : ∀ st, reduceWith t₁ st = reduceWith t₂ st := by
  intro st
  fun_induction reduceWith t₁ st with
  | case1 st st' hs ih => rw [ih, ← reduceWith_some (h st ▸ hs)]
  | case2 st hs => rw [reduceWith_none (h st ▸ hs)]

/-- THE TIE: the table read from the source today drives exactly the modelled parser.
Everything this proof knows about `Generated.reducers` is re-checked by `decide` on the
table as generated: it is a permutation of `Tables.reducers`, no pattern is a suffix of
another, equal patterns have equal methods.  A changed table breaks the first `decide`. -/
theorem reduceWith_generated : ∀ st, reduceWith Generated.reducers st = reduce st := by
  intro st
  -- only these three facts about `Generated.reducers` are used, each re-checked by `decide`
  have hp : Generated.reducers.Perm Tables.reducers := List.isPerm_iff.1 (by decide)
  have hno : Tables.nonOverlapping Generated.reducers = true := by decide
  have hm : methodsAgree Generated.reducers = true := by decide
  rw [reduceWith_congr (stepWith_perm _ _ hp hno hm) st, reduceWith_model]

end OsloPolicy
