import OsloPolicy.Spec.Grammar
/-
The greedy shift-reduce parser accepts every sentence of the documented grammar and
leaves exactly `sem0 e` on its stack (simulation by mutual induction on the grammar).
-/
namespace OsloPolicy

def entTree : Ent → Tree
  | .chk t => t
  | .andE ts => .and ts
  | .orE ts => .or ts
  | _ => .ff

def ent1 : List Tree → Ent
  | [x] => .chk x
  | ts => .andE ts

def toOrList : Ent → List Tree
  | .chk x => [x]
  | .andE ts => [.and ts]
  | .orE ts => ts
  | _ => []

def orCtx (l : Ent) : List Tree → Ent
  | [] => l
  | f :: rest => .orE (rest.foldl mixLast (toOrList l ++ [f]))

mutual
def sem2 : E 2 → Tree
  | .leaf t => t
  | .paren e => entTree (sem0 e)
  | .not e => Tree.not (sem2 e)
def sem1 : E 1 → List Tree
  | .up1 e => [sem2 e]
  | .and a b => sem1 a ++ [sem2 b]
def sem0 : E 0 → Ent
  | .up0 e => ent1 (sem1 e)
  | .or l r => orCtx (sem0 l) (sem1 r)
end

/-- The tree the parser builds for a sentence. -/
def build (e : E 0) : Tree := entTree (sem0 e)

theorem reduce_orE (ts) (r) : reduce (.orE ts :: r) = .orE ts :: r := by
  unfold reduce; rfl
theorem reduce_andE (ts) (r) : reduce (.andE ts :: r) = .andE ts :: r := by
  unfold reduce; rfl
theorem reduce_kOr (r) : reduce (.kOr :: r) = .kOr :: r := by
  unfold reduce; rfl
theorem reduce_kAnd (r) : reduce (.kAnd :: r) = .kAnd :: r := by
  unfold reduce; rfl
theorem reduce_kNot (r) : reduce (.kNot :: r) = .kNot :: r := by
  unfold reduce; rfl
theorem reduce_lp (r) : reduce (.lp :: r) = .lp :: r := by
  unfold reduce; rfl
theorem reduce_str (s r) : reduce (.str s :: r) = .str s :: r := by
  unfold reduce; rfl

def Quiet : List Ent → Prop
  | .kAnd :: _ | .kOr :: _ | .kNot :: _ => False
  | _ => True

theorem reduce_chk_quiet (t) (r) (h : Quiet r) : reduce (.chk t :: r) = .chk t :: r := by
  unfold reduce
  split <;> simp_all [Quiet]

theorem run_append (st) (a b : List Tok) : run st (a ++ b) = run (run st a) b := by
  simp [run, List.foldl_append]

theorem run_cons (st) (a : Tok) (b : List Tok) : run st (a :: b) = run (shift st a) b := rfl
theorem run_nil (st) : run st [] = st := rfl

def IsNT : Ent → Prop
  | .chk _ | .andE _ | .orE _ => True
  | _ => False

theorem ent1_nt (l) : IsNT (ent1 l) := by
  unfold ent1; split <;> trivial

theorem orCtx_nt (l ops) (h : IsNT l) : IsNT (orCtx l ops) := by
  cases ops
  · simpa [orCtx] using h
  · simp [orCtx, IsNT]

theorem sem1_ne : (e : E 1) → sem1 e ≠ []
  | .up1 e => by simp [sem1]
  | .and a b => by simp [sem1]

theorem sem0_nt : (e : E 0) → IsNT (sem0 e)
  | .up0 e => by simp [sem0, ent1_nt]
  | .or l r => by simp only [sem0]; exact orCtx_nt _ _ (sem0_nt l)

theorem reduce_chk_or (t X r) (h : IsNT X) :
    reduce (.chk t :: .kOr :: X :: r) = .orE (toOrList X ++ [t]) :: r := by
  cases X <;> simp [IsNT] at h <;> (unfold reduce; simp [toOrList, reduce_orE])

theorem reduce_chk_and_orE (t ts r) :
    reduce (.chk t :: .kAnd :: .orE ts :: r) = .orE (mixLast ts t) :: r := by
  unfold reduce; simp [reduce_orE]

theorem reduce_chk_and_andE (t ts r) :
    reduce (.chk t :: .kAnd :: .andE ts :: r) = .andE (ts ++ [t]) :: r := by
  unfold reduce; simp [reduce_andE]

theorem reduce_chk_and_chk (t a r) :
    reduce (.chk t :: .kAnd :: .chk a :: r) = .andE [a, t] :: r := by
  unfold reduce; simp [reduce_andE]

theorem reduce_chk_not (t r) :
    reduce (.chk t :: .kNot :: r) = reduce (.chk (.not t) :: r) := by
  conv => lhs; unfold reduce

theorem reduce_rp (X r) (h : IsNT X) :
    reduce (.rp :: X :: .lp :: r) = reduce (.chk (entTree X) :: r) := by
  cases X <;> simp [IsNT] at h <;> (conv => lhs; unfold reduce) <;> simp [entTree]

mutual
theorem run2 : (e : E 2) → ∀ st, run st e.render = reduce (.chk (sem2 e) :: st)
  | .leaf t, st => by simp [E.render, run_cons, run_nil, shift, Tok.ent, sem2]
  | .not e, st => by
      simp only [E.render, run_cons, shift, Tok.ent, reduce_kNot, sem2]
      rw [run2 e, reduce_chk_not]
  | .paren e, st => by
      simp only [E.render, run_cons, run_append, shift, Tok.ent, reduce_lp, sem2, run_nil]
      rw [run0 e (.lp :: st) (by simp [Quiet]), reduce_rp _ _ (sem0_nt e)]
theorem run1q : (e : E 1) → ∀ st, Quiet st → run st e.render = ent1 (sem1 e) :: st
  | .up1 e, st, h => by
      simp only [E.render, sem1, ent1]
      rw [run2 e, reduce_chk_quiet _ _ h]
  | .and a b, st, h => by
      simp only [E.render, run_append, run_cons, shift, Tok.ent, sem1]
      rw [run1q a st h, reduce_kAnd, run2 b]
      have hne := sem1_ne a
      generalize sem1 a = l at hne
      match l, hne with
      | [x], _ => simp [ent1, reduce_chk_and_chk]
      | x :: y :: l, _ => simp [ent1, reduce_chk_and_andE]
theorem run1o : (e : E 1) → ∀ st X, IsNT X →
    run (.kOr :: X :: st) e.render = orCtx X (sem1 e) :: st
  | .up1 e, st, X, h => by
      simp only [E.render, sem1, orCtx, List.foldl_nil]
      rw [run2 e, reduce_chk_or _ _ _ h]
  | .and a b, st, X, h => by
      simp only [E.render, run_append, run_cons, shift, Tok.ent, sem1]
      rw [run1o a st X h]
      have hne := sem1_ne a
      generalize sem1 a = l at hne
      match l, hne with
      | f :: rest, _ =>
        simp only [orCtx, reduce_kAnd, List.cons_append, List.foldl_append, List.foldl_cons, List.foldl_nil]
        rw [run2 b, reduce_chk_and_orE]
theorem run0 : (e : E 0) → ∀ st, Quiet st → run st e.render = sem0 e :: st
  | .up0 e, st, h => by simp only [E.render, sem0]; exact run1q e st h
  | .or l r, st, h => by
      simp only [E.render, run_append, run_cons, shift, Tok.ent, sem0]
      rw [run0 l st h, reduce_kOr, run1o r st _ (sem0_nt l)]
end

theorem parseToks_render (e : E 0) : parseToks e.render = some (build e) := by
  unfold parseToks build
  rw [run0 e [] (by simp [Quiet])]
  have := sem0_nt e
  generalize sem0 e = X at this
  cases X <;> simp_all [IsNT, result, entTree]

end OsloPolicy
