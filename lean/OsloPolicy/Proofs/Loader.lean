import OsloPolicy.Spec.Layers
/-
C10 / C12: the mtime-cached loader refines "compute from the current files".
-/
namespace OsloPolicy

/-! ### association lists and the defaults merge -/

theorem afind_ainsert_ld {α} (k k' : Str) (v : α) (l : List (Str × α)) :
    afind k (ainsert k' v l) = if k' = k then some v else afind k l := by
  induction l with
  | nil => simp [ainsert, afind]
  | cons p r ih =>
    obtain ⟨a, b⟩ := p
    simp only [ainsert]
    split
    · rename_i h; subst h; simp only [afind]; split <;> rfl
    · rename_i h; simp only [afind, ih]; split
      · rename_i h2; subst h2; rw [if_neg (fun h3 => h h3.symm)]
      · rfl

theorem mergeDefaults_nil (en fr s) : mergeDefaults en fr [] s = s := rfl

theorem mergeDefaults_cons (en fr d regs s) :
    mergeDefaults en fr (d :: regs) s =
      mergeDefaults en fr regs
        (if (afind d.name s).isSome then s else ainsert d.name (defaultCheck en fr d) s) := rfl

theorem mergeDefaults_found (en fr) (k : Str) (regs : List RuleDefault) (s : Store)
    (h : (afind k s).isSome = true) : (afind k (mergeDefaults en fr regs s)).isSome = true := by
  induction regs generalizing s with
  | nil => exact h
  | cons d regs ih =>
    rw [mergeDefaults_cons]
    apply ih
    split
    · exact h
    · rw [afind_ainsert_ld]; split <;> simp [h]

theorem mergeDefaults_mem (en fr) (regs : List RuleDefault) (s : Store) (d : RuleDefault)
    (hd : d ∈ regs) : (afind d.name (mergeDefaults en fr regs s)).isSome = true := by
  induction regs generalizing s with
  | nil => cases hd
  | cons d' regs ih =>
    rw [mergeDefaults_cons]
    rcases List.mem_cons.1 hd with h | h
    · subst h
      apply mergeDefaults_found
      split
      · assumption
      · rw [afind_ainsert_ld]; simp
    · exact ih _ h

theorem mergeDefaults_fix (en fr) (regs : List RuleDefault) (s : Store)
    (h : ∀ d ∈ regs, (afind d.name s).isSome = true) : mergeDefaults en fr regs s = s := by
  induction regs with
  | nil => rfl
  | cons d regs ih =>
    rw [mergeDefaults_cons, if_pos (h d (List.mem_cons_self ..))]
    exact ih fun d' hd' => h d' (List.mem_cons_of_mem _ hd')

/-- 3. merging defaults twice is merging once -/
theorem mergeDefaults_idem (enforceNew : Bool) (fr : Content) (regs : List RuleDefault)
    (rules : Store) :
    mergeDefaults enforceNew fr regs (mergeDefaults enforceNew fr regs rules)
      = mergeDefaults enforceNew fr regs rules :=
  mergeDefaults_fix _ _ _ _ fun d hd => mergeDefaults_mem _ _ _ _ d hd

/-! ### the directory layers -/

theorem applyFold_eq (l : List Entry) (e : Enf) :
    l.foldl (fun e f =>
      { e with rules := updStore e.rules f.content,
               fileRules := updFileRules e.fileRules f.content }) e =
    { e with rules := (l.map (·.content)).foldl updStore e.rules,
             fileRules := (l.map (·.content)).foldl updFileRules e.fileRules } := by
  induction l generalizing e with
  | nil => rfl
  | cons f l ih => simp only [List.foldl_cons, ih, List.map_cons]

theorem applyDir_eq (d : Dir) (e : Enf) :
    applyDir d e =
    { e with rules := (d.visible.map (·.content)).foldl updStore e.rules,
             fileRules := (d.visible.map (·.content)).foldl updFileRules e.fileRules } :=
  applyFold_eq _ _

theorem dirLayers_nil : dirLayers [] = [] := rfl
theorem dirLayers_none_ld (ds) : dirLayers (none :: ds) = dirLayers ds := by
  simp [dirLayers]
theorem dirLayers_some (d ds) :
    dirLayers (some d :: ds) = d.visible.map (·.content) ++ dirLayers ds := by
  simp [dirLayers]

theorem applyDirs_nil (e : Enf) : applyDirs [] e = e := rfl
theorem applyDirs_none (ds) (e : Enf) : applyDirs (none :: ds) e = applyDirs ds e := rfl
theorem applyDirs_some (d ds) (e : Enf) :
    applyDirs (some d :: ds) e = applyDirs ds (applyDir d e) := rfl

theorem applyDirs_eq (dirs : List (Option Dir)) (e : Enf) :
    applyDirs dirs e =
    { e with rules := (dirLayers dirs).foldl updStore e.rules,
             fileRules := (dirLayers dirs).foldl updFileRules e.fileRules } := by
  induction dirs generalizing e with
  | nil => rfl
  | cons od ds ih =>
    cases od with
    | none => rw [applyDirs_none, dirLayers_none_ld, ih]
    | some d =>
      rw [applyDirs_some, dirLayers_some, ih, applyDir_eq]
      simp only [List.foldl_append]

/-- 1. closed form of the files part -/
theorem applyDirs_rules (dirs : List (Option Dir)) (e : Enf) :
    (applyDirs dirs e).rules = (dirLayers dirs).foldl updStore e.rules := by
  rw [applyDirs_eq]

theorem applyDirs_fileRules (dirs : List (Option Dir)) (e : Enf) :
    (applyDirs dirs e).fileRules = (dirLayers dirs).foldl updFileRules e.fileRules := by
  rw [applyDirs_eq]

theorem applyDirs_resolved (dirs) (e : Enf) : (applyDirs dirs e).resolved = e.resolved := by
  rw [applyDirs_eq]
theorem applyDirs_mainCache (dirs) (e : Enf) : (applyDirs dirs e).mainCache = e.mainCache := by
  rw [applyDirs_eq]
theorem applyDirs_dirMt (dirs) (e : Enf) : (applyDirs dirs e).dirMt = e.dirMt := by
  rw [applyDirs_eq]

theorem dirLayers_of_not_anyExists (dirs : List (Option Dir)) (h : anyExists dirs = false) :
    dirLayers dirs = [] := by
  induction dirs with
  | nil => rfl
  | cons od ds ih =>
    cases od with
    | none => rw [dirLayers_none_ld]; exact ih (by simpa [anyExists] using h)
    | some d => simp [anyExists] at h

/-! ### the main file -/

/-- what the main file contributes to the store / to `file_rules` -/
def mainStore (fs : FS) : Store :=
  match fs.main with | some (c, _) => updStore [] c | none => []
def mainFR (fs : FS) : Content :=
  match fs.main with | some (c, _) => updFileRules [] c | none => []

theorem filesStore_eq (fs : FS) :
    filesStore fs = (dirLayers fs.dirs).foldl updStore (mainStore fs) := by
  unfold filesStore fileLayers mainStore
  cases fs.main with
  | none => simp
  | some p => obtain ⟨c, t⟩ := p; simp [List.foldl_cons]

theorem filesRules_eq (fs : FS) :
    filesRules fs = (dirLayers fs.dirs).foldl updFileRules (mainFR fs) := by
  unfold filesRules fileLayers mainFR
  cases fs.main with
  | none => simp
  | some p => obtain ⟨c, t⟩ := p; simp [List.foldl_cons]

/-- would `_load_policy_file` (no force) report a change? -/
def trigCore (e : Enf) (fs : FS) : Bool :=
  match fs.main with
  | none => true
  | some (_, t) => match e.mainCache with
    | none => true
    | some (_, mt) => decide (t > mt) || e.rules.isEmpty

/-- cached data is what the file holds whenever the cache would be used -/
def CacheOK (e : Enf) (fs : FS) : Prop :=
  ∀ data mt c t, e.mainCache = some (data, mt) → fs.main = some (c, t) → t ≤ mt → data = c

theorem loadMainC_dirMt (e fs c) : (loadMainC e fs c).1.dirMt = e.dirMt := by
  unfold loadMainC; split <;> (try split) <;> (try split) <;> rfl

theorem loadMainC_resolved (e fs c) : (loadMainC e fs c).1.resolved = e.resolved := by
  unfold loadMainC; split <;> (try split) <;> (try split) <;> rfl

theorem loadMain_dirMt (e fs force) : (loadMain e fs force).1.dirMt = e.dirMt :=
  loadMainC_dirMt _ _ _

theorem loadMain_resolved (e fs force) : (loadMain e fs force).1.resolved = e.resolved :=
  loadMainC_resolved _ _ _

theorem loadMain_true_spec (e : Enf) (fs : FS) :
    (loadMain e fs true).2 = true ∧ (loadMain e fs true).1.rules = mainStore fs ∧
    (loadMain e fs true).1.fileRules = mainFR fs ∧
    ((loadMain e fs true).1.mainCache = fs.main) := by
  unfold loadMain loadMainC mainStore mainFR
  cases hm : fs.main with
  | none => simp
  | some p => obtain ⟨c, t⟩ := p; simp

theorem loadMain_false_spec (e : Enf) (fs : FS) (hc : CacheOK e fs) :
    (loadMain e fs false).2 = trigCore e fs ∧
    (loadMain e fs false).1.rules = (if trigCore e fs then mainStore fs else e.rules) ∧
    (loadMain e fs false).1.fileRules = (if trigCore e fs then mainFR fs else e.fileRules) := by
  unfold loadMain loadMainC trigCore mainStore mainFR
  cases hm : fs.main with
  | none => simp
  | some p =>
    obtain ⟨c, t⟩ := p
    cases hcache : e.mainCache with
    | none => simp
    | some q =>
      obtain ⟨data, mt⟩ := q
      by_cases hgt : t > mt
      · simp [hgt]
      · by_cases hemp : e.rules.isEmpty
        · have := hc data mt c t hcache hm (by omega)
          simp [hgt, hemp, this]
        · simp [hgt, hemp]

/-- the cache entry after `_load_policy_file`: the old one, or the file as it is now -/
theorem loadMain_mainCache (e : Enf) (fs : FS) (force : Bool) :
    (loadMain e fs force).1.mainCache = e.mainCache ∨
    (loadMain e fs force).1.mainCache = fs.main ∨
    (loadMain e fs force).1.mainCache = none := by
  unfold loadMain loadMainC
  cases hm : fs.main with
  | none => cases force <;> simp
  | some p =>
    obtain ⟨c, t⟩ := p
    cases force with
    | true => simp
    | false =>
      cases hcache : e.mainCache with
      | none => simp
      | some q =>
        obtain ⟨data, mt⟩ := q
        by_cases hgt : t > mt
        · simp [hgt]
        · by_cases hemp : e.rules.isEmpty <;> simp [hgt, hemp]

/-! ### the directory scan -/

theorem scanDirs_exists (dirs : List (Option Dir)) (mts : List Nat)
    (h : (scanDirs dirs mts).2 = true) : anyExists dirs = true := by
  induction dirs generalizing mts with
  | nil => simp [scanDirs] at h
  | cons d ds ih =>
    cases mts with
    | nil => cases d <;> simp [scanDirs] at h
    | cons mt mts =>
      cases d with
      | none => simp [scanDirs] at h; simpa [anyExists] using ih mts h
      | some d => simp [anyExists]

theorem scanDirs_length (dirs : List (Option Dir)) (mts : List Nat) :
    (scanDirs dirs mts).1.length = mts.length := by
  induction dirs generalizing mts with
  | nil => simp [scanDirs]
  | cons d ds ih =>
    cases mts with
    | nil => cases d <;> simp [scanDirs]
    | cons mt mts =>
      cases d with
      | none => simp [scanDirs, ih]
      | some d => simp only [scanDirs]; split <;> simp [ih]

/-! ### closed form of `load` -/

/-- `load` before the defaults merge -/
def loadCore (e : Enf) (fs : FS) (force : Bool) : Enf :=
  let resolved := e.resolved || fs.main.isSome
  let e0 : Enf := { e with resolved := resolved }
  let p : Enf × Bool := if resolved then loadMain e0 fs force else (e0, false)
  let s := scanDirs fs.dirs p.1.dirMt
  let e2 : Enf := { p.1 with dirMt := s.1 }
  if (force || p.2 || s.2) && anyExists fs.dirs then
    applyDirs fs.dirs
      (if resolved then (if !p.2 then (loadMain e2 fs true).1 else e2)
       else { e2 with rules := [], fileRules := [] })
  else e2

theorem load_eq (en regs) (e : Enf) (fs : FS) (force : Bool) :
    load en regs e fs force =
      { loadCore e fs force with
        rules := mergeDefaults en (loadCore e fs force).fileRules regs (loadCore e fs force).rules } := by
  unfold load loadCore
  rfl

def dirTrig (e : Enf) (fs : FS) : Bool := (scanDirs fs.dirs e.dirMt).2

/-- does this `load_rules` call re-read everything? -/
def trig (e : Enf) (fs : FS) (force : Bool) : Bool :=
  ((e.resolved || fs.main.isSome) && (force || trigCore e fs)) || dirTrig e fs ||
    (force && anyExists fs.dirs)

theorem loadMain_true_snd (e fs) : (loadMain e fs true).2 = true := (loadMain_true_spec e fs).1
theorem loadMain_true_rules (e fs) : (loadMain e fs true).1.rules = mainStore fs :=
  (loadMain_true_spec e fs).2.1
theorem loadMain_true_fileRules (e fs) : (loadMain e fs true).1.fileRules = mainFR fs :=
  (loadMain_true_spec e fs).2.2.1

theorem loadCore_closed (e : Enf) (fs : FS) (force : Bool) (hc : CacheOK e fs) :
    (loadCore e fs force).rules = (if trig e fs force then filesStore fs else e.rules) ∧
    (loadCore e fs force).fileRules = (if trig e fs force then filesRules fs else e.fileRules) := by
  unfold loadCore trig dirTrig
  rw [filesStore_eq, filesRules_eq]
  by_cases hres : (e.resolved || fs.main.isSome) = true
  · simp only [hres, if_true, Bool.true_and, loadMain_dirMt]
    cases force with
    | true =>
      by_cases hex : anyExists fs.dirs = true
      · simp [hex, applyDirs_eq, loadMain_true_snd, loadMain_true_rules, loadMain_true_fileRules]
      · simp only [Bool.not_eq_true] at hex
        simp [hex, loadMain_true_snd, loadMain_true_rules, loadMain_true_fileRules,
          dirLayers_of_not_anyExists _ hex]
    | false =>
      obtain ⟨h2, hr, hf⟩ := loadMain_false_spec { e with resolved := true } fs hc
      have htc : trigCore { e with resolved := true } fs = trigCore e fs := rfl
      rw [htc] at h2 hr hf
      by_cases htr : trigCore e fs = true
      · simp only [htr, if_true] at hr hf
        by_cases hex : anyExists fs.dirs = true
        · simp [htr, h2, hex, hr, hf, applyDirs_eq]
        · simp only [Bool.not_eq_true] at hex
          simp [htr, h2, hex, hr, hf, dirLayers_of_not_anyExists _ hex]
      · simp only [Bool.not_eq_true] at htr
        simp only [htr, Bool.false_eq_true, if_false] at hr hf
        by_cases hup : (scanDirs fs.dirs e.dirMt).2 = true
        · have hex := scanDirs_exists _ _ hup
          simp [htr, h2, hup, hex, applyDirs_eq, loadMain_true_rules, loadMain_true_fileRules]
        · simp only [Bool.not_eq_true] at hup
          simp [htr, h2, hup, hr, hf]
  · simp only [Bool.not_eq_true] at hres
    have hmain : fs.main = none := by
      cases hm : fs.main <;> simp_all
    simp only [hres, Bool.false_eq_true, if_false, Bool.false_and, Bool.false_or, Bool.or_false]
    by_cases hup : (scanDirs fs.dirs e.dirMt).2 = true
    · have hex := scanDirs_exists _ _ hup
      simp [hup, hex, applyDirs_eq, mainStore, mainFR, hmain]
    · simp only [Bool.not_eq_true] at hup
      by_cases hex : anyExists fs.dirs = true
      · cases force <;> simp [hup, hex, applyDirs_eq, mainStore, mainFR, hmain]
      · simp only [Bool.not_eq_true] at hex
        simp [hup, hex]

/-- closed form of `load`, rules and file rules -/
theorem load_closed (en regs) (e : Enf) (fs : FS) (force : Bool) (hc : CacheOK e fs) :
    (load en regs e fs force).rules =
      (if trig e fs force then compute en regs fs else mergeDefaults en e.fileRules regs e.rules) ∧
    (load en regs e fs force).fileRules =
      (if trig e fs force then filesRules fs else e.fileRules) := by
  obtain ⟨h1, h2⟩ := loadCore_closed e fs force hc
  rw [load_eq]
  simp only [h1, h2]
  cases trig e fs force <;> simp [compute]

/-! ### the other fields after `load` -/

theorem load_resolved (en regs) (e : Enf) (fs : FS) (force : Bool) :
    (load en regs e fs force).resolved = (e.resolved || fs.main.isSome) := by
  rw [load_eq]; unfold loadCore
  simp only []
  generalize (e.resolved || fs.main.isSome) = r
  cases r <;> simp only [if_true, Bool.false_eq_true, if_false] <;>
    split <;> (try split) <;> simp [applyDirs_resolved, loadMain_resolved]

theorem load_dirMt (en regs) (e : Enf) (fs : FS) (force : Bool) :
    (load en regs e fs force).dirMt = (scanDirs fs.dirs e.dirMt).1 := by
  rw [load_eq]; unfold loadCore
  simp only []
  generalize (e.resolved || fs.main.isSome) = r
  cases r <;> simp only [if_true, Bool.false_eq_true, if_false] <;>
    split <;> (try split) <;> simp [applyDirs_dirMt, loadMain_dirMt]

theorem load_mainCache (en regs) (e : Enf) (fs : FS) (force : Bool) :
    (load en regs e fs force).mainCache = e.mainCache ∨
    (load en regs e fs force).mainCache = fs.main ∨
    (load en regs e fs force).mainCache = none := by
  rw [load_eq]; unfold loadCore
  simp only []
  generalize (e.resolved || fs.main.isSome) = r
  cases r
  · simp only [Bool.false_eq_true, if_false]
    split <;> simp [applyDirs_mainCache]
  · simp only [if_true]
    have h1 := loadMain_mainCache { e with resolved := true } fs force
    split
    · split
      · simp [applyDirs_mainCache, (loadMain_true_spec _ fs).2.2.2]
      · simpa [applyDirs_mainCache] using h1
    · simpa using h1

/-! ### modification times -/

theorem foldl_max_ge (es : List Entry) (m : Nat) :
    m ≤ es.foldl (fun m e => max m e.mtime) m := by
  induction es generalizing m with
  | nil => exact Nat.le_refl _
  | cons e es ih => exact Nat.le_trans (Nat.le_max_left _ _) (ih _)

theorem foldl_max_mem (es : List Entry) (m : Nat) (e : Entry) (h : e ∈ es) :
    e.mtime ≤ es.foldl (fun m e => max m e.mtime) m := by
  induction es generalizing m with
  | nil => cases h
  | cons x es ih =>
    rcases List.mem_cons.1 h with h | h
    · subst h; exact Nat.le_trans (Nat.le_max_right _ _) (foldl_max_ge _ _)
    · exact ih _ h

theorem foldl_max_le (es : List Entry) (m B : Nat) (hm : m ≤ B) (h : ∀ e ∈ es, e.mtime ≤ B) :
    es.foldl (fun m e => max m e.mtime) m ≤ B := by
  induction es generalizing m with
  | nil => exact hm
  | cons x es ih =>
    refine ih _ (Nat.max_le.2 ⟨hm, h x (List.mem_cons_self ..)⟩)
      fun e he => h e (List.mem_cons_of_mem _ he)

/-- every time in the directory is in `[1, clock]` -/
def DirOK (clock : Nat) (d : Dir) : Prop :=
  (1 ≤ d.mtime ∧ d.mtime ≤ clock) ∧ ∀ e ∈ d.entries, 1 ≤ e.mtime ∧ e.mtime ≤ clock

theorem Dir.le_newest (d : Dir) : d.mtime ≤ d.newest := foldl_max_ge _ _
theorem Dir.mem_le_newest (d : Dir) (e : Entry) (h : e ∈ d.entries) : e.mtime ≤ d.newest :=
  foldl_max_mem _ _ _ h
theorem Dir.newest_le (d : Dir) (B : Nat) (h : DirOK B d) : d.newest ≤ B :=
  foldl_max_le _ _ _ h.1.2 fun e he => (h.2 e he).2

theorem DirOK.mono {c c' : Nat} {d : Dir} (h : DirOK c d) (hc : c ≤ c') : DirOK c' d :=
  ⟨⟨h.1.1, Nat.le_trans h.1.2 hc⟩, fun e he => ⟨(h.2 e he).1, Nat.le_trans (h.2 e he).2 hc⟩⟩

theorem FS.Stamped.mono {fs : FS} {c c' : Nat} (h : FS.Stamped fs c) (hc : c ≤ c') :
    FS.Stamped fs c' :=
  ⟨fun x t hx => ⟨(h.1 x t hx).1, Nat.le_trans (h.1 x t hx).2 hc⟩,
   fun d hd => DirOK.mono (h.2 d hd) hc⟩

theorem scanDirs_bound (B : Nat) (ds : List (Option Dir)) (mts : List Nat)
    (hm : ∀ mt ∈ mts, mt ≤ B) (hd : ∀ d, some d ∈ ds → d.newest ≤ B) :
    ∀ mt ∈ (scanDirs ds mts).1, mt ≤ B := by
  induction ds generalizing mts with
  | nil => simpa [scanDirs] using hm
  | cons od ds ih =>
    cases mts with
    | nil => cases od <;> simp [scanDirs]
    | cons mt mts =>
      have ih' := ih mts (fun m h => hm m (List.mem_cons_of_mem _ h))
        (fun d h => hd d (List.mem_cons_of_mem _ h))
      have hmt := hm mt (List.mem_cons_self ..)
      cases od with
      | none =>
        simp only [scanDirs]
        intro m h
        rcases List.mem_cons.1 h with h | h
        · omega
        · exact ih' m h
      | some d =>
        have hdn := hd d (List.mem_cons_self ..)
        simp only [scanDirs]
        split <;> intro m h <;> rcases List.mem_cons.1 h with h | h
        · omega
        · exact ih' m h
        · omega
        · exact ih' m h

/-! ### the history invariant -/

/-- every cached mtime is at most the clock of the last load -/
def CacheBound (e : Enf) (cL : Nat) : Prop :=
  (∀ data mt, e.mainCache = some (data, mt) → mt ≤ cL) ∧ (∀ mt ∈ e.dirMt, mt ≤ cL)

/-- main file: unchanged since the last load, or stamped after it, or gone while the path
is resolved; and a path never resolved means there was no main file at the last load -/
def MainRel (e : Enf) (fsL fs : FS) (cL : Nat) : Prop :=
  (fs.main = fsL.main ∨ (∃ c t, fs.main = some (c, t) ∧ t > cL) ∨
    (fs.main = none ∧ e.resolved = true)) ∧
  (e.resolved = false → fsL.main = none)

/-- each directory slot (ghost snapshot on the left, current on the right): unchanged since
the last load, or existing and stamped after it.

In the second case the ghost slot is left arbitrary.  Demanding "`none` in one iff `none` in
the other" would be stronger than anything the proofs use, and it is incompatible with taking
the *empty* file system as the ghost of the initial state (an existing directory faces a
`none` ghost slot there).  What is used is only: a current slot that is `none` is `same`, so
its ghost slot is `none` too (`dirs_same_of_none`). -/
inductive DirRel (cL : Nat) : List (Option Dir) → List (Option Dir) → Prop
  | nil : DirRel cL [] []
  | same {d ds ds'} : DirRel cL ds ds' → DirRel cL (d :: ds) (d :: ds')
  | newer {d d' ds ds'} : d.newest > cL → DirRel cL ds ds' → DirRel cL (d' :: ds) (some d :: ds')

theorem DirRel.refl (cL : Nat) : ∀ ds, DirRel cL ds ds
  | [] => .nil
  | _ :: ds => .same (DirRel.refl cL ds)

theorem DirRel.length {cL : Nat} {dsL ds : List (Option Dir)} (h : DirRel cL dsL ds) :
    ds.length = dsL.length := by
  induction h <;> simp_all

theorem dirs_same_of_quiet (cL : Nat) : ∀ (dsL ds : List (Option Dir)) (mts : List Nat),
    DirRel cL dsL ds → mts.length = ds.length → (∀ mt ∈ mts, mt ≤ cL) →
    (scanDirs ds mts).2 = false → ds = dsL := by
  intro dsL ds mts h
  induction h generalizing mts with
  | nil => intros; rfl
  | @same d ds ds' _ ih =>
    intro hlen hb hq
    cases mts with
    | nil => simp at hlen
    | cons mt mts =>
      have hq' : (scanDirs ds' mts).2 = false := by
        cases d with
        | none => simpa [scanDirs] using hq
        | some d =>
          simp only [scanDirs] at hq
          split at hq
          · simp at hq
          · simpa using hq
      rw [ih mts (by simpa using hlen) (fun m hm => hb m (List.mem_cons_of_mem _ hm)) hq']
  | @newer d d' ds ds' hnew _ ih =>
    intro hlen hb hq
    cases mts with
    | nil => simp at hlen
    | cons mt mts =>
      have : mt ≤ cL := hb mt (List.mem_cons_self ..)
      simp only [scanDirs] at hq
      split at hq
      · simp at hq
      · omega

theorem dirs_same_of_none (cL : Nat) (dsL ds : List (Option Dir)) (h : DirRel cL dsL ds)
    (hex : anyExists ds = false) : ds = dsL := by
  induction h with
  | nil => rfl
  | @same d ds ds' _ ih =>
    cases d with
    | none => rw [ih (by simpa [anyExists] using hex)]
    | some d => simp [anyExists] at hex
  | newer => simp [anyExists] at hex

/-- **The history invariant.**  `fsL` is the (ghost) file system at the last load and `cL`
its clock; before the first load `fsL` is the empty file system and `cL = 0`. -/
def Inv (enforceNew : Bool) (regs : List RuleDefault) (w : World) : Prop :=
  ∃ (fsL : FS) (cL : Nat), cL ≤ w.clock ∧
    FS.Stamped w.fs w.clock ∧
    w.enf.dirMt.length = w.fs.dirs.length ∧ w.fs.dirs.length = fsL.dirs.length ∧
    CacheOK w.enf w.fs ∧ CacheBound w.enf cL ∧
    mergeDefaults enforceNew w.enf.fileRules regs w.enf.rules = compute enforceNew regs fsL ∧
    w.enf.fileRules = filesRules fsL ∧
    MainRel w.enf fsL w.fs cL ∧ DirRel cL fsL.dirs w.fs.dirs

/-- if a `load` re-reads nothing, nothing has changed since the last load -/
theorem quiet_same (e : Enf) (fs fsL : FS) (cL : Nat) (force : Bool)
    (hlen : e.dirMt.length = fs.dirs.length) (hb : CacheBound e cL)
    (hmain : MainRel e fsL fs cL) (hdirs : DirRel cL fsL.dirs fs.dirs)
    (htrig : trig e fs force = false) : fs = fsL := by
  simp only [trig, Bool.or_eq_false_iff] at htrig
  obtain ⟨⟨hmt, hdt⟩, hfa⟩ := htrig
  have hd : fs.dirs = fsL.dirs := dirs_same_of_quiet cL _ _ _ hdirs hlen hb.2 hdt
  have hm : fs.main = fsL.main := by
    by_cases hres : (e.resolved || fs.main.isSome) = true
    · simp only [hres, Bool.true_and, Bool.or_eq_false_iff] at hmt
      obtain ⟨_, htc⟩ := hmt
      rcases hmain.1 with h | ⟨c, t, hf, hgt⟩ | ⟨hnone, _⟩
      · exact h
      · exfalso
        simp only [trigCore, hf] at htc
        cases hcache : e.mainCache with
        | none => simp [hcache] at htc
        | some q =>
          obtain ⟨data, mt⟩ := q
          have := hb.1 data mt hcache
          simp [hcache] at htc
          omega
      · exfalso
        simp [trigCore, hnone] at htc
    · simp only [Bool.not_eq_true, Bool.or_eq_false_iff] at hres
      have h1 : fs.main = none := by cases hm : fs.main <;> simp_all
      rw [h1, hmain.2 hres.1]
  cases fs; cases fsL; simp_all

theorem compute_idem (en regs) (fs : FS) :
    mergeDefaults en (filesRules fs) regs (compute en regs fs) = compute en regs fs :=
  mergeDefaults_idem _ _ _ _

/-- what one more load (plain or forced) yields, under the invariant's hypotheses -/
theorem load_correct (en regs) (e : Enf) (fs fsL : FS) (cL : Nat) (force : Bool)
    (hlen : e.dirMt.length = fs.dirs.length) (hc : CacheOK e fs) (hb : CacheBound e cL)
    (hsync : mergeDefaults en e.fileRules regs e.rules = compute en regs fsL)
    (hfr : e.fileRules = filesRules fsL)
    (hmain : MainRel e fsL fs cL) (hdirs : DirRel cL fsL.dirs fs.dirs) :
    (load en regs e fs force).rules = compute en regs fs ∧
    (load en regs e fs force).fileRules = filesRules fs := by
  obtain ⟨h1, h2⟩ := load_closed en regs e fs force hc
  rw [h1, h2]
  cases htrig : trig e fs force with
  | true => simp
  | false =>
    have := quiet_same e fs fsL cL force hlen hb hmain hdirs htrig
    subst this
    exact ⟨by simpa using hsync, by simpa using hfr⟩

theorem Inv_load (enforceNew regs) (w : World) (h : Inv enforceNew regs w) (force : Bool) :
    (load enforceNew regs w.enf w.fs force).rules = compute enforceNew regs w.fs ∧
    (load enforceNew regs w.enf w.fs force).fileRules = filesRules w.fs := by
  obtain ⟨fsL, cL, _, _, hlen, _, hc, hb, hsync, hfr, hmain, hdirs⟩ := h
  exact load_correct _ _ _ _ fsL cL force hlen hc hb hsync hfr hmain hdirs

theorem Inv_load_fresh (enforceNew regs) (w : World) (h : Inv enforceNew regs w) :
    (load enforceNew regs w.enf w.fs false).rules = compute enforceNew regs w.fs :=
  (Inv_load enforceNew regs w h false).1

/-! ### the invariant holds initially -/

theorem anyExists_replicate_none (n : Nat) : anyExists (List.replicate n none) = false := by
  induction n with
  | zero => rfl
  | succ n ih => simp [anyExists, List.replicate_succ]

/-- the empty file system: no main file, no configured directory exists -/
def FS.empty (n : Nat) : FS := ⟨none, List.replicate n none⟩

theorem compute_empty (en regs) (n : Nat) :
    compute en regs (FS.empty n) = mergeDefaults en [] regs [] ∧ filesRules (FS.empty n) = [] := by
  have h := dirLayers_of_not_anyExists _ (anyExists_replicate_none n)
  simp [compute, filesRules, filesStore, fileLayers, FS.empty, h]

theorem DirRel_init (ds : List (Option Dir)) (h : ∀ d, some d ∈ ds → d.newest > 0) :
    DirRel 0 (List.replicate ds.length none) ds := by
  induction ds with
  | nil => exact .nil
  | cons od ds ih =>
    have ih' := ih fun d hd => h d (List.mem_cons_of_mem _ hd)
    rw [List.length_cons, List.replicate_succ]
    cases od with
    | none => exact .same ih'
    | some d => exact .newer (h d (List.mem_cons_self ..)) ih'

theorem Inv_init (enforceNew regs) (fs : FS) (clock : Nat) (hst : FS.Stamped fs clock) :
    Inv enforceNew regs ⟨fs, Enf.init fs.dirs.length, clock⟩ := by
  obtain ⟨hce, hfe⟩ := compute_empty enforceNew regs fs.dirs.length
  refine ⟨FS.empty fs.dirs.length, 0, Nat.zero_le _, hst, ?_, ?_, ?_, ?_, ?_, ?_, ?_, ?_⟩
  · simp [Enf.init]
  · simp [FS.empty]
  · intro data mt c t h; simp [Enf.init] at h
  · refine ⟨fun data mt h => by simp [Enf.init] at h, fun mt h => ?_⟩
    simp only [Enf.init, List.mem_replicate] at h
    omega
  · rw [hce]; rfl
  · rw [hfe]; rfl
  · refine ⟨?_, fun _ => rfl⟩
    cases hm : fs.main with
    | none => exact Or.inl rfl
    | some q => exact Or.inr (Or.inl ⟨q.1, q.2, rfl, (hst.1 q.1 q.2 hm).1⟩)
  · exact DirRel_init _ fun d hd =>
      Nat.lt_of_lt_of_le (hst.2 d hd).1.1 d.le_newest

/-! ### the invariant is preserved: loads -/

theorem Inv_step_load (en regs) (w : World) (force : Bool) (h : Inv en regs w) :
    Inv en regs { w with enf := load en regs w.enf w.fs force } := by
  obtain ⟨hr, hf⟩ := Inv_load en regs w h force
  obtain ⟨fsL, cL, hcl, hst, hlen, hlen2, hc, hb, hsync, hfr, hmain, hdirs⟩ := h
  refine ⟨w.fs, w.clock, Nat.le_refl _, hst, ?_, rfl, ?_, ?_, ?_, hf, ?_, DirRel.refl _ _⟩
  · show (load en regs w.enf w.fs force).dirMt.length = _
    rw [load_dirMt, scanDirs_length]; exact hlen
  · intro data mt c t hmc hm hle
    change (load en regs w.enf w.fs force).mainCache = _ at hmc
    change w.fs.main = _ at hm
    rcases load_mainCache en regs w.enf w.fs force with h | h | h
    · rw [h] at hmc; exact hc data mt c t hmc hm hle
    · rw [h, hm] at hmc; cases hmc; rfl
    · rw [h] at hmc; cases hmc
  · constructor
    · intro data mt hmc
      change (load en regs w.enf w.fs force).mainCache = _ at hmc
      rcases load_mainCache en regs w.enf w.fs force with h | h | h
      · rw [h] at hmc; exact Nat.le_trans (hb.1 data mt hmc) hcl
      · rw [h] at hmc; exact (hst.1 data mt hmc).2
      · rw [h] at hmc; cases hmc
    · show ∀ mt ∈ (load en regs w.enf w.fs force).dirMt, mt ≤ w.clock
      rw [load_dirMt]
      exact scanDirs_bound w.clock _ _ (fun mt h => Nat.le_trans (hb.2 mt h) hcl)
        (fun d hd => d.newest_le _ (hst.2 d hd))
  · show mergeDefaults en (load en regs w.enf w.fs force).fileRules regs
        (load en regs w.enf w.fs force).rules = compute en regs w.fs
    rw [hr, hf]; exact compute_idem _ _ _
  · refine ⟨Or.inl rfl, fun hres => ?_⟩
    change (load en regs w.enf w.fs force).resolved = false at hres
    rw [load_resolved] at hres
    show w.fs.main = none
    cases hm : w.fs.main <;> simp_all

/-! ### the invariant is preserved: operations on the main file -/

theorem Inv_main_some (en regs) (w : World) (h : Inv en regs w) (c : Content) :
    Inv en regs ⟨{ w.fs with main := some (c, w.clock + 1) }, w.enf, w.clock + 1⟩ := by
  obtain ⟨fsL, cL, hcl, hst, hlen, hlen2, hc, hb, hsync, hfr, hmain, hdirs⟩ := h
  refine ⟨fsL, cL, Nat.le_succ_of_le hcl, ?_, hlen, hlen2, ?_, hb, hsync, hfr, ?_, hdirs⟩
  · refine ⟨fun x t hx => ?_, fun d hd => DirOK.mono (hst.2 d hd) (Nat.le_succ _)⟩
    change some (c, w.clock + 1) = some (x, t) at hx
    cases hx
    exact ⟨Nat.succ_le_succ (Nat.zero_le _), Nat.le_refl _⟩
  · intro data mt c' t hmc hm hle
    change some (c, w.clock + 1) = some (c', t) at hm
    cases hm
    have := hb.1 data mt hmc
    omega
  · exact ⟨Or.inr (Or.inl ⟨c, w.clock + 1, rfl, Nat.lt_succ_of_le hcl⟩), hmain.2⟩

theorem Inv_main_none (en regs) (w : World) (h : Inv en regs w) :
    Inv en regs ⟨{ w.fs with main := none }, w.enf, w.clock + 1⟩ := by
  obtain ⟨fsL, cL, hcl, hst, hlen, hlen2, hc, hb, hsync, hfr, hmain, hdirs⟩ := h
  refine ⟨fsL, cL, Nat.le_succ_of_le hcl, ?_, hlen, hlen2, ?_, hb, hsync, hfr, ?_, hdirs⟩
  · exact ⟨fun x t hx => (by cases hx), fun d hd => DirOK.mono (hst.2 d hd) (Nat.le_succ _)⟩
  · intro data mt c' t hmc hm hle
    cases hm
  · refine ⟨?_, hmain.2⟩
    rcases Bool.eq_false_or_eq_true w.enf.resolved with hres | hres
    · exact Or.inr (Or.inr ⟨rfl, hres⟩)
    · exact Or.inl (hmain.2 hres).symm

/-! ### the invariant is preserved: operations inside a policy directory -/

theorem modifyDir_length (i : Nat) (f : Dir → Dir) (ds : List (Option Dir)) :
    (modifyDir i f ds).length = ds.length := by
  induction ds generalizing i with
  | nil => simp [modifyDir]
  | cons od ds ih => cases i <;> simp [modifyDir, ih]

theorem mem_modifyDir (i : Nat) (f : Dir → Dir) (ds : List (Option Dir)) (d : Dir)
    (h : some d ∈ modifyDir i f ds) : some d ∈ ds ∨ ∃ d0, some d0 ∈ ds ∧ d = f d0 := by
  induction ds generalizing i with
  | nil => simp [modifyDir] at h
  | cons od ds ih =>
    cases i with
    | zero =>
      simp only [modifyDir] at h
      rcases List.mem_cons.1 h with h | h
      · cases od with
        | none => cases h
        | some d0 =>
          simp only [Option.map_some, Option.some.injEq] at h
          exact Or.inr ⟨d0, List.mem_cons_self .., h⟩
      · exact Or.inl (List.mem_cons_of_mem _ h)
    | succ i =>
      simp only [modifyDir] at h
      rcases List.mem_cons.1 h with h | h
      · exact Or.inl (h ▸ List.mem_cons_self ..)
      · rcases ih i h with h | ⟨d0, h0, hd⟩
        · exact Or.inl (List.mem_cons_of_mem _ h)
        · exact Or.inr ⟨d0, List.mem_cons_of_mem _ h0, hd⟩

theorem DirRel.modify {cL : Nat} {dsL ds : List (Option Dir)} (h : DirRel cL dsL ds)
    (i : Nat) (f : Dir → Dir) (hf : ∀ d, f d = d ∨ (f d).newest > cL) :
    DirRel cL dsL (modifyDir i f ds) := by
  induction h generalizing i with
  | nil => simp only [modifyDir]; exact .nil
  | @same od ds ds' hr ih =>
    cases i with
    | zero =>
      simp only [modifyDir]
      cases od with
      | none => exact .same hr
      | some d =>
        rcases hf d with h | h
        · simp only [Option.map_some, h]; exact .same hr
        · exact .newer h hr
    | succ i => exact .same (ih i)
  | @newer d d' ds ds' hnew hr ih =>
    cases i with
    | zero =>
      simp only [modifyDir, Option.map_some]
      rcases hf d with h | h
      · rw [h]; exact .newer hnew hr
      · exact .newer h hr
    | succ i => exact .newer hnew (ih i)

theorem Inv_dirs (en regs) (w : World) (h : Inv en regs w) (i : Nat) (f : Dir → Dir)
    (hok : ∀ d, DirOK w.clock d → DirOK (w.clock + 1) (f d))
    (hnew : ∀ d, f d = d ∨ (f d).newest > w.clock) :
    Inv en regs ⟨{ w.fs with dirs := modifyDir i f w.fs.dirs }, w.enf, w.clock + 1⟩ := by
  obtain ⟨fsL, cL, hcl, hst, hlen, hlen2, hc, hb, hsync, hfr, hmain, hdirs⟩ := h
  refine ⟨fsL, cL, Nat.le_succ_of_le hcl, ?_, ?_, ?_, hc, hb, hsync, hfr, hmain, ?_⟩
  · refine ⟨fun x t hx => ?_, fun d hd => ?_⟩
    · have := hst.1 x t hx
      exact ⟨this.1, Nat.le_succ_of_le this.2⟩
    · rcases mem_modifyDir i f _ d hd with h | ⟨d0, h0, rfl⟩
      · exact DirOK.mono (hst.2 d h) (Nat.le_succ _)
      · exact hok d0 (hst.2 d0 h0)
  · show w.enf.dirMt.length = (modifyDir i f w.fs.dirs).length
    rw [modifyDir_length]; exact hlen
  · show (modifyDir i f w.fs.dirs).length = fsL.dirs.length
    rw [modifyDir_length]; exact hlen2
  · exact hdirs.modify i f fun d => (hnew d).imp id fun h => Nat.lt_of_le_of_lt hcl h

theorem mem_setEntry (n : Str) (c : Content) (t : Nat) (es : List Entry) (x : Entry)
    (h : x ∈ setEntry n c t es) : x.mtime = t ∨ x ∈ es := by
  induction es with
  | nil => simp only [setEntry, List.mem_singleton] at h; subst h; exact Or.inl rfl
  | cons e r ih =>
    simp only [setEntry] at h
    split at h
    · rcases List.mem_cons.1 h with h | h
      · subst h; exact Or.inl rfl
      · exact Or.inr (List.mem_cons_of_mem _ h)
    · rcases List.mem_cons.1 h with h | h
      · subst h; exact Or.inr (List.mem_cons_self ..)
      · exact (ih h).imp id (List.mem_cons_of_mem _)

theorem mem_touchEntry (n : Str) (t : Nat) (es : List Entry) (x : Entry)
    (h : x ∈ touchEntry n t es) : x.mtime = t ∨ x ∈ es := by
  induction es with
  | nil => cases h
  | cons e r ih =>
    simp only [touchEntry] at h
    split at h
    · rcases List.mem_cons.1 h with h | h
      · subst h; exact Or.inl rfl
      · exact Or.inr (List.mem_cons_of_mem _ h)
    · rcases List.mem_cons.1 h with h | h
      · subst h; exact Or.inr (List.mem_cons_self ..)
      · exact (ih h).imp id (List.mem_cons_of_mem _)

/-- touching a name that is not there changes nothing; otherwise some entry gets the new time -/
theorem touchEntry_cases (n : Str) (t : Nat) (es : List Entry) :
    touchEntry n t es = es ∨ ∃ x ∈ touchEntry n t es, x.mtime = t := by
  induction es with
  | nil => exact Or.inl rfl
  | cons e r ih =>
    simp only [touchEntry]
    split
    · exact Or.inr ⟨_, List.mem_cons_self .., rfl⟩
    · rcases ih with h | ⟨x, hx, ht⟩
      · exact Or.inl (by rw [h])
      · exact Or.inr ⟨x, List.mem_cons_of_mem _ hx, ht⟩

/-! ### 4. the invariant is preserved by every step -/

theorem Inv_step (enforceNew regs) (w : World) (op : Op) (h : Inv enforceNew regs w) :
    Inv enforceNew regs (step enforceNew regs w op) := by
  cases op with
  | load => exact Inv_step_load _ _ w false h
  | loadForce => exact Inv_step_load _ _ w true h
  | write f c =>
    cases f with
    | main => exact Inv_main_some _ _ w h c
    | dirFile i n =>
      refine Inv_dirs _ _ w h i _ (fun d hd => ⟨⟨Nat.succ_le_succ (Nat.zero_le _), Nat.le_refl _⟩,
        fun x hx => ?_⟩) (fun d => Or.inr (Nat.lt_of_lt_of_le (Nat.lt_succ_self _) (Dir.le_newest ⟨w.clock + 1, _⟩)))
      rcases mem_setEntry _ _ _ _ _ hx with h | h
      · rw [h]; exact ⟨Nat.succ_le_succ (Nat.zero_le _), Nat.le_refl _⟩
      · exact ⟨(hd.2 x h).1, Nat.le_succ_of_le (hd.2 x h).2⟩
  | touch f =>
    cases f with
    | main =>
      cases hm : w.fs.main with
      | none =>
        have : step enforceNew regs w (.touch .main) =
            ⟨{ w.fs with main := none }, w.enf, w.clock + 1⟩ := by simp [step, fsStep, hm]
        rw [this]; exact Inv_main_none _ _ w h
      | some q =>
        have : step enforceNew regs w (.touch .main) =
            ⟨{ w.fs with main := some (q.1, w.clock + 1) }, w.enf, w.clock + 1⟩ := by
          simp [step, fsStep, hm]
        rw [this]; exact Inv_main_some _ _ w h q.1
    | dirFile i n =>
      refine Inv_dirs _ _ w h i _ (fun d hd => ⟨⟨hd.1.1, Nat.le_succ_of_le hd.1.2⟩,
        fun x hx => ?_⟩) (fun d => ?_)
      · rcases mem_touchEntry _ _ _ _ hx with h | h
        · rw [h]; exact ⟨Nat.succ_le_succ (Nat.zero_le _), Nat.le_refl _⟩
        · exact ⟨(hd.2 x h).1, Nat.le_succ_of_le (hd.2 x h).2⟩
      · rcases touchEntry_cases n (w.clock + 1) d.entries with h | ⟨x, hx, ht⟩
        · exact Or.inl (by rw [h])
        · have := Dir.mem_le_newest ⟨d.mtime, touchEntry n (w.clock + 1) d.entries⟩ x hx
          rw [ht] at this
          exact Or.inr (Nat.lt_of_lt_of_le (Nat.lt_succ_self _) this)
  | delete f =>
    cases f with
    | main => exact Inv_main_none _ _ w h
    | dirFile i n =>
      refine Inv_dirs _ _ w h i _ (fun d hd => ⟨⟨Nat.succ_le_succ (Nat.zero_le _), Nat.le_refl _⟩,
        fun x hx => ?_⟩) (fun d => Or.inr (Nat.lt_of_lt_of_le (Nat.lt_succ_self _) (Dir.le_newest ⟨w.clock + 1, _⟩)))
      have hx' := (List.mem_filter.1 hx).1
      exact ⟨(hd.2 x hx').1, Nat.le_succ_of_le (hd.2 x hx').2⟩

/-! ### 2. a brand-new enforcer, 5. C10, 6. C12 -/

/-- The hypothesis is needed: mtimes must be ≥ 1 so that an existing directory is "newer than
0", the initial `dirMt`.  Counterexample without it: no main file and one directory with
`mtime = 0` holding a file `a` with mtime 0 and content `[(x, v)]`: `scanDirs` reports no
update, `fresh` keeps the empty store, but `compute` defines `x`. -/
theorem fresh_rules (enforceNew regs) (fs : FS) {clock : Nat} (hst : FS.Stamped fs clock) :
    (fresh enforceNew regs fs).rules = compute enforceNew regs fs ∧
    (fresh enforceNew regs fs).fileRules = filesRules fs :=
  Inv_load enforceNew regs ⟨fs, Enf.init fs.dirs.length, clock⟩
    (Inv_init enforceNew regs fs clock hst) false

theorem Inv_history (enforceNew regs) (ops : List Op) (w : World) (h : Inv enforceNew regs w) :
    Inv enforceNew regs (ops.foldl (step enforceNew regs) w) := by
  induction ops generalizing w with
  | nil => exact h
  | cons op ops ih => exact ih _ (Inv_step _ _ w op h)

/-- **C10.** After any history, the next load gives what a brand-new enforcer computes. -/
theorem history_fresh (enforceNew regs) (fs0 : FS) (clock0 : Nat) (hst : FS.Stamped fs0 clock0)
    (ops : List Op) :
    let w := ops.foldl (step enforceNew regs) ⟨fs0, Enf.init fs0.dirs.length, clock0⟩
    (load enforceNew regs w.enf w.fs false).rules = (fresh enforceNew regs w.fs).rules := by
  intro w
  have hinv : Inv enforceNew regs w := Inv_history _ _ ops _ (Inv_init _ _ fs0 clock0 hst)
  rw [Inv_load_fresh _ _ w hinv]
  obtain ⟨_, _, _, hstw, _⟩ := hinv
  exact (fresh_rules _ _ w.fs hstw).1.symm

/-- **C12.** Loading again (plain or forced) without a file change does not change the rules. -/
theorem load_idem (enforceNew regs) (w : World) (h : Inv enforceNew regs w) (f1 f2 : Bool) :
    (load enforceNew regs (load enforceNew regs w.enf w.fs f1) w.fs f2).rules
      = (load enforceNew regs w.enf w.fs f1).rules := by
  have h' := Inv_step_load enforceNew regs w f1 h
  rw [(Inv_load enforceNew regs _ h' f2).1, (Inv_load enforceNew regs w h f1).1]

end OsloPolicy
