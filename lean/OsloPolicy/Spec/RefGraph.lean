import OsloPolicy.Model.Validate
/-
Specification for C13: the reference graph of a rule set, independent of how the
validation code walks trees.
-/
namespace OsloPolicy

mutual
/-- every name referenced by a `rule:` leaf anywhere in the tree — under `not` too -/
def refsTree : Tree → List Str
  | .tt => []
  | .ff => []
  | .chk k m => if k = ruleKind then [m] else []
  | .not t => refsTree t
  | .and ts => refsList ts
  | .or ts => refsList ts
def refsList : List Tree → List Str
  | [] => []
  | t :: ts => refsTree t ++ refsList ts
end

/-- names referenced by the definition of `m` (none if `m` is undefined) -/
def succs (rs : List (Str × Tree)) (m : Str) : List Str :=
  match afind m rs with
  | some t => refsTree t
  | none => []

/-- a walk along reference edges, in walking order -/
inductive Walk (rs : List (Str × Tree)) : List Str → Prop
  | one (m) : Walk rs [m]
  | cons {m m' l} : m' ∈ succs rs m → Walk rs (m' :: l) → Walk rs (m :: m' :: l)

/-- the tree references an undefined rule -/
def RefsUndefined (rs : List (Str × Tree)) (t : Tree) : Prop :=
  ∃ m ∈ refsTree t, afind m rs = none

/-- from the tree's references one can reach a reference cycle: some walk starting at a
referenced name repeats a name (diamond-shaped sharing is *not* a repeat on one walk) -/
def ReachesCycle (rs : List (Str × Tree)) (t : Tree) : Prop :=
  ∃ m ∈ refsTree t, ∃ l, Walk rs (m :: l) ∧ ¬ (m :: l).Nodup

end OsloPolicy
