import OsloPolicy.Model.Parser
/-
Specification vocabulary for the *lexical* part of C01/C02/C15: how a token list may be
spelled as text ("layout"), what a clean leaf text is, which trees the printer can be
asked to print (`WFT`), and the token list the printer's output spells (`printToks`).
-/
namespace OsloPolicy

def kwAnd : Str := "and".toList
def kwOr : Str := "or".toList
def kwNot : Str := "not".toList

/-- A leaf text that the tokenizer hands to `_parse_check` unchanged: non-empty, free of
whitespace, not starting with `(`, not ending with `)`, not a keyword in any letter case,
not delimited by a pair of equal quotes. -/
def CleanLeaf (s : Str) : Prop :=
  s ≠ [] ∧ (∀ c ∈ s, isSpace c = false) ∧ s.head? ≠ some '(' ∧ s.getLast? ≠ some ')' ∧
  s.map asciiLower ≠ kwAnd ∧ s.map asciiLower ≠ kwOr ∧ s.map asciiLower ≠ kwNot ∧
  isQuoted s = false

/-- The middle part of a word. -/
inductive Core where
  | none                                  -- the word consists of parentheses only
  | kw (k : Tok) (spelling : Str)         -- a keyword in some letter case
  | leaf (text : Str)                     -- a check
deriving Repr

def Core.chars : Core → Str
  | .none => []
  | .kw _ sp => sp
  | .leaf s => s

def Core.toks : Core → List Tok
  | .none => []
  | .kw k _ => [k]
  | .leaf s => [.chk (parseCheck s)]

def Core.WF : Core → Prop
  | .none => True
  | .kw k sp => (k = .kAnd ∧ sp.map asciiLower = kwAnd) ∨ (k = .kOr ∧ sp.map asciiLower = kwOr) ∨
                (k = .kNot ∧ sp.map asciiLower = kwNot)
  | .leaf s => CleanLeaf s

/-- One whitespace-free word: `(`… glued in front, `)`… glued behind. -/
structure Word where
  lead : Nat
  core : Core
  trail : Nat
deriving Repr

def Word.chars (w : Word) : Str :=
  List.replicate w.lead '(' ++ w.core.chars ++ List.replicate w.trail ')'

def Word.toks (w : Word) : List Tok :=
  List.replicate w.lead Tok.lp ++ w.core.toks ++ List.replicate w.trail Tok.rp

def Word.WF (w : Word) : Prop := w.core.WF ∧ w.chars ≠ []

def IsSep (s : Str) : Prop := ∀ c ∈ s, isSpace c = true

/-- `sep0 w1 sep1 w2 sep2 … wn sepn` -/
def spell (sep0 : Str) (ws : List (Word × Str)) : Str :=
  sep0 ++ ws.flatMap (fun p => p.1.chars ++ p.2)

/-- All separators are whitespace, every separator between two words is non-empty, every
word is well-formed. -/
def LayoutOK : List (Word × Str) → Prop
  | [] => True
  | [(w, sep)] => w.WF ∧ IsSep sep
  | (w, sep) :: p :: r => w.WF ∧ IsSep sep ∧ sep ≠ [] ∧ LayoutOK (p :: r)

/-! ### Printing -/

mutual
/-- The tokens that `str(tree)` spells. -/
def printToks : Tree → List Tok
  | .tt => [.chk .tt]
  | .ff => [.chk .ff]
  | .chk k m => [.chk (.chk k m)]
  | .not t => .kNot :: printToks t
  | .and ts => .lp :: sepToks .kAnd ts ++ [.rp]
  | .or ts => .lp :: sepToks .kOr ts ++ [.rp]
def sepToks (op : Tok) : List Tree → List Tok
  | [] => []
  | [t] => printToks t
  | t :: u :: r => printToks t ++ op :: sepToks op (u :: r)
end

mutual
/-- Trees the text language can express: and/or nodes have at least two members and
leaf texts are clean with a colon-free kind. -/
def WFT : Tree → Prop
  | .tt => True
  | .ff => True
  | .chk k m => CleanLeaf (k ++ ':' :: m) ∧ ':' ∉ k
  | .not t => WFT t
  | .and ts => 2 ≤ ts.length ∧ WFTs ts
  | .or ts => 2 ≤ ts.length ∧ WFTs ts
def WFTs : List Tree → Prop
  | [] => True
  | t :: ts => WFT t ∧ WFTs ts
end

end OsloPolicy
