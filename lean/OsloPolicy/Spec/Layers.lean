import OsloPolicy.Model.Loader
/-
Specification for C09–C12: what the current files *mean*, independently of caches and
of the order in which the loader touches its state.
-/
namespace OsloPolicy

/-- contents of the visible files of the configured directories, in configured order
and, inside a directory, in sorted name order -/
def dirLayers (dirs : List (Option Dir)) : List Content :=
  dirs.flatMap fun od => match od with
    | some d => d.visible.map (·.content)
    | none => []

/-- all file layers in precedence order (later wins): main file, then the directories -/
def fileLayers (fs : FS) : List Content :=
  (match fs.main with | some (c, _) => [c] | none => []) ++ dirLayers fs.dirs

/-- rules defined by files -/
def filesStore (fs : FS) : Store := (fileLayers fs).foldl updStore []
/-- names (and check strings) defined by files: `Enforcer.file_rules` -/
def filesRules (fs : FS) : Content := (fileLayers fs).foldl updFileRules []

/-- the effective policy a brand-new enforcer computes from the current files -/
def compute (enforceNew : Bool) (regs : List RuleDefault) (fs : FS) : Store :=
  mergeDefaults enforceNew (filesRules fs) regs (filesStore fs)

/-- last binding of `n` inside one parsed file -/
def alast (n : Str) : Content → Option JVal
  | [] => none
  | (k, v) :: r => match alast n r with
    | some v' => some v'
    | none => if k = n then some v else none

/-- the last definition of `n` in layer order -/
def lastDef (n : Str) : List Content → Option JVal
  | [] => none
  | c :: r => match lastDef n r with
    | some v => some v
    | none => alast n c

/-- **C09 spec.** Effective definition of a name: the last one found in the order
registered default, policy file, policy directories (configured order, sorted files). -/
def effective (enforceNew : Bool) (regs : List RuleDefault) (fs : FS) (n : Str) : Option Tree :=
  match lastDef n (fileLayers fs) with
  | some v => some (parseValue v)
  | none => (regs.find? (·.name = n)).map (defaultCheck enforceNew (filesRules fs))

/-- **C11 spec.** The documented override table for one registered default, given the
rules operators put in files (`fr`: name ↦ check string). -/
def governs (enforceNew : Bool) (fr : Content) (d : RuleDefault) : Tree :=
  match afind d.name fr with
  | some v => parseValue v                                   -- an override under the new name always governs
  | none =>
    let new := parseValue d.checkStr
    match d.deprecated with
    | none => new
    | some (old, oldStr) =>
      let fallback : Tree :=                                 -- new default, OR-ed with the old one only when
        if !enforceNew && jvalStrNe oldStr d.checkStr        -- enforce_new_defaults is off and the strings differ
        then .or [new, parseValue oldStr] else new
      if old = d.name then fallback
      else match afind old fr with
        | none => fallback
        | some v =>                                           -- override under the old, renamed name governs
          if (parseValue v).print = rulePrefix ++ d.name  -- … unless it is merely the alias rule:<new name>
          then fallback else parseValue v

/-! ### Histories (C10 / C12) -/

structure World where
  fs : FS
  enf : Enf
  clock : Nat

/-- one step of a history: a file operation advances the clock and stamps what it
touches; `load`/`loadForce` run `load_rules` on the long-lived enforcer -/
def step (enforceNew : Bool) (regs : List RuleDefault) (w : World) : Op → World
  | .load => { w with enf := load enforceNew regs w.enf w.fs false }
  | .loadForce => { w with enf := load enforceNew regs w.enf w.fs true }
  | op => { w with fs := fsStep w.fs (w.clock + 1) op, clock := w.clock + 1 }

/-- every modification time in the file system is in `[1, clock]` -/
def FS.Stamped (fs : FS) (clock : Nat) : Prop :=
  (∀ c t, fs.main = some (c, t) → 1 ≤ t ∧ t ≤ clock) ∧
  (∀ d, some d ∈ fs.dirs → (1 ≤ d.mtime ∧ d.mtime ≤ clock) ∧ ∀ e ∈ d.entries, 1 ≤ e.mtime ∧ e.mtime ≤ clock)

/-! ### Histories in which defaults keep being registered (C09 / C10) -/

/-- a history step of a service that also registers defaults as it goes -/
inductive OpR where
  | fs (op : Op)                       -- a file operation or a load, as in C10
  | register (d : RuleDefault)         -- `register_default(d)` (a duplicate name raises and changes nothing)
deriving Inhabited

structure WorldR where
  world : World
  regs : List RuleDefault

def stepR (en : Bool) (w : WorldR) : OpR → WorldR
  | .fs op => { w with world := step en w.regs w.world op }
  | .register d =>
    if w.regs.any (·.name = d.name) then w      -- DuplicatePolicyError: nothing changes
    else { w with regs := w.regs ++ [d] }

end OsloPolicy
