import OsloPolicy.Model.Parser
/-
Specification: the documented rule language as a precedence-stratified grammar
(`E 0` = or-level, `E 1` = and-level, `E 2` = not/atom-level), its token yield and its
Boolean denotation `() > not > and > or`.  Independent of the parser model.
-/
namespace OsloPolicy

inductive E : Nat → Type where
  | leaf  : Tree → E 2            -- a check token (already through `_parse_check`)
  | paren : E 0 → E 2
  | not   : E 2 → E 2
  | up1   : E 2 → E 1
  | and   : E 1 → E 2 → E 1
  | up0   : E 1 → E 0
  | or    : E 0 → E 1 → E 0

def E.render : E n → List Tok
  | .leaf t => [.chk t]
  | .paren e => .lp :: e.render ++ [.rp]
  | .not e => .kNot :: e.render
  | .up1 e => e.render
  | .and a b => a.render ++ .kAnd :: b.render
  | .up0 e => e.render
  | .or a b => a.render ++ .kOr :: b.render

mutual
/-- Boolean meaning of a check tree under a valuation of its leaves. -/
def Tree.den (ρ : Str → Str → Bool) : Tree → Bool
  | .tt => true
  | .ff => false
  | .chk k m => ρ k m
  | .not t => !(t.den ρ)
  | .and ts => denAll ρ ts
  | .or ts => denAny ρ ts
def denAll (ρ : Str → Str → Bool) : List Tree → Bool
  | [] => true
  | t :: ts => t.den ρ && denAll ρ ts
def denAny (ρ : Str → Str → Bool) : List Tree → Bool
  | [] => false
  | t :: ts => t.den ρ || denAny ρ ts
end

/-- Boolean meaning of a sentence: precedence `() > not > and > or`. -/
def E.den (ρ : Str → Str → Bool) : E n → Bool
  | .leaf t => t.den ρ
  | .paren e => e.den ρ
  | .not e => !(e.den ρ)
  | .up1 e => e.den ρ
  | .and a b => a.den ρ && b.den ρ
  | .up0 e => e.den ρ
  | .or a b => a.den ρ || b.den ρ

end OsloPolicy
