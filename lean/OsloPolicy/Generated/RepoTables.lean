namespace OsloPolicy.Generated
/-- `ParseState.reducers`: (pattern bottom→top, method name) in metaclass order -/
def reducers : List (List String × String) := [(["(", "or_expr", ")"], "_wrap_check"), (["(", "and_expr", ")"], "_wrap_check"), (["(", "check", ")"], "_wrap_check"), (["check", "and", "check"], "_make_and_expr"), (["or_expr", "and", "check"], "_mix_or_and_expr"), (["and_expr", "and", "check"], "_extend_and_expr"), (["and_expr", "or", "check"], "_make_or_expr"), (["check", "or", "check"], "_make_or_expr"), (["or_expr", "or", "check"], "_extend_or_expr"), (["not", "check"], "_make_not_expr")]
def unreducedTokens : List String := ["(", ")", "and", "or", "not", "string"]
def keywords : List String := ["and", "not", "or"]
def quotePairs : List (List String) := [["\"", "\""], ["'", "'"]]
def tokenizeRe : String := "\\s+"
def registeredKinds : List String := ["<None>", "role", "rule"]
def extensionKinds : List String := ["http", "https"]
def optEnforceScope : Bool := true
def optEnforceNewDefaults : Bool := true
def optPolicyFile : String := "policy.yaml"
def optPolicyDefaultRule : String := "default"
def optPolicyDirs : List String := ["policy.d"]
def optRemoteContentType : String := "application/x-www-form-urlencoded"
def exceptionClasses : List String := ["PolicyNotAuthorized", "InvalidScope", "InvalidContextObject", "PolicyNotRegistered", "InvalidDefinitionError", "DuplicatePolicyError"]
end OsloPolicy.Generated
