namespace OsloPolicy.Generated
/-- `ParseState.reducers`: (pattern bottom→top, method name) in metaclass order -/
def reducers : List (List String × String) := [(["(", "or_expr", ")"], "_wrap_check"), (["(", "and_expr", ")"], "_wrap_check"), (["(", "check", ")"], "_wrap_check"), (["check", "and", "check"], "_make_and_expr"), (["or_expr", "and", "check"], "_mix_or_and_expr"), (["and_expr", "and", "check"], "_extend_and_expr"), (["and_expr", "or", "check"], "_make_or_expr"), (["check", "or", "check"], "_make_or_expr"), (["or_expr", "or", "check"], "_extend_or_expr"), (["not", "check"], "_make_not_expr")]
def unreducedTokens : List String := ["(", ")", "and", "or", "not", "string"]
def keywords : List String := ["and", "not", "or"]
def quotePairs : List (List String) := [["\"", "\""], ["'", "'"]]
def tokenizeRe : String := "\\s+"
def registeredKinds : List String := ["<None>", "role", "rule"]
def extensionKinds : List String := ["http", "https"]
def optEnforceScope : Bool := true
def optEnforceNewDefaults : Bool := true
def optPolicyFile : String := "policy.yaml"
def optPolicyDefaultRule : String := "default"
def optPolicyDirs : List String := ["policy.d"]
def optRemoteContentType : String := "application/x-www-form-urlencoded"
def exceptionClasses : List String := ["PolicyNotAuthorized", "InvalidScope", "InvalidContextObject", "PolicyNotRegistered", "InvalidDefinitionError", "DuplicatePolicyError"]
/-- defaults of the public entry points (`inspect.signature`) -/
def apiDefaults : List (String × String) := [("Enforcer.policy_file", "None"), ("Enforcer.rules", "None"), ("Enforcer.default_rule", "None"), ("Enforcer.use_conf", "True"), ("Enforcer.overwrite", "True"), ("Enforcer.fallback_to_json_file", "True"), ("Enforcer.enforce.do_raise", "False"), ("Enforcer.enforce.exc", "None"), ("Enforcer.authorize.do_raise", "False"), ("Enforcer.authorize.exc", "None"), ("Enforcer.load_rules.force_reload", "False"), ("Enforcer.set_rules.overwrite", "True"), ("Enforcer.set_rules.use_conf", "False"), ("Enforcer.check_rules.raise_on_violation", "False"), ("Rules.load.default_rule", "None"), ("Rules.from_dict.default_rule", "None"), ("RuleDefault.deprecated_rule", "None"), ("RuleDefault.deprecated_for_removal", "False"), ("RuleDefault.scope_types", "None"), ("shell.tool.is_admin", "False"), ("shell.tool.target_file", "None"), ("shell.tool.enforcer_config", "None")]
end OsloPolicy.Generated
