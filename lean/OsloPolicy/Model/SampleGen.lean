import OsloPolicy.Model.Lexer
/-
`generator._format_help_text`, `_format_rule_default_yaml`, `_format_rule_default_json` and
the YAML sample as a list of lines.

Python text functions: `str.strip/lstrip/rstrip` are computed from the whitespace table
(`isSpace`, re-checked against the interpreter every run); `str.splitlines` and
`textwrap.wrap` are the library's — the model takes the already split lines of the
stripped description and a `wrap` function with the contract stated in `WrapOK`.
-/
namespace OsloPolicy

def pyLstrip (s : Str) : Str := s.dropWhile isSpace
def pyRstrip (s : Str) : Str := (s.reverse.dropWhile isSpace).reverse
def pyStrip (s : Str) : Str := pyRstrip (pyLstrip s)

/-- `'# %s' % x` -/
def hashSp (s : Str) : Str := '#' :: ' ' :: s

/-- state of the loop in `_format_help_text`: lines emitted so far, current paragraph -/
def helpLoop (wrap : Str → List Str) : List Str → List Str → List Str → List Str
  | [], out, para => if para.isEmpty then out else out ++ wrap (joinWith [' '] para)
  | line :: rest, out, para =>
    if (pyStrip line).isEmpty then
      -- empty line: dump the paragraph, emit a bare '#'
      helpLoop wrap rest (out ++ wrap (joinWith [' '] para) ++ [['#']]) []
    else if line.length = (pyLstrip line).length then
      helpLoop wrap rest out (para ++ [pyRstrip line])
    else
      -- literal block
      if para.isEmpty then helpLoop wrap rest (out ++ [hashSp (pyRstrip line)]) []
      else helpLoop wrap rest (out ++ wrap (joinWith [' '] para) ++ [['#']] ++ [hashSp (pyRstrip line)]) []

/-- `_format_help_text(description)` as lines; `none` = falsy description (`None` or `''`),
`some ls` = `description.strip().splitlines()`.  An empty result (`some []`) is one empty line. -/
def formatHelp (wrap : Str → List Str) : Option (List Str) → List Str
  | none => [['#']]
  | some ls => match helpLoop wrap ls [] [] with
    | [] => [[]]
    | out => out

structure Operation where
  method : Str
  path : Str
deriving Repr, Inhabited

/-- a `RuleDefault` / `DocumentedRuleDefault` as the sample generator sees it -/
structure GenDefault where
  name : Str
  checkStr : Str
  description : Option (List Str)           -- split lines of the stripped description
  operations : Option (List Operation)
  scopeTypes : Option (List Str)
  deprecatedForRemoval : Bool
  deprecatedReason : Option (List Str)      -- of the effective reason (rule's or predecessor's)
  deprecatedSince : Str                      -- `str(deprecated_since)` of the effective value
  deprecated : Option (Str × Str)            -- predecessor: (old name, old check_str)
deriving Repr, Inhabited

def q (s : Str) : Str := '"' :: s ++ ['"']

/-! ### `_format_check_str`: a plain check string is double quoted as it is; one that contains a double quote, a
backslash or a control character goes through `json.dumps` (`ensure_ascii`: everything outside `' '..'~'` is
escaped too) -/

def hexDigit (n : Nat) : Char :=
  match n % 16 with
  | 0 => '0' | 1 => '1' | 2 => '2' | 3 => '3' | 4 => '4' | 5 => '5' | 6 => '6' | 7 => '7'
  | 8 => '8' | 9 => '9' | 10 => 'a' | 11 => 'b' | 12 => 'c' | 13 => 'd' | 14 => 'e' | _ => 'f'

/-- `\uXXXX` -/
def u4 (n : Nat) : Str :=
  ['\\', 'u', hexDigit (n / 4096), hexDigit (n / 256), hexDigit (n / 16), hexDigit n]

/-- what `json.dumps` writes for one character of a string (`ESCAPE_ASCII`) -/
def jsonEscChar (c : Char) : Str :=
  if c = '"' then ['\\', '"']
  else if c = '\\' then ['\\', '\\']
  else if c = '\n' then ['\\', 'n']
  else if c = '\r' then ['\\', 'r']
  else if c = '\t' then ['\\', 't']
  else if c = '\x08' then ['\\', 'b']
  else if c = '\x0c' then ['\\', 'f']
  else if 32 ≤ c.toNat ∧ c.toNat ≤ 126 then [c]
  else if c.toNat < 65536 then u4 c.toNat
  else u4 (55296 + (c.toNat - 65536) / 1024) ++ u4 (56320 + (c.toNat - 65536) % 1024)   -- surrogate pair

def needsEscape (s : Str) : Bool := s.any fun c => c = '"' || c = '\\' || c.toNat < 32

def formatCheckStr (s : Str) : Str :=
  if needsEscape s then '"' :: s.flatMap jsonEscChar ++ ['"'] else q s

/-- `"name": <formatted check_str>` -/
def ruleText (d : GenDefault) : Str := q d.name ++ ':' :: ' ' :: formatCheckStr d.checkStr

def opLines (d : GenDefault) : List Str :=
  match d.operations with
  | none => []
  | some ops => (ops.filter fun o => !o.method.isEmpty && !o.path.isEmpty).map fun o =>
      hashSp (o.method ++ ' ' :: ' ' :: o.path)

def scopeLine (d : GenDefault) : List Str :=
  match d.scopeTypes with
  | none => []
  | some ts => [hashSp ("Intended scope(s): ".toList ++ joinWith ", ".toList ts)]

def renameWarning : List Str :=
  ["# WARNING: A rule name change has been identified.",
   "#          This may be an artifact of new rules being",
   "#          included which require legacy fallback",
   "#          rules to ensure proper policy behavior.",
   "#          Alternatively, this may just be an alias.",
   "#          Please evaluate on a case by case basis",
   "#          keeping in mind the format for aliased",
   "#          rules is:",
   "#          \"old_rule_name\": \"new_rule_name\"."].map String.toList

/-- the sentence wrapped by `_format_help_text` for a deprecated predecessor; `splitLines` is
`str.strip().splitlines()` (identity for texts without line breaks) -/
def deprecatedSentence (d : GenDefault) (old : Str × Str) : Str :=
  q old.1 ++ ':' :: q old.2 ++ " has been deprecated since ".toList ++ d.deprecatedSince ++
    " in favor of ".toList ++ q d.name ++ ':' :: q d.checkStr ++ ['.']

/-- `_format_rule_default_yaml(default, include_help=True, comment_rule, add_deprecated_rules)` as lines -/
def formatRuleYaml (wrap : Str → List Str) (splitLines : Str → List Str) (commentRule addDeprecated : Bool)
    (d : GenDefault) : List Str :=
  let core : List Str :=
    (match d.description with
     | none => []
     | some ls => formatHelp wrap (some ls)) ++
    opLines d ++ scopeLine d ++ [(if commentRule then ['#'] else []) ++ ruleText d] ++ [[]]
  if addDeprecated && d.deprecatedForRemoval then
    [hashSp "DEPRECATED".toList,
     hashSp (q d.name ++ " has been deprecated since ".toList ++ d.deprecatedSince ++ ['.'])] ++
      formatHelp wrap d.deprecatedReason ++ core
  else match (if addDeprecated then d.deprecated else none) with
    | some old =>
      core ++ [hashSp "DEPRECATED".toList] ++ formatHelp wrap (some (splitLines (deprecatedSentence d old))) ++
        formatHelp wrap d.deprecatedReason ++
        (if d.name ≠ old.1 then renameWarning ++ [hashSp (q old.1 ++ ": ".toList ++ q ("rule:".toList ++ d.name))] else []) ++
        [[]]
    | none => core

/-- the YAML sample: all sections concatenated (`_generate_sample`, yaml format) -/
def sampleYaml (wrap : Str → List Str) (splitLines : Str → List Str) (excludeDeprecated : Bool)
    (ds : List GenDefault) : List Str :=
  ds.flatMap (formatRuleYaml wrap splitLines true (!excludeDeprecated))

/-- the JSON sample: `{`, one `"name": "check_str"` entry per default, `}` -/
def sampleJsonEntries (ds : List GenDefault) : List Str := ds.map ruleText

end OsloPolicy
