import OsloPolicy.Model.Loader
/-
The policy-file rewriting tools of `generator.py`, at the level of the mapping
(name ↦ rule value) the emitted file denotes: `_upgrade_policies`,
`_convert_policy_json_to_yaml`, `_generate_policy`, `_list_redundant`.
Turning the emitted text back into that mapping is the YAML/JSON library's job.
-/
namespace OsloPolicy

def aremove {α} (k : Str) : List (Str × α) → List (Str × α)
  | [] => []
  | (k', v) :: r => if k' = k then aremove k r else (k', v) :: aremove k r

/-- `str(RuleDefault(alias, value).check) != alias` with `alias = 'rule:<new name>'` -/
def isAliasTo (newName : Str) (v : JVal) : Bool :=
  (parseValue v).print = rulePrefix ++ newName

/-- one iteration of the loop in `_upgrade_policies` (`old` = the file as it was) -/
def upgradeStep (old : Content) (acc : Content) (d : RuleDefault) : Content :=
  match d.deprecated with
  | none => acc
  | some (oldName, _) =>
    match afind oldName old with
    | none => acc
    | some v =>
      let acc' := aremove oldName acc
      if isAliasTo d.name v then acc' else ainsert d.name v acc'

/-- `_upgrade_policies(policies, default_policies)` -/
def toolUpgrade (file : Content) (regs : List RuleDefault) : Content :=
  regs.foldl (upgradeStep file) file

/-- does the file rule for `n` equal the registered default (`RuleDefault.__eq__`: same
name, same printed check)? -/
def equalsDefault (regs : List RuleDefault) (n : Str) (v : JVal) : Bool :=
  match regs.find? (·.name = n) with
  | some d => (parseValue v).print = (parseValue d.checkStr).print
  | none => false

/-- `_convert_policy_json_to_yaml`: rules equal to the registered default are written
commented out, everything else (overrides, deprecated and unknown names) stays effective -/
def toolConvert (file : Content) (regs : List RuleDefault) : Content :=
  file.filter fun p => !equalsDefault regs p.1 p.2

/-- `_generate_policy`: every rule found in files, then every registered default whose name
no file defines, all written as effective rules -/
def toolGenerate (fileRules : Content) (regs : List RuleDefault) : Content :=
  fileRules ++ (regs.filter fun d => (afind d.name fileRules).isNone).map fun d => (d.name, d.checkStr)

/-- `_list_redundant`: names of file rules equal to the registered default -/
def toolRedundant (fileRules : Content) (regs : List RuleDefault) : List Str :=
  (fileRules.filter fun p => equalsDefault regs p.1 p.2).map (·.1)

end OsloPolicy
