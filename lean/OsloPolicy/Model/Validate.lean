import OsloPolicy.Model.Eval
/-
`Enforcer.check_rules`, `_undefined_check`, `_cycle_check` (policy.py) and the exit
status of `generator._validate_policy`.
-/
namespace OsloPolicy

def ruleKind : Str := "rule".toList

mutual
/-- `_undefined_check`: does the tree contain a `rule:` reference to a name that is not a
key of the rule store?  (Descends into and/or members and into the operand of `not`.) -/
def undefTree (rs : List (Str × Tree)) : Tree → Bool
  | .tt => false
  | .ff => false
  | .chk k m => k = ruleKind && (afind m rs).isNone
  | .not t => undefTree rs t
  | .and ts => undefList rs ts
  | .or ts => undefList rs ts
def undefList (rs : List (Str × Tree)) : List Tree → Bool
  | [] => false
  | t :: ts => undefTree rs t || undefList rs ts
end

mutual
/-- `_cycle_check` on a tree with path-set `seen`; `step seen m` is what happens at a
`RuleCheck(m)`.  The operand of `not` shares `seen`, members of and/or get copies — with
an immutable `seen` both are the same value. -/
def cycTree (step : List Str → Str → Bool) (seen : List Str) : Tree → Bool
  | .tt => false
  | .ff => false
  | .chk k m => k = ruleKind && step seen m
  | .not t => cycTree step seen t
  | .and ts => cycList step seen ts
  | .or ts => cycList step seen ts
def cycList (step : List Str → Str → Bool) (seen : List Str) : List Tree → Bool
  | [] => false
  | t :: ts => cycTree step seen t || cycList step seen ts
end

/-- `_cycle_check` entered at `RuleCheck(m)`: a repeat on the current path is a cycle;
otherwise add `m` to the path and, if `m` is defined, walk its definition.  `fuel` bounds
the number of nested definitions entered (Python: unbounded recursion that terminates
because `seen` grows along every path). -/
def cycRef (rs : List (Str × Tree)) : Nat → List Str → Str → Bool
  | 0, seen, m => seen.contains m
  | n + 1, seen, m =>
    seen.contains m ||
      (match afind m rs with
       | none => false
       | some t => cycTree (cycRef rs n) (m :: seen) t)

/-- `_cycle_check(check)` as called by `check_rules` (empty path-set). -/
def cycleCheck (rs : List (Str × Tree)) (t : Tree) : Bool :=
  cycTree (cycRef rs (rs.length + 1)) [] t

/-- names `check_rules` lists as referencing an undefined rule / as part of a cycle -/
def undefinedNames (rs : List (Str × Tree)) : List Str :=
  (rs.filter fun p => undefTree rs p.2).map (·.1)
def cyclicNames (rs : List (Str × Tree)) : List Str :=
  (rs.filter fun p => cycleCheck rs p.2).map (·.1)

/-- `Enforcer.check_rules()` return value (`skip` = `skip_undefined_check`). -/
def checkRules (rs : List (Str × Tree)) (skip : Bool) : Bool :=
  rs.all fun p => !((!skip && undefTree rs p.2) || cycleCheck rs p.2)

/-- Exit status of `oslopolicy-validator` (0 = ok): a missing policy file fails outright;
otherwise invalid rules, a file rule the service does not register, or a rule that was
forced to `!` although its text is not `!` (YAML null included) each fail. -/
def forcedToFalse (rs : List (Str × Tree)) (p : Str × Bool) : Bool :=
  match afind p.1 rs with
  | some t => t.print = ['!'] && !p.2
  | none => false

def validatorFails (fileMissing : Bool) (rs : List (Str × Tree))
    (fileRules : List (Str × Bool))   -- (name, "its source value is the text `!` or null")
    (registered : List Str) : Bool :=
  fileMissing || !(checkRules rs false) || fileRules.any (fun p => !registered.contains p.1) ||
    fileRules.any (forcedToFalse rs)

def validatorStatus (fileMissing : Bool) (rs : List (Str × Tree)) (fileRules : List (Str × Bool))
    (registered : List Str) : Nat :=
  if validatorFails fileMissing rs fileRules registered then 1 else 0

end OsloPolicy
