import OsloPolicy.Model.Enforce
import OsloPolicy.Model.Loader
/-
`shell.tool` (oslopolicy-checker): credentials and target derived from a token file,
rule store with default rule `default`, one verdict per policy name containing a colon in
sorted order, or only the requested rule.
-/
namespace OsloPolicy

/-- `sorted(names)`: the same code-point lexicographic insertion sort the loader model uses for
file names (`sortByName`), applied to bare names -/
def sortNames (l : List Str) : List Str :=
  (sortByName (l.map fun n => (⟨n, false, 0, []⟩ : Entry))).map (·.name)

def sGet (kvs : List (Str × JVal)) (k : String) : Option JVal := afind k.toList kvs

/-- `flatten(d)`: nested mappings become dotted keys; `fuel` bounds the nesting depth -/
def flattenAux : Nat → Str → List (Str × JVal) → List (Str × JVal)
  | 0, _, _ => []
  | n + 1, parent, kvs =>
    kvs.flatMap fun p =>
      let key := if parent.isEmpty then p.1 else parent ++ '.' :: p.1
      match p.2 with
      | .obj inner _ => flattenAux n key inner
      | v => [(key, v)]

/-- dict(items): a later duplicate key overrides an earlier one -/
def toDict (items : List (Str × JVal)) : List (Str × JVal) :=
  items.foldl (fun acc p => ainsert p.1 p.2 acc) []

def flatten (kvs : List (Str × JVal)) : List (Str × JVal) := toDict (flattenAux 64 [] kvs)

def allStr : JVal := .str "all".toList

/-- roles (names only), user_id and — for a project-scoped token — project_id -/
def credsBase (token : List (Str × JVal)) : List (Str × JVal) :=
  let roleNames : List JVal := match sGet token "roles" with
    | some (.arr rs _) => rs.filterMap fun r => r.get "name".toList
    | _ => []
  let c1 := ainsert "roles".toList (.arr roleNames []) token
  let uid : JVal := ((sGet token "user").bind fun u => u.get "id".toList).getD .null
  let c2 := ainsert "user_id".toList uid c1
  match sGet token "project" with
  | some p => if p.truthy then ainsert "project_id".toList ((p.get "id".toList).getD .null) c2 else c2
  | none => c2

/-- a system-scoped token gets `system_scope = 'all'` and, as `Enforcer.enforce` would do
anyway, `system` set to that same value -/
def withSystem (token c : List (Str × JVal)) : List (Str × JVal) :=
  match sGet token "system" with
  | some s => if s.truthy then ainsert system_ allStr (ainsert systemScope_ allStr c) else c
  | none => c

/-- the credentials `tool()` builds from `token` (the value under `"token"` in the access file) -/
def deriveCreds (token : List (Str × JVal)) (isAdmin : Bool) : List (Str × JVal) :=
  ainsert "is_admin".toList (.bool isAdmin) (withSystem token (credsBase token))

/-- the target: the flattened target file, else the token's own user (and project) -/
def deriveTarget (token creds : List (Str × JVal)) (targetFile : Option (List (Str × JVal))) : List (Str × JVal) :=
  match targetFile with
  | some t => flatten t
  | none =>
    let uid : JVal := ((sGet token "user").bind fun u => u.get "id".toList).getD .null
    let t1 := [("user_id".toList, uid)]
    match sGet creds "project_id" with
    | some p => if p.truthy then t1 ++ [("project_id".toList, p)] else t1
    | none => t1

/-- names the tool prints a verdict for -/
def checkerNames (rs : Rules) (requested : Option Str) : List Str :=
  match requested with
  | some k => [k]
  | none => (sortNames (rs.entries.map (·.1))).filter fun k => k.contains ':'

/-- `_try_rule`: `rule(target, access_data, enforcer, current_rule=key)` -/
def checkerVerdict (rs : Rules) (leafOf : JVal → Option Str → Str → Str → Outcome) (fuel : Nat)
    (creds : JVal) (key : Str) : Outcome :=
  match rs.lookup key with
  | none => .raise .keyError           -- `rules[apply_rule]` for an unknown name without usable default
  | some t => eval rs (leafOf creds (some key)) fuel t

def checkerRun (rs : Rules) (leafOf : JVal → Option Str → Str → Str → Outcome) (fuel : Nat)
    (creds : JVal) (requested : Option Str) : List (Str × Outcome) :=
  (checkerNames rs requested).map fun k => (k, checkerVerdict rs leafOf fuel creds k)

end OsloPolicy
