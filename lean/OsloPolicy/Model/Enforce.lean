import OsloPolicy.Model.Eval
/-
`Enforcer.enforce`, `_enforce_scope`, `authorize` (policy.py), after `load_rules`.
-/
namespace OsloPolicy

/-- What `enforce` needs to know of a registered `RuleDefault`. -/
structure Registered where
  name : Str
  /-- `scope_types`: `none` or a list of strings. -/
  scopeTypes : Option (List Str)
deriving Repr, Inhabited

/-- The first argument of `enforce`: a policy name or a check object (with the
`scope_types` attribute it may carry). -/
inductive RuleArg where
  | name (n : Str)
  | check (t : Tree) (scopeTypes : Option (List Str))
deriving Repr, Inhabited

/-- `do_raise` / `exc`. -/
structure RaiseSpec where
  doRaise : Bool
  customExc : Bool     -- an exception class was supplied
deriving Repr, Inhabited

def system_ : Str := "system".toList
def systemScope_ : Str := "system_scope".toList
def domainId_ : Str := "domain_id".toList

/-- `d[k] = v` on a JSON object (the printed form is not maintained: no modelled
observation reads the text of the credentials mapping itself). -/
def JVal.set (v : JVal) (k : Str) (x : JVal) : JVal :=
  match v with
  | .obj kvs t => .obj (ainsert k x kvs) t
  | o => o

/-- `if creds.get('system_scope'): creds['system'] = creds.get('system_scope')` -/
def mirrorSystemScope (creds : JVal) : JVal :=
  match creds.get systemScope_ with
  | some v => if v.truthy then creds.set system_ v else creds
  | none => creds

/-- The token scope `_enforce_scope` derives from the credentials. -/
def tokenScope (creds : JVal) : Str :=
  if ((creds.get system_).map JVal.truthy).getD false then "system".toList
  else if ((creds.get domainId_).map JVal.truthy).getD false then "domain".toList
  else "project".toList

/-- `_enforce_scope`: `ret true` = scope acceptable (or not enforced). -/
def enforceScope (enforceScopeOpt : Bool) (creds : JVal) (types : List Str) (doRaise : Bool) :
    Outcome :=
  if types.contains (tokenScope creds) then .ret true
  else if enforceScopeOpt then (if doRaise then .raise .invalidScope else .ret false)
  else .ret true

structure EnfView where
  rules : Rules
  registered : List Registered
  enforceScopeOpt : Bool
  fuel : Nat

def findRegistered (regs : List Registered) (n : Str) : Option Registered :=
  regs.find? (·.name = n)

/-- The single exit of `enforce`: `if do_raise and not result: raise …`. -/
def finish (rs : RaiseSpec) (nameForExc : Str) : Outcome → Outcome
  | .ret false =>
    if rs.doRaise then (if rs.customExc then .raise .custom else .raise (.notAuthorized nameForExc))
    else .ret false
  | o => o

/-- `Enforcer.enforce` from the credential type gate on. `leafOf creds cur` evaluates
the non-reference leaves. -/
def enforce (e : EnfView) (leafOf : JVal → Option Str → Str → Str → Outcome)
    (rule : RuleArg) (creds : JVal) (rs : RaiseSpec) : Outcome :=
  match creds with
  | .obj _ _ =>
    let creds := mirrorSystemScope creds
    match rule with
    | .check t st =>
      let gate : Outcome := match st with
        | some (ty :: tys) => enforceScope e.enforceScopeOpt creds (ty :: tys) rs.doRaise
        | _ => .ret true
      (match gate with
       | .ret true => finish rs (t.print) (eval e.rules (leafOf creds none) e.fuel t)
       | .ret false => .ret false            -- `return False` straight away
       | o => o)
    | .name n =>
      if e.rules.entries.isEmpty then finish rs n (.ret false)
      else match e.rules.lookup n with
        | none => finish rs n (.ret false)
        | some t =>
          let gate : Outcome := match findRegistered e.registered n with
            | some r => (match r.scopeTypes with
                | some (ty :: tys) => enforceScope e.enforceScopeOpt creds (ty :: tys) rs.doRaise
                | _ => .ret true)
            | none => .ret true
          (match gate with
           | .ret true => finish rs n (eval e.rules (leafOf creds (some n)) e.fuel t)
           | .ret false => .ret false
           | o => o)
  | _ => .raise .invalidContext

/-- `Enforcer.authorize` -/
def authorize (e : EnfView) (leafOf : JVal → Option Str → Str → Str → Outcome)
    (n : Str) (creds : JVal) (rs : RaiseSpec) : Outcome :=
  match findRegistered e.registered n with
  | none => .raise (.notRegistered n)
  | some _ => enforce e leafOf (.name n) creds rs

end OsloPolicy
