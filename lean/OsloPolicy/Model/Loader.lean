import OsloPolicy.Model.Eval
/-
`Enforcer.load_rules` in its default overwrite mode (policy.py), `_load_policy_file`,
`_cache_handler.read_cached_file`, `_is_directory_updated`, `_walk_through_policy_directory`,
`_record_file_rules`, `_handle_deprecated_rule`, and the registered-defaults merge.

Files are modelled by their *parsed* content (name ↦ rule value): turning text into that
mapping is the JSON/YAML library's job.  Modification times are natural numbers ≥ 1.
-/
namespace OsloPolicy

/-- a parsed policy file: name ↦ rule value, in document order -/
abbrev Content := List (Str × JVal)
/-- `Enforcer.rules` (without the default-rule setting, which `load_rules` never changes) -/
abbrev Store := List (Str × Tree)

/-- `RuleDefault` as far as loading is concerned. -/
structure RuleDefault where
  name : Str
  checkStr : JVal
  /-- `deprecated_rule`: (old name, old check_str) -/
  deprecated : Option (Str × JVal)
deriving Repr, Inhabited

/-- `dict.update(Rules.load(data))` / `Rules(Rules.load(data))` -/
def updStore (s : Store) (c : Content) : Store :=
  c.foldl (fun acc p => ainsert p.1 (parseValue p.2) acc) s

/-- `_record_file_rules` without the reset -/
def updFileRules (fr : Content) (c : Content) : Content :=
  c.foldl (fun acc p => ainsert p.1 p.2 acc) fr

/-! ### Deprecation (`_handle_deprecated_rule`) -/

def rulePrefix : Str := "rule:".toList

/-- `deprecated_rule.check_str != default.check_str` — comparison of the two check strings
as Python values; the harness only uses strings here. -/
def jvalStrNe : JVal → JVal → Bool
  | .str a, .str b => a != b
  | _, _ => true

/-- The check a registered default with a deprecated predecessor contributes, given the
rules found in files and the `enforce_new_defaults` option. -/
def handleDeprecated (enforceNew : Bool) (fileRules : Content) (d : RuleDefault)
    (old : Str × JVal) : Tree :=
  let newCheck := parseValue d.checkStr
  let viaOld : Option Tree :=
    if old.1 ≠ d.name then
      match afind old.1 fileRules with
      | some v =>
        -- `file_rule.check != deprecated_rule.check` compares two distinct objects: always true
        if (parseValue v).print ≠ rulePrefix ++ d.name ∧ (afind d.name fileRules).isNone
        then some (parseValue v) else none
      | none => none
    else none
  match viaOld with
  | some t => t
  | none =>
    if !enforceNew && jvalStrNe old.2 d.checkStr && (afind d.name fileRules).isNone
    then .or [newCheck, parseValue old.2]
    else newCheck

def defaultCheck (enforceNew : Bool) (fileRules : Content) (d : RuleDefault) : Tree :=
  match d.deprecated with
  | some old => handleDeprecated enforceNew fileRules d old
  | none => parseValue d.checkStr

/-- the loop over `registered_rules`: a default is added only for a name still absent -/
def mergeDefaults (enforceNew : Bool) (fileRules : Content) (regs : List RuleDefault)
    (rules : Store) : Store :=
  regs.foldl (fun acc d =>
    if (afind d.name acc).isSome then acc
    else ainsert d.name (defaultCheck enforceNew fileRules d) acc) rules

/-! ### File system -/

structure Entry where
  name : Str
  isDir : Bool
  mtime : Nat
  content : Content
deriving Repr, Inhabited

structure Dir where
  mtime : Nat                 -- the directory's own mtime
  entries : List Entry        -- everything `os.listdir` returns
deriving Repr, Inhabited

structure FS where
  main : Option (Content × Nat)
  dirs : List (Option Dir)    -- one slot per configured directory; none = does not exist
deriving Repr, Inhabited

/-- code-point lexicographic order: what `list.sort()` does on `str` -/
def strLt : Str → Str → Bool
  | [], [] => false
  | [], _ :: _ => true
  | _ :: _, [] => false
  | a :: as, b :: bs => a.toNat < b.toNat || (a.toNat = b.toNat && strLt as bs)

def insertByName (e : Entry) : List Entry → List Entry
  | [] => [e]
  | x :: r => if strLt e.name x.name then e :: x :: r else x :: insertByName e r

def sortByName (l : List Entry) : List Entry := l.foldr insertByName []

/-- files `_walk_through_policy_directory` hands to the loader: regular files, not
starting with `.`, in sorted name order -/
def Dir.visible (d : Dir) : List Entry :=
  sortByName (d.entries.filter fun e => !e.isDir && e.name.head? != some '.')

/-- `_is_directory_updated`'s notion of the directory's time: newest of the directory and
*all* its entries -/
def Dir.newest (d : Dir) : Nat := d.entries.foldl (fun m e => max m e.mtime) d.mtime

/-! ### Enforcer state -/

structure Enf where
  resolved : Bool                       -- `policy_path` has been found
  mainCache : Option (Content × Nat)    -- `_file_cache[policy_path]`
  dirMt : List Nat                      -- `_policy_dir_mtimes`, one per configured directory (0 = never seen)
  rules : Store
  fileRules : Content
deriving Repr, Inhabited

def Enf.init (nDirs : Nat) : Enf := ⟨false, none, List.replicate nDirs 0, [], []⟩

/-- `_load_policy_file(policy_path, force, overwrite=True)` given the cache entry that
survives the optional `delete_cached_file`; returns the new state and `rules_changed`. -/
def loadMainC (e : Enf) (fs : FS) (cache : Option (Content × Nat)) : Enf × Bool :=
  match fs.main, cache with
  | none, _ =>        -- the file vanished: `(True, {})`, read as an empty policy file
    ({ e with mainCache := cache, rules := [], fileRules := [] }, true)
  | some (c, mt), none =>
    ({ e with mainCache := some (c, mt), rules := updStore [] c, fileRules := updFileRules [] c }, true)
  | some (c, mt), some (data, cmt) =>
    if mt > cmt then
      ({ e with mainCache := some (c, mt), rules := updStore [] c, fileRules := updFileRules [] c }, true)
    else if e.rules.isEmpty then
      ({ e with mainCache := cache, rules := updStore [] data, fileRules := updFileRules [] data }, true)
    else ({ e with mainCache := cache }, false)

def loadMain (e : Enf) (fs : FS) (force : Bool) : Enf × Bool :=
  loadMainC e fs (if force then none else e.mainCache)

/-- `_is_directory_updated` over all configured directories: new cache, and whether any
existing directory is newer than remembered -/
def scanDirs : List (Option Dir) → List Nat → List Nat × Bool
  | some d :: ds, mt :: mts =>
    let (r, b) := scanDirs ds mts
    if d.newest > mt then (d.newest :: r, true) else (mt :: r, b)
  | none :: ds, mt :: mts => let (r, b) := scanDirs ds mts; (mt :: r, b)
  | _, mts => (mts, false)

def anyExists (dirs : List (Option Dir)) : Bool := dirs.any Option.isSome

def applyDir (d : Dir) (e : Enf) : Enf :=
  d.visible.foldl (fun e f =>
    { e with rules := updStore e.rules f.content, fileRules := updFileRules e.fileRules f.content }) e

def applyDirs (dirs : List (Option Dir)) (e : Enf) : Enf :=
  dirs.foldl (fun e od => match od with | some d => applyDir d e | none => e) e

/-- `Enforcer.load_rules(force_reload)` with `use_conf`, overwrite mode. -/
def load (enforceNew : Bool) (regs : List RuleDefault) (e : Enf) (fs : FS) (force : Bool) : Enf :=
  let resolved := e.resolved || fs.main.isSome
  let e0 := { e with resolved := resolved }
  let (e1, changed) := if resolved then loadMain e0 fs force else (e0, false)
  let (mts, upd) := scanDirs fs.dirs e1.dirMt
  let e2 := { e1 with dirMt := mts }
  let e3 :=
    if (force || changed || upd) && anyExists fs.dirs then
      let e2a := if resolved then (if !changed then (loadMain e2 fs true).1 else e2)
                 else { e2 with rules := [], fileRules := [] }
      applyDirs fs.dirs e2a
    else e2
  { e3 with rules := mergeDefaults enforceNew e3.fileRules regs e3.rules }

/-- what a newly constructed enforcer has after its first load -/
def fresh (enforceNew : Bool) (regs : List RuleDefault) (fs : FS) : Enf :=
  load enforceNew regs (Enf.init fs.dirs.length) fs false

/-! ### Choice of the policy file (`Enforcer.__init__`, `pick_default_policy_file`) -/

structure PickInput where
  ctor : Option Str            -- `policy_file` constructor argument
  value : Str                  -- `conf.oslo_policy.policy_file`
  neverConfigured : Bool       -- option location is `opt_default` or `set_default`
  yamlExists : Bool            -- `conf.find_file('policy.yaml')`
  jsonExists : Bool            -- `conf.find_file('policy.json')`
  fallback : Bool              -- `fallback_to_json_file`

def policyYaml : Str := "policy.yaml".toList
def policyJson : Str := "policy.json".toList

/-- `pick_default_policy_file`, branch for branch -/
def pickDefault (i : PickInput) : Str :=
  if i.value = policyYaml ∧ i.fallback = true then
    let picked : Option Str :=
      if i.yamlExists then some i.value
      else if i.neverConfigured then (if i.jsonExists then some policyJson else none)
      else none
    match picked with
    | some f => f
    | none => i.value
  else i.value

/-- `self.policy_file = policy_file or pick_default_policy_file(…)` -/
def pickPolicyFile (i : PickInput) : Str :=
  match i.ctor with
  | some f => if f.isEmpty then pickDefault i else f
  | none => pickDefault i

/-! ### File operations of the C10 alphabet -/

inductive FileId where
  | main
  | dirFile (dir : Nat) (name : Str)
deriving Repr, Inhabited

inductive Op where
  | write (f : FileId) (c : Content)    -- create or rewrite with new content
  | touch (f : FileId)
  | delete (f : FileId)
  | load
  | loadForce
deriving Repr, Inhabited

def setEntry (name : Str) (c : Content) (t : Nat) : List Entry → List Entry
  | [] => [⟨name, false, t, c⟩]
  | e :: r => if e.name = name then { e with mtime := t, content := c } :: r else e :: setEntry name c t r

def touchEntry (name : Str) (t : Nat) : List Entry → List Entry
  | [] => []
  | e :: r => if e.name = name then { e with mtime := t } :: r else e :: touchEntry name t r

def modifyDir (i : Nat) (f : Dir → Dir) : List (Option Dir) → List (Option Dir)
  | [] => []
  | od :: r => match i with
    | 0 => od.map f :: r
    | i + 1 => od :: modifyDir i f r

/-- Apply a file operation at time `t` (strictly larger than every earlier time): the file
and, for creation/deletion, its directory are stamped with `t`. -/
def fsStep (fs : FS) (t : Nat) : Op → FS
  | .write .main c => { fs with main := some (c, t) }
  | .touch .main => { fs with main := fs.main.map fun p => (p.1, t) }
  | .delete .main => { fs with main := none }
  | .write (.dirFile i n) c =>
    { fs with dirs := modifyDir i (fun d => { mtime := t, entries := setEntry n c t d.entries }) fs.dirs }
  | .touch (.dirFile i n) =>
    { fs with dirs := modifyDir i (fun d => { d with entries := touchEntry n t d.entries }) fs.dirs }
  | .delete (.dirFile i n) =>
    { fs with dirs := modifyDir i (fun d => { mtime := t, entries := d.entries.filter (·.name ≠ n) }) fs.dirs }
  | .load => fs
  | .loadForce => fs

end OsloPolicy
