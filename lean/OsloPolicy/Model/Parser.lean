import OsloPolicy.Model.Lexer
/-
`_parser.ParseState` (greedy shift-reduce), `_parse_text_rule`, `_parse_list_rule`,
`parse_rule`.
-/
namespace OsloPolicy

/-- Stack entries `(token kind, value)`; top of stack = head of the list. -/
inductive Ent where
  | lp | rp | kAnd | kOr | kNot
  | str (s : Str)
  | chk (t : Tree) | andE (ts : List Tree) | orE (ts : List Tree)
deriving Repr, Inhabited

def Tok.ent : Tok → Ent
  | .lp => .lp | .rp => .rp | .kAnd => .kAnd | .kOr => .kOr | .kNot => .kNot
  | .str s => .str s | .chk t => .chk t

/-- `_mix_or_and_expr`: pop the or-expression's last member, and-join it with `c`
(extending it in place when it already is an `AndCheck`), push it back. -/
def mixLast (ts : List Tree) (c : Tree) : List Tree :=
  match ts.getLast? with
  | some (.and as) => ts.dropLast ++ [.and (as ++ [c])]
  | some t => ts.dropLast ++ [.and [t, c]]
  | none => ts   -- Python: IndexError from list.pop(); an or_expr always has ≥ 2 members

/-- `ParseState.reduce`: the ten reductions.  Patterns are listed as stack suffixes,
top first.  No two patterns can match the same stack, so the order in which the
metaclass happens to list them is irrelevant (`Properties/Tie.lean`). -/
def reduce : List Ent → List Ent
  | .rp :: .chk t :: .lp :: r => reduce (.chk t :: r)
  | .rp :: .andE ts :: .lp :: r => reduce (.chk (.and ts) :: r)
  | .rp :: .orE ts :: .lp :: r => reduce (.chk (.or ts) :: r)
  | .chk b :: .kAnd :: .chk a :: r => reduce (.andE [a, b] :: r)
  | .chk c :: .kAnd :: .orE ts :: r => reduce (.orE (mixLast ts c) :: r)
  | .chk c :: .kAnd :: .andE ts :: r => reduce (.andE (ts ++ [c]) :: r)
  | .chk b :: .kOr :: .chk a :: r => reduce (.orE [a, b] :: r)
  | .chk b :: .kOr :: .andE ts :: r => reduce (.orE [.and ts, b] :: r)
  | .chk c :: .kOr :: .orE ts :: r => reduce (.orE (ts ++ [c]) :: r)
  | .chk t :: .kNot :: r => reduce (.chk (.not t) :: r)
  | s => s
termination_by s => s.length

def shift (st : List Ent) (t : Tok) : List Ent := reduce (t.ent :: st)

def run (st : List Ent) (toks : List Tok) : List Ent := toks.foldl shift st

/-- `ParseState.result`: exactly one entry, and not an unreduced terminal. -/
def result : List Ent → Option Tree
  | [.chk t] => some t
  | [.andE ts] => some (.and ts)
  | [.orE ts] => some (.or ts)
  | _ => none

def parseToks (toks : List Tok) : Option Tree := result (run [] toks)

/-- `_parse_text_rule` -/
def parseText (s : Str) : Tree :=
  if s.isEmpty then .tt
  else match parseToks (tokenize s) with
    | some t => t
    | none => .ff

/-- One member of the outer list: a bare string or a list of strings. -/
def innerStrings : JVal → Option (List Str)
  | .str s => some [s]
  | .arr xs _ => xs.foldr (fun x acc => match x, acc with
      | .str s, some l => some (s :: l)
      | _, _ => none) (some [])
  | _ => none

/-- `_is_list_rule` -/
def listRuleShape : JVal → Option (List JVal)
  | .arr xs _ => if xs.all (fun x => (innerStrings x).isSome) then some xs else none
  | _ => none

def andOf : List Tree → Tree
  | [t] => t
  | ts => .and ts

def orOf : List Tree → Tree
  | [] => .ff
  | [t] => t
  | ts => .or ts

/-- The `or_list` built by the loop of `_parse_list_rule`. -/
def listRuleMembers : List JVal → List Tree
  | [] => []
  | x :: r =>
    if !x.truthy then listRuleMembers r          -- `if not inner_rule: continue`
    else match innerStrings x with
      | some ss => andOf (ss.map parseCheck) :: listRuleMembers r
      | none => listRuleMembers r                -- excluded by `listRuleShape`

/-- `_parse_list_rule` -/
def parseListRule (v : JVal) : Tree :=
  match listRuleShape v with
  | none => .ff
  | some xs => if xs.isEmpty then .tt else orOf (listRuleMembers xs)

/-- `parse_rule` -/
def parseValue : JVal → Tree
  | .str s => parseText s
  | v => parseListRule v

end OsloPolicy
