import OsloPolicy.Model.Tree
/-
`_parser._parse_check` and `_parser._parse_tokenize`.
-/
namespace OsloPolicy

/-- Code points for which Python's `str.isspace()` / `re` `\s` hold.  This list is
re-derived from the running interpreter on every check run (`Generated/PyTables.lean`)
and compared with this constant by `decide` (`Properties/Tie.lean`). -/
def pySpaceCodes : List Nat :=
  [9, 10, 11, 12, 13, 28, 29, 30, 31, 32, 133, 160, 5760, 8192, 8193, 8194, 8195, 8196,
   8197, 8198, 8199, 8200, 8201, 8202, 8232, 8233, 8239, 8287, 12288]

def isSpace (c : Char) : Bool := pySpaceCodes.contains c.toNat

inductive Tok where
  | lp | rp | kAnd | kOr | kNot
  | str (s : Str)         -- quoted string: never part of a sentence
  | chk (t : Tree)        -- a check, already through `_parse_check`
deriving Repr, Inhabited

/-- `rule.split(':', 1)` — `none` when there is no colon (Python: unpacking fails). -/
def splitColon : Str → Option (Str × Str)
  | [] => none
  | c :: r => if c = ':' then some ([], r) else
      match splitColon r with
      | some (k, m) => some (c :: k, m)
      | none => none

/-- `_parse_check`.  With the built-in registrations (`rule`, `role`, `None`; extensions
`http`, `https`) every `kind:match` finds a handler, so the result is a `chk` leaf whose
behaviour is selected by `kind` at evaluation time. -/
def parseCheck (s : Str) : Tree :=
  if s = ['!'] then .ff
  else if s = ['@'] then .tt
  else match splitColon s with
    | some (k, m) => .chk k m
    | none => .ff

/-- `re.split(r'\s+', rule)` followed by dropping empty tokens. -/
def splitWsAux : Str → Str → List Str
  | [], cur => if cur.isEmpty then [] else [cur.reverse]
  | c :: r, cur =>
    if isSpace c then
      (if cur.isEmpty then splitWsAux r [] else cur.reverse :: splitWsAux r [])
    else splitWsAux r (c :: cur)

def splitWs (s : Str) : List Str := splitWsAux s []

def rstripChar (c : Char) (s : Str) : Str := (s.reverse.dropWhile (· = c)).reverse

/-- ASCII lower-casing.  `_parse_tokenize` calls `str.lower()`; that no code point
outside `A–Z` lowers to a string containing one of the letters of `and`, `or`, `not`
is re-checked against the running interpreter (`Generated/PyTables.lean`). -/
def asciiLower (c : Char) : Char :=
  if 'A' ≤ c ∧ c ≤ 'Z' then Char.ofNat (c.toNat + 32) else c

def isQuoted (s : Str) : Bool :=
  match s with
  | a :: b :: r =>
    let z := (b :: r).getLast?
    (a = '"' && z = some '"') || (a = '\'' && z = some '\'')
  | _ => false

/-- The token(s) for one whitespace-free word (body of the `for` loop). -/
def tokenizeWord (w : Str) : List Tok :=
  let clean := w.dropWhile (· = '(')
  let lead := List.replicate (w.length - clean.length) Tok.lp
  if clean.isEmpty then lead
  else
    let core := rstripChar ')' clean
    let trail := List.replicate (clean.length - core.length) Tok.rp
    let low := core.map asciiLower
    let mid : List Tok :=
      if low = "and".toList then [.kAnd]
      else if low = "or".toList then [.kOr]
      else if low = "not".toList then [.kNot]
      else if core.isEmpty then []
      else if isQuoted core then [.str (core.tail.dropLast)]
      else [.chk (parseCheck core)]
    lead ++ mid ++ trail

/-- `list(_parse_tokenize(rule))` -/
def tokenize (s : Str) : List Tok := (splitWs s).flatMap tokenizeWord

end OsloPolicy
