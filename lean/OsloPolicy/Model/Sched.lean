/-
Two threads on one enforcer (C20).  Thread A and thread B both run `enforce` =
`load_rules(); decide`.  The reload is decomposed into the shared-state writes the code
performs, in order, at source-line granularity: refresh the file-cache entry; replace the
rule store by the main file's rules; scan the policy directories; (force-)reload the main
file; re-apply the directory files; merge the registered defaults one by one; then look the
queried name up (default-rule fallback, fail closed) and decide.

Abstract on purpose: a rule is identified with the decision it gives for the fixed request
under consideration (`Nat × Bool`), which is all the property is about.
-/
namespace OsloPolicy.Sched

abbrev Content := List (Nat × Bool)                 -- policy name ↦ decision of its check
def look (c : Content) (k : Nat) : Option Bool := (c.find? (·.1 == k)).map (·.2)
def upd (base new : Content) : Content := new ++ base    -- dict.update: new entries shadow

structure Scenario where
  mainNew : Content          -- the main file as it is now
  dirsNew : Content          -- what the policy directories define now
  regs : List (Nat × Bool)   -- registered defaults
  defaultRule : Option Nat   -- name of the default rule
  query : Nat
deriving Repr

structure Shared where
  rules : Content
  mainStale : Bool           -- main file newer than the cached mtime
  dirStale : Bool            -- a policy directory newer than the cached mtime
deriving Repr

structure Local where
  pc : Nat := 0
  changed : Bool := false
  updd : Bool := false
  out : Option Bool := none   -- the decision, once taken
deriving Repr

/-- `rules[name]` with `Rules.__missing__`, `KeyError` ↦ deny, empty store ↦ deny -/
def decideOn (sc : Scenario) (rules : Content) : Bool :=
  if rules.isEmpty then false
  else match look rules sc.query with
    | some b => b
    | none => match sc.defaultRule with
      | some d => (look rules d).getD false
      | none => false

/-- one atomic step of `enforce` for one thread -/
def step (sc : Scenario) (s : Shared) (l : Local) : Shared × Local :=
  match l.pc with
  | 0 => -- read_cached_file: compare mtimes, refresh the cache entry
    if s.mainStale || s.rules.isEmpty then ({ s with mainStale := false }, { l with pc := 1, changed := true })
    else (s, { l with pc := 2, changed := false })
  | 1 => ({ s with rules := sc.mainNew }, { l with pc := 2 })                      -- set_rules(overwrite)
  | 2 => ({ s with dirStale := false }, { l with pc := 3, updd := s.dirStale })     -- _is_directory_updated
  | 3 => if l.changed || l.updd then
           (if l.changed then s else { s with rules := sc.mainNew }, { l with pc := 4 })  -- forced main reload
         else (s, { l with pc := 5 })
  | 4 => ({ s with rules := upd s.rules sc.dirsNew }, { l with pc := 5 })           -- policy.d re-applied
  | n+5 =>
    match sc.regs[n]? with
    | some d => (if (look s.rules d.1).isSome then s else { s with rules := s.rules ++ [d] }, { l with pc := n + 6 })
    | none => (s, { l with pc := n + 5, out := some (decideOn sc s.rules) })

def done (l : Local) : Bool := l.out.isSome

/-- run a schedule (true = thread A, false = thread B); a finished thread's turn is a no-op -/
def run (sc : Scenario) : List Bool → Shared × Local × Local → Shared × Local × Local
  | [], st => st
  | true :: rest, (s, a, b) => if done a then run sc rest (s, a, b) else
      let (s', a') := step sc s a; run sc rest (s', a', b)
  | false :: rest, (s, a, b) => if done b then run sc rest (s, a, b) else
      let (s', b') := step sc s b; run sc rest (s', a, b')

/-- the complete policy a given pair (main file, directories) means -/
def compute (sc : Scenario) (main dirs : Content) : Content :=
  sc.regs.foldl (fun acc d => if (look acc d.1).isSome then acc else acc ++ [d]) (upd main dirs)

/-- upper bound on the number of steps one `enforce` takes -/
def span (sc : Scenario) : Nat := sc.regs.length + 7

/-- A runs `k` steps, B runs to completion, A finishes: (A's decision, B's decision) -/
def oneSwitch (sc : Scenario) (s0 : Shared) (k : Nat) : Option Bool × Option Bool :=
  let sched := List.replicate k true ++ List.replicate (span sc) false ++ List.replicate (span sc) true
  let r := run sc sched (s0, {}, {})
  (r.2.1.out, r.2.2.out)

/-- all decisions thread B can obtain over the one-switch schedules -/
def readerOutcomes (sc : Scenario) (s0 : Shared) : List (Option Bool) :=
  ((List.range (span sc + 1)).map fun k => (oneSwitch sc s0 k).2).eraseDups

end OsloPolicy.Sched
