import OsloPolicy.Model.Basic
/-
Check trees (`_checks.py`): `TrueCheck`, `FalseCheck`, `Check(kind, match)` and its
registered subclasses, `NotCheck`, `AndCheck`, `OrCheck`; and their `__str__`.
-/
namespace OsloPolicy

inductive Tree where
  | tt | ff
  | chk (kind mtch : Str)
  | not (t : Tree)
  | and (ts : List Tree)
  | or (ts : List Tree)
deriving Repr, Inhabited

def joinWith (sep : Str) : List Str → Str
  | [] => []
  | [x] => x
  | x :: y :: r => x ++ sep ++ joinWith sep (y :: r)

mutual
/-- `str(check)` -/
def Tree.print : Tree → Str
  | .tt => ['@']
  | .ff => ['!']
  | .chk k m => k ++ ':' :: m
  | .not t => "not ".toList ++ t.print
  | .and ts => '(' :: joinWith " and ".toList (printList ts) ++ [')']
  | .or ts => '(' :: joinWith " or ".toList (printList ts) ++ [')']
def printList : List Tree → List Str
  | [] => []
  | t :: ts => t.print :: printList ts
end

mutual
def Tree.beq : Tree → Tree → Bool
  | .tt, .tt => true
  | .ff, .ff => true
  | .chk k m, .chk k' m' => k == k' && m == m'
  | .not a, .not b => a.beq b
  | .and as, .and bs => beqList as bs
  | .or as, .or bs => beqList as bs
  | _, _ => false
def beqList : List Tree → List Tree → Bool
  | [], [] => true
  | a :: as, b :: bs => a.beq b && beqList as bs
  | _, _ => false
end

instance : BEq Tree := ⟨Tree.beq⟩

end OsloPolicy
