import OsloPolicy.Model.Eval
/-
`_external.HttpCheck` / `HttpsCheck`: what is sent and how the reply is read.
Transport (requests), TLS and the JSON/form encoders are the libraries'; the model takes
the result of `requests.post` as a value.
-/
namespace OsloPolicy

/-- outcome of `requests.post` -/
inductive PostResult where
  | reply (body : Str) (status : Nat)
  | timeout                     -- requests.exceptions.Timeout
  | transportError              -- any other exception of the transport
deriving Repr, Inhabited

def lstripChar (c : Char) (s : Str) : Str := s.dropWhile (· = c)

/-- `r.text.lstrip('"').rstrip('"') == 'True'` -/
def replyAllows (body : Str) : Bool :=
  rstripChar '"' (lstripChar '"' body) = "True".toList

/-- what `HttpCheck.__call__` makes of the transport's result: only an explicit `True`
allows; a timeout becomes `RuntimeError`; other transport failures propagate -/
def httpDecision : PostResult → Outcome
  | .reply body _ => .ret (replyAllows body)
  | .timeout => .raise .runtimeError
  | .transportError => .raise .transport

/-- `HttpsCheck` pre-flight: a configured client certificate / key / CA file that is missing
or unreadable raises `RuntimeError` before anything is sent -/
structure TlsFiles where
  certOk : Bool      -- cert file unset, or exists and readable
  keyOk : Bool
  caOk : Bool        -- server verification off, CA file unset, or it exists
deriving Repr, Inhabited

def httpsDecision (tls : TlsFiles) (post : PostResult) : Outcome :=
  if tls.certOk && tls.keyOk && tls.caOk then httpDecision post else .raise .runtimeError

/-- the request body, before encoding -/
structure Payload where
  rule : Option Str              -- `current_rule`: the enforced policy name
  target : List (Str × JVal)     -- the complete target (`object()` values blanked to `{}`)
  credentials : JVal
  formEncoded : Bool             -- `application/x-www-form-urlencoded` vs JSON
deriving Repr, Inhabited

/-- `type(element) is object` values are replaced by `{}` in a *copy* of the target -/
def blankObjects (isBareObject : JVal → Bool) (tgt : List (Str × JVal)) : List (Str × JVal) :=
  tgt.map fun p => if isBareObject p.2 then (p.1, .obj [] "{}".toList) else p

def constructPayload (isBareObject : JVal → Bool) (formEncoded : Bool) (cur : Option Str)
    (tgt : List (Str × JVal)) (creds : JVal) : Payload :=
  { rule := cur, target := blankObjects isBareObject tgt, credentials := creds, formEncoded := formEncoded }

/-- the whole check: URL = `(kind + ':' + match) % target`, then post, then read the reply.
Returns the outcome together with what was sent (none if nothing was). -/
def remoteCheck (isBareObject : JVal → Bool) (formEncoded : Bool) (tls : TlsFiles)
    (post : Str → Payload → PostResult)
    (tgt : List (Str × JVal)) (creds : JVal) (cur : Option Str) (k m : Str) : Outcome × Option (Str × Payload) :=
  match subst tgt (k ++ ':' :: m) with
  | .keyError => (.raise .keyError, none)
  | .unsupported => (.raise .valueError, none)
  | .ok url =>
    let pl := constructPayload isBareObject formEncoded cur tgt creds
    if k = "https".toList then
      if tls.certOk && tls.keyOk && tls.caOk then (httpDecision (post url pl), some (url, pl))
      else (.raise .runtimeError, none)
    else (httpDecision (post url pl), some (url, pl))

end OsloPolicy
