/-
Model of oslo.policy — basic vocabulary.

Strings are `List Char` (list lemmas are what the proofs need); the driver converts at
the IO boundary.  Nothing in `Model/` imports anything outside Lean core.
-/
namespace OsloPolicy

abbrev Str := List Char

/-- JSON-like values as they reach the library from callers (credentials, targets) and
from policy files (rule values).  Containers and `other` carry the text Python's
`str()` gives for them (supplied by the harness: it needs `repr` of strings and floats,
which the model does not compute); `other` also carries its Python truthiness. -/
inductive JVal where
  | null
  | bool (b : Bool)
  | int (i : Int)
  | str (s : Str)
  | arr (xs : List JVal) (text : Str)
  | obj (kvs : List (Str × JVal)) (text : Str)
  | other (text : Str) (truthy : Bool)
deriving Repr, Inhabited

/-- Exceptions that can leave the modelled entry points.  A branch in which the Python
code raises is a branch in which the model returns `raise`; nothing is defaulted. -/
inductive Exn where
  | notAuthorized (name : Str)     -- PolicyNotAuthorized
  | custom                          -- the caller's exception class, built from the caller's args
  | invalidScope                    -- InvalidScope
  | invalidContext                  -- InvalidContextObject
  | notRegistered (name : Str)      -- PolicyNotRegistered
  | typeError | attributeError | keyError | syntaxError | valueError
  | recursion                       -- fuel exhausted = CPython's RecursionError
  | runtimeError                    -- http(s) check: timeout / TLS files
  | transport                       -- requests' own exception, passed through
deriving Repr, DecidableEq, Inhabited

inductive Outcome where
  | ret (b : Bool)
  | raise (e : Exn)
deriving Repr, DecidableEq, Inhabited

def natToStr (n : Nat) : Str := (toString n).toList

/-- Python `str(int)`. -/
def intToStr : Int → Str
  | .ofNat n => natToStr n
  | .negSucc n => '-' :: natToStr (n + 1)

/-- Python `str(v)`. -/
def JVal.pyStr : JVal → Str
  | .null => "None".toList
  | .bool true => "True".toList
  | .bool false => "False".toList
  | .int i => intToStr i
  | .str s => s
  | .arr _ t => t
  | .obj _ t => t
  | .other t _ => t

/-- Python truthiness `bool(v)`. -/
def JVal.truthy : JVal → Bool
  | .null => false
  | .bool b => b
  | .int i => i != 0
  | .str s => !s.isEmpty
  | .arr xs _ => !xs.isEmpty
  | .obj kvs _ => !kvs.isEmpty
  | .other _ b => b

/-- Association lists stand for Python dicts; `ainsert` keeps keys unique, so
first-match lookup is `d[k]`. -/
def afind {α} (k : Str) : List (Str × α) → Option α
  | [] => none
  | (k', v) :: r => if k' = k then some v else afind k r

/-- `d[k] = v` for a Python dict: replace in place if present, else append. -/
def ainsert {α} (k : Str) (v : α) : List (Str × α) → List (Str × α)
  | [] => [(k, v)]
  | (k', v') :: r => if k' = k then (k, v) :: r else (k', v') :: ainsert k v r

def akeys {α} (l : List (Str × α)) : List Str := l.map (·.1)

/-- `mapping.get(k)` on a JSON value that is a mapping. -/
def JVal.get (v : JVal) (k : Str) : Option JVal :=
  match v with
  | .obj kvs _ => afind k kvs
  | _ => none

end OsloPolicy
