import OsloPolicy.Model.Parser
/-
Evaluation of check trees: `%`-substitution, `RoleCheck`, `GenericCheck`, `RuleCheck`,
`Rules.__missing__`, the combinators, and fuel-bounded recursion through `rule:`.
-/
namespace OsloPolicy

/-! ### `match % target` -/

inductive SubstResult where
  | ok (s : Str)
  | keyError            -- a referenced key is missing from the target
  | unsupported         -- a `%` form other than `%(key)s` / `%%` (never generated)
deriving Repr, DecidableEq

/-- Read up to the parenthesis matching an already consumed `(`; CPython counts nesting. -/
def takeKey : Str → Nat → Str → Option (Str × Str)
  | [], _, _ => none
  | c :: r, depth, acc =>
    if c = ')' then
      (if depth = 0 then some (acc.reverse, r) else takeKey r (depth - 1) (c :: acc))
    else if c = '(' then takeKey r (depth + 1) (c :: acc)
    else takeKey r depth (c :: acc)

theorem takeKey_length : ∀ (s : Str) (d : Nat) (acc k r : Str),
    takeKey s d acc = some (k, r) → r.length < s.length := by
  intro s
  induction s with
  | nil => intro d acc k r h; simp [takeKey] at h
  | cons c s ih =>
    intro d acc k r h
    unfold takeKey at h
    split at h
    · split at h
      · simp at h; simp [← h.2]
      · have := ih _ _ _ _ h; simp; omega
    · split at h
      · have := ih _ _ _ _ h; simp; omega
      · have := ih _ _ _ _ h; simp; omega

/-- `fmt % target` for a mapping target. -/
def subst (tgt : List (Str × JVal)) : Str → SubstResult
  | [] => .ok []
  | c :: r =>
    if c = '%' then
      match r with
      | '%' :: r' => (match subst tgt r' with | .ok s => .ok ('%' :: s) | e => e)
      | '(' :: r' =>
        (match h : takeKey r' 0 [] with
         | some (k, 's' :: r'') =>
           (match afind k tgt with
            | none => .keyError
            | some v =>
              have : r''.length < r'.length := by
                have := takeKey_length _ _ _ _ _ h; simp at this; omega
              (match subst tgt r'' with | .ok s => .ok (v.pyStr ++ s) | e => e))
         | _ => .unsupported)
      | _ => .unsupported
    else match subst tgt r with | .ok s => .ok (c :: s) | e => e
termination_by s => s.length

/-! ### Rule store -/

/-- `Rules.default_rule`: unset / falsy, a rule name, or a check object. -/
inductive DefaultRule where
  | none
  | name (s : Str)
  | check (t : Tree)
deriving Repr, Inhabited

structure Rules where
  entries : List (Str × Tree)
  default : DefaultRule
deriving Repr, Inhabited

/-- `rules[name]` including `Rules.__missing__`; `none` = `KeyError`. -/
def Rules.lookup (rs : Rules) (n : Str) : Option Tree :=
  match afind n rs.entries with
  | some t => some t
  | none =>
    match rs.default with
    | .none => none
    | .check t => some t
    | .name d => if d.isEmpty then none else afind d rs.entries

/-! ### Leaves -/

/-- What the evaluation of leaves depends on beyond the model: Python library
behaviour passed in as parameters (contracts in DESIGN.md §4). -/
structure Env where
  /-- `str.lower` -/
  lower : Str → Str
  /-- `ast.literal_eval(kind)` then `str(...)`; `none` when it raises (not a literal). -/
  lit : Str → Option Str
  /-- `http:` / `https:` checks: `(kind, url, currentRule)` ↦ outcome (Model/External). -/
  remote : Str → Str → Option Str → Outcome

def rolesKey : Str := "roles".toList

def JVal.isStr : JVal → Bool
  | .str _ => true
  | _ => false

/-- `match.lower() == x.lower()` for one entry of `creds['roles']` -/
def roleMatches (lower : Str → Str) (x : Str) : JVal → Bool
  | .str s => lower s = lower x
  | _ => false

/-- `RoleCheck.__call__` -/
def roleCheck (env : Env) (tgt : List (Str × JVal)) (creds : JVal) (m : Str) : Outcome :=
  match subst tgt m with
  | .keyError => .ret false
  | .unsupported => .raise .valueError
  | .ok x =>
    match creds.get rolesKey with
    | none => .ret false
    | some (.arr rs _) =>
      if rs.all JVal.isStr then .ret (rs.any (roleMatches env.lower x))
      else .raise .attributeError      -- `x.lower()` on a non-string
    | some _ => .raise .typeError       -- iterating a non-list (outside the quantifier)

/-- `GenericCheck._find_in_dict` (with `KeyError`/`TypeError` ↦ no match): index the
current value with the next path segment; if what comes back is a list, any element
may match the remaining path; at the end of the path compare with `str(value)`. -/
def findInDict : List Str → JVal → Str → Bool
  | [], v, m => m = v.pyStr
  | key :: rest, v, m =>
    match v with
    | .obj kvs _ =>
      (match afind key kvs with
       | none => false
       | some (.arr xs _) => xs.any (fun x => findInDict rest x m)
       | some v' => findInDict rest v' m)
    | _ => false

/-- `kind.split('.')` -/
def splitDots : Str → List Str
  | [] => [[]]
  | c :: r =>
    if c = '.' then [] :: splitDots r
    else match splitDots r with
      | h :: t => (c :: h) :: t
      | [] => [[c]]

/-- `GenericCheck.__call__` -/
def genericCheck (env : Env) (tgt : List (Str × JVal)) (creds : JVal) (k m : Str) : Outcome :=
  match subst tgt m with
  | .keyError => .ret false
  | .unsupported => .raise .valueError
  | .ok x =>
    match env.lit k with
    | some s => .ret (x = s)
    | none => .ret (findInDict (splitDots k) creds x)

/-! ### Trees -/

/-- Evaluation of one leaf that is not a `rule:` reference. `cur` is the name of the
policy being enforced (`current_rule`), `none` when a check object was passed. -/
def leafEval (env : Env) (tgt : List (Str × JVal)) (creds : JVal) (cur : Option Str)
    (k m : Str) : Outcome :=
  if k = "role".toList then roleCheck env tgt creds m
  else if k = "http".toList ∨ k = "https".toList then
    (match subst tgt (k ++ ':' :: m) with
     | .ok url => env.remote k url cur
     | .keyError => .raise .keyError         -- HttpCheck does not catch it
     | .unsupported => .raise .valueError)
  else genericCheck env tgt creds k m

mutual
/-- `_checks._check` on a tree: `leaf` evaluates non-reference leaves, `ref` evaluates
`rule:NAME`.  `and` / `or` short-circuit left to right; an exception propagates. -/
def evalTree (leaf : Str → Str → Outcome) (ref : Str → Outcome) : Tree → Outcome
  | .tt => .ret true
  | .ff => .ret false
  | .chk k m => if k = "rule".toList then ref m else leaf k m
  | .not t => (match evalTree leaf ref t with
      | .ret b => .ret (!b)
      | e => e)
  | .and ts => evalAll leaf ref ts
  | .or ts => evalAny leaf ref ts
def evalAll (leaf : Str → Str → Outcome) (ref : Str → Outcome) : List Tree → Outcome
  | [] => .ret true
  | t :: ts => (match evalTree leaf ref t with
      | .ret true => evalAll leaf ref ts
      | o => o)
def evalAny (leaf : Str → Str → Outcome) (ref : Str → Outcome) : List Tree → Outcome
  | [] => .ret false
  | t :: ts => (match evalTree leaf ref t with
      | .ret false => evalAny leaf ref ts
      | o => o)
end

/-- `RuleCheck.__call__` with `n` levels of reference nesting left: look the name up
(default-rule fallback included), `KeyError` ↦ deny, else evaluate its tree. -/
def evalRef (rs : Rules) (leaf : Str → Str → Outcome) : Nat → Str → Outcome
  | 0, _ => .raise .recursion
  | n + 1, m =>
    match rs.lookup m with
    | none => .ret false
    | some t =>
      -- the whole nested call sits inside `try … except KeyError: return False`
      (match evalTree leaf (evalRef rs leaf n) t with
       | .raise .keyError => .ret false
       | o => o)

/-- Evaluate a tree against a rule store with `n` levels of reference nesting. -/
def eval (rs : Rules) (leaf : Str → Str → Outcome) (n : Nat) (t : Tree) : Outcome :=
  evalTree leaf (evalRef rs leaf n) t

end OsloPolicy
