/-
Constants of the model that are compared, on every run, with tables re-extracted from
/repo (`Generated/RepoTables.lean`) by the obligations in `Properties/Tie*.lean`.
-/
namespace OsloPolicy.Tables

/-- The ten reductions of `Model.Parser.reduce`, as `(pattern bottom→top, method)`. -/
def reducers : List (List String × String) :=
  [ (["(", "check", ")"], "_wrap_check"),
    (["(", "and_expr", ")"], "_wrap_check"),
    (["(", "or_expr", ")"], "_wrap_check"),
    (["check", "and", "check"], "_make_and_expr"),
    (["or_expr", "and", "check"], "_mix_or_and_expr"),
    (["and_expr", "and", "check"], "_extend_and_expr"),
    (["check", "or", "check"], "_make_or_expr"),
    (["and_expr", "or", "check"], "_make_or_expr"),
    (["or_expr", "or", "check"], "_extend_or_expr"),
    (["not", "check"], "_make_not_expr") ]

def unreducedTokens : List String := ["(", ")", "and", "or", "not", "string"]
def keywords : List String := ["and", "or", "not"]
def quotePairs : List (List String) := [["\"", "\""], ["'", "'"]]
def tokenizeRe : String := "\\s+"
def registeredKinds : List String := ["<None>", "role", "rule"]
def extensionKinds : List String := ["http", "https"]
def documentedExceptions : List String :=
  ["PolicyNotAuthorized", "InvalidScope", "InvalidContextObject", "PolicyNotRegistered"]

/-- `p` is a suffix of `q` (both bottom→top): then both patterns could fire on one stack. -/
def isSuffix (p q : List String) : Bool := p.length ≤ q.length && q.drop (q.length - p.length) == p

def nonOverlapping (t : List (List String × String)) : Bool :=
  t.all fun a => t.all fun b => a.1 == b.1 || !(isSuffix a.1 b.1)

end OsloPolicy.Tables

namespace OsloPolicy.Tables
/-- option defaults the models assume (`opts._options`) -/
def optEnforceScope : Bool := true
def optEnforceNewDefaults : Bool := true
def optPolicyFile : String := "policy.yaml"
def optPolicyDefaultRule : String := "default"
def optPolicyDirs : List String := ["policy.d"]
def optRemoteContentType : String := "application/x-www-form-urlencoded"
end OsloPolicy.Tables

namespace OsloPolicy.Tables
/-- Defaults of the public entry points that the models (and the harness, which calls them the way a service does) assume:
an enforcer reads the configured files, overwrites on reload and falls back to a legacy `policy.json`; `enforce` /
`authorize` return a denial unless asked to raise; `load_rules` does not force; `set_rules` overwrites; the checker
evaluates as a non-admin against the caller's own ids. -/
def apiDefaults : List (String × String) :=
  [("Enforcer.policy_file", "None"), ("Enforcer.rules", "None"), ("Enforcer.default_rule", "None"),
   ("Enforcer.use_conf", "True"), ("Enforcer.overwrite", "True"), ("Enforcer.fallback_to_json_file", "True"),
   ("Enforcer.enforce.do_raise", "False"), ("Enforcer.enforce.exc", "None"),
   ("Enforcer.authorize.do_raise", "False"), ("Enforcer.authorize.exc", "None"),
   ("Enforcer.load_rules.force_reload", "False"),
   ("Enforcer.set_rules.overwrite", "True"), ("Enforcer.set_rules.use_conf", "False"),
   ("Enforcer.check_rules.raise_on_violation", "False"),
   ("Rules.load.default_rule", "None"), ("Rules.from_dict.default_rule", "None"),
   ("RuleDefault.deprecated_rule", "None"), ("RuleDefault.deprecated_for_removal", "False"), ("RuleDefault.scope_types", "None"),
   ("shell.tool.is_admin", "False"), ("shell.tool.target_file", "None"), ("shell.tool.enforcer_config", "None")]
end OsloPolicy.Tables
