/-
Constants of the model that are compared, on every run, with tables re-extracted from
/repo (`Generated/RepoTables.lean`) by the obligations in `Properties/Tie*.lean`.
-/
namespace OsloPolicy.Tables

/-- The ten reductions of `Model.Parser.reduce`, as `(pattern bottom→top, method)`. -/
def reducers : List (List String × String) :=
  [ (["(", "check", ")"], "_wrap_check"),
    (["(", "and_expr", ")"], "_wrap_check"),
    (["(", "or_expr", ")"], "_wrap_check"),
    (["check", "and", "check"], "_make_and_expr"),
    (["or_expr", "and", "check"], "_mix_or_and_expr"),
    (["and_expr", "and", "check"], "_extend_and_expr"),
    (["check", "or", "check"], "_make_or_expr"),
    (["and_expr", "or", "check"], "_make_or_expr"),
    (["or_expr", "or", "check"], "_extend_or_expr"),
    (["not", "check"], "_make_not_expr") ]

def unreducedTokens : List String := ["(", ")", "and", "or", "not", "string"]
def keywords : List String := ["and", "or", "not"]
def quotePairs : List (List String) := [["\"", "\""], ["'", "'"]]
def tokenizeRe : String := "\\s+"
def registeredKinds : List String := ["<None>", "role", "rule"]
def extensionKinds : List String := ["http", "https"]
def documentedExceptions : List String :=
  ["PolicyNotAuthorized", "InvalidScope", "InvalidContextObject", "PolicyNotRegistered"]

/-- `p` is a suffix of `q` (both bottom→top): then both patterns could fire on one stack. -/
def isSuffix (p q : List String) : Bool := p.length ≤ q.length && q.drop (q.length - p.length) == p

def nonOverlapping (t : List (List String × String)) : Bool :=
  t.all fun a => t.all fun b => a.1 == b.1 || !(isSuffix a.1 b.1)

end OsloPolicy.Tables

namespace OsloPolicy.Tables
/-- option defaults the models assume (`opts._options`) -/
def optEnforceScope : Bool := true
def optEnforceNewDefaults : Bool := true
def optPolicyFile : String := "policy.yaml"
def optPolicyDefaultRule : String := "default"
def optPolicyDirs : List String := ["policy.d"]
def optRemoteContentType : String := "application/x-www-form-urlencoded"
end OsloPolicy.Tables
