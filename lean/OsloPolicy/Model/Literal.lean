import OsloPolicy.Model.Eval
/-
A *partial* model of `str(ast.literal_eval(kind))` for the left sides that occur in
practice.  `litKnown k = some r` claims what the interpreter does (`r = some v`: a literal
whose string form is `v`; `r = none`: evaluating it raises, i.e. "not a literal");
`litKnown k = none` makes no claim (the harness-supplied value is used).  Every claim is
checked against the running interpreter by the correspondence suites (the driver reports
any left side on which the claim and `ast.literal_eval` differ).
-/
namespace OsloPolicy

def identStartChars : Str := "abcdefghijklmnopqrstuvwxyzABCDEFGHIJKLMNOPQRSTUVWXYZ_".toList
def digitChars : Str := "0123456789".toList
def nonZeroDigits : Str := "123456789".toList

def isIdentStart (c : Char) : Bool := identStartChars.contains c
def isIdentChar (c : Char) : Bool := identStartChars.contains c || digitChars.contains c

/-- an ASCII identifier -/
def isIdent : Str → Bool
  | [] => false
  | c :: r => isIdentStart c && r.all isIdentChar

/-- decimal integer literal without sign, leading zeros or underscores -/
def isPlainNat : Str → Bool
  | [] => false
  | ['0'] => true
  | c :: r => nonZeroDigits.contains c && r.all digitChars.contains

/-- body of a simple quoted string: no backslash, no line break, not the quote itself -/
def simpleBody (qc : Char) (s : Str) : Bool :=
  s.all fun c => c != qc && c != '\\' && c != '\n' && c != '\r'

def litKnown (k : Str) : Option (Option Str) :=
  if k = "True".toList ∨ k = "False".toList ∨ k = "None".toList then some (some k)
  else if isPlainNat k then some (some k)
  else match k with
    | '-' :: r => if isPlainNat r ∧ r ≠ ['0'] then some (some k) else none
    | _ =>
      -- a dotted path of identifiers is a Name / Attribute node: `ValueError: malformed node`
      if (splitDots k).all isIdent then some none
      else match k with
        | q :: r =>
          if (q = '\'' ∨ q = '"') ∧ r.getLast? = some q ∧ r.length ≥ 1 ∧ simpleBody q r.dropLast
          then some (some r.dropLast) else none
        | [] => none

/-- an environment whose `lit` agrees with the partial model wherever it makes a claim -/
def LitSound (env : Env) : Prop := ∀ k r, litKnown k = some r → env.lit k = r

end OsloPolicy
