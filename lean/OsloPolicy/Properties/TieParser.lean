import OsloPolicy.Model.Tables
import OsloPolicy.Model.Lexer
import OsloPolicy.Generated.PyTables
import OsloPolicy.Generated.RepoTables
import OsloPolicy.Proofs.ReduceTable
/-
Obligations tying the parser/lexer model to /repo's current source: the generated
tables (rewritten from the working tree on every run) must equal the model's constants.
A change to the reducer table, the tokenizer's keyword tuple, quote pairs or split
pattern, or the unreduced-token guard breaks one of these `decide`s.
-/
namespace OsloPolicy.Tie
open OsloPolicy

/-- Same set of (pattern, method) pairs; the order the metaclass lists them in is
irrelevant because no two patterns can match the same stack (`reducers_nonoverlapping`). -/
theorem reducers_same : (Generated.reducers.isPerm Tables.reducers) = true := by decide
theorem reducers_nonoverlapping : Tables.nonOverlapping Generated.reducers = true := by decide
/-- Rows with equal patterns name the same method (with `reducers_nonoverlapping`: at most
one row can fire on any stack). -/
theorem reducers_methods_agree : methodsAgree Generated.reducers = true := by decide
/-- The table-driven reducer (`Proofs/ReduceTable.lean`: an interpreter of ANY `reducers`
table, mirroring `ParseState.reduce`), run on the table read from the source today, is
exactly the hand-written `reduce` of the model. -/
theorem reducers_drive_model : ∀ st, reduceWith Generated.reducers st = reduce st :=
  reduceWith_generated
/-- these three are used only through membership tests, so they are compared as sets -/
theorem unreduced_same : (Generated.unreducedTokens.isPerm Tables.unreducedTokens) = true := by decide
theorem keywords_same : (Generated.keywords.isPerm Tables.keywords) = true := by decide
theorem quotes_same : (Generated.quotePairs.isPerm Tables.quotePairs) = true := by decide
theorem tokenize_re_same : Generated.tokenizeRe = Tables.tokenizeRe := by decide
/-- The model's whitespace set is Python's `str.isspace`, which is also `re`'s `\s`. -/
theorem space_same : Generated.pySpaceCodes = pySpaceCodes ∧ Generated.pyReSpaceCodes = pySpaceCodes := by
  decide
/-- Only the twelve ASCII letters lower-case into a letter of `and`/`or`/`not`, so ASCII
lower-casing recognises exactly the keywords `str.lower()` recognises. -/
theorem lower_keyword_preimage :
    Generated.pyLowerIntoKeyword = [65, 68, 78, 79, 82, 84, 97, 100, 110, 111, 114, 116] := by decide

end OsloPolicy.Tie
