import OsloPolicy.Model.Enforce
/-
C03 — unknown policy names fail closed; the default rule is the only fallback.
-/
namespace OsloPolicy.C03
open OsloPolicy

/-- The check the default rule supplies for an undefined name, if any. -/
def usable (rs : Rules) : Option Tree :=
  match rs.default with
  | .none => none
  | .check t => some t
  | .name d => if d.isEmpty then none else afind d rs.entries

theorem lookup_defined (rs : Rules) (n : Str) (t : Tree) (h : afind n rs.entries = some t) :
    rs.lookup n = some t := by simp [Rules.lookup, h]

theorem lookup_undefined (rs : Rules) (n : Str) (h : afind n rs.entries = none) :
    rs.lookup n = usable rs := by
  unfold Rules.lookup usable; simp only [h]; cases rs.default <;> rfl

/-- Decision for a policy name, no scope types registered, `do_raise` off. -/
abbrev decideName (e : EnfView) (leafOf : JVal → Option Str → Str → Str → Outcome)
    (n : Str) (creds : JVal) : Outcome :=
  enforce e leafOf (.name n) creds ⟨false, false⟩

/-- A name that is defined is decided by its own definition, never by the default rule. -/
theorem defined_decides (e : EnfView) (leafOf) (n : Str) (kvs tx) (t : Tree)
    (hreg : findRegistered e.registered n = none)
    (h : afind n e.rules.entries = some t) :
    decideName e leafOf n (.obj kvs tx) =
      eval e.rules (leafOf (mirrorSystemScope (.obj kvs tx)) (some n)) e.fuel t := by
  have hne : e.rules.entries.isEmpty = false := by
    cases he : e.rules.entries with
    | nil => simp [he, afind] at h
    | cons _ _ => rfl
  simp only [decideName, enforce, hne, lookup_defined _ _ _ h, hreg]
  cases eval e.rules (leafOf (mirrorSystemScope (.obj kvs tx)) (some n)) e.fuel t with
  | ret b => cases b <;> simp [finish]
  | raise x => simp [finish]

/-- An undefined name is decided by the usable default rule, and denies when there is
none or when the rule set is empty — it never raises by itself. -/
theorem undefined_decides (e : EnfView) (leafOf) (n : Str) (kvs tx)
    (hreg : findRegistered e.registered n = none)
    (h : afind n e.rules.entries = none) :
    decideName e leafOf n (.obj kvs tx) =
      if e.rules.entries.isEmpty then .ret false
      else match usable e.rules with
        | none => .ret false
        | some c => eval e.rules (leafOf (mirrorSystemScope (.obj kvs tx)) (some n)) e.fuel c := by
  by_cases hne : e.rules.entries.isEmpty
  · simp [decideName, enforce, hne, finish]
  · simp only [decideName, enforce, hne, lookup_undefined _ _ h, hreg]
    cases hu : usable e.rules with
    | none => simp [finish]
    | some c =>
      simp only [Bool.false_eq_true, ↓reduceIte]
      cases eval e.rules (leafOf (mirrorSystemScope (.obj kvs tx)) (some n)) e.fuel c with
      | ret b => cases b <;> simp [finish]
      | raise x => simp [finish]

/-- The statement of C03 as one equivalence. -/
theorem allow_iff (e : EnfView) (leafOf) (n : Str) (kvs tx)
    (hreg : findRegistered e.registered n = none) :
    decideName e leafOf n (.obj kvs tx) = .ret true ↔
      (∃ t, afind n e.rules.entries = some t ∧
        eval e.rules (leafOf (mirrorSystemScope (.obj kvs tx)) (some n)) e.fuel t = .ret true) ∨
      (afind n e.rules.entries = none ∧ e.rules.entries.isEmpty = false ∧
        ∃ c, usable e.rules = some c ∧
          eval e.rules (leafOf (mirrorSystemScope (.obj kvs tx)) (some n)) e.fuel c = .ret true) := by
  cases h : afind n e.rules.entries with
  | some t =>
    rw [defined_decides e leafOf n kvs tx t hreg h]
    constructor
    · intro hh; exact .inl ⟨t, rfl, hh⟩
    · rintro (⟨t', ht', hh⟩ | ⟨hn, _⟩)
      · cases ht'; exact hh
      · cases hn
  | none =>
    rw [undefined_decides e leafOf n kvs tx hreg h]
    constructor
    · intro hh
      right
      by_cases hne : e.rules.entries.isEmpty
      · simp [hne] at hh
      · simp only [hne, Bool.false_eq_true, ↓reduceIte] at hh
        cases hu : usable e.rules with
        | none => simp [hu] at hh
        | some c => simp only [hu] at hh; exact ⟨rfl, by simpa using hne, c, rfl, hh⟩
    · rintro (⟨t, ht, _⟩ | ⟨_, hne, c, hc, hh⟩)
      · cases ht
      · simp [hne, hc, hh]

/-! Non-vacuity: the three risky rows. -/
/-- default names an undefined rule ⇒ deny -/
example (leafOf) : decideName ⟨⟨[(['a'], .tt)], .name ['d']⟩, [], true, 5⟩ leafOf ['x'] (.obj [] []) = .ret false := by
  simp [decideName, enforce, Rules.lookup, afind, finish]
/-- check-object default with an empty rule set ⇒ deny -/
example (leafOf) : decideName ⟨⟨[], .check .tt⟩, [], true, 5⟩ leafOf ['x'] (.obj [] []) = .ret false := by
  simp [decideName, enforce, finish]
/-- defined-deny beats default-allow -/
example (leafOf) : decideName ⟨⟨[(['x'], .ff), (['d'], .tt)], .name ['d']⟩, [], true, 5⟩ leafOf ['x'] (.obj [] []) = .ret false := by
  simp [decideName, enforce, Rules.lookup, afind, findRegistered, finish, eval, evalTree]

end OsloPolicy.C03
