import OsloPolicy.Model.Tables
import OsloPolicy.Generated.RepoTables
/-
Obligations tying the check kinds the evaluator model dispatches on (`rule`, `role`, the
generic `None` handler; extensions `http`, `https`) and the documented exception classes
to `_checks.registered_checks`, the installed entry points and `policy.py`.
-/
namespace OsloPolicy.Tie
open OsloPolicy

theorem registered_kinds_same : Generated.registeredKinds = Tables.registeredKinds := by decide
theorem extension_kinds_same : Generated.extensionKinds = Tables.extensionKinds := by decide
theorem documented_exceptions_exist :
    Tables.documentedExceptions.all (fun e => Generated.exceptionClasses.contains e) = true := by decide

end OsloPolicy.Tie
