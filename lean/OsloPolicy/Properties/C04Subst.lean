import OsloPolicy.Properties.C04
/-
C04 — what X is when the check text has no `%(key)s` placeholder: the text with every `%%`
read as one per-cent sign, whatever the target holds (and `unsupported`, i.e. Python's
`ValueError: incomplete format`, for a lone `%`).  Stated after seeded change C04-A7, which
skipped the `%`-formatting for placeholder-free matches.
-/
namespace OsloPolicy.C04
open OsloPolicy

/-- `%%` ↦ `%`; a `%` followed by anything else is not a complete format. -/
def unescape : Str → Option Str
  | [] => some []
  | c :: r =>
    if c = '%' then
      match r with
      | '%' :: r' => (unescape r').map ('%' :: ·)
      | _ => none
    else (unescape r).map (c :: ·)

/-- no `%(` anywhere in the text -/
def noPlaceholder : Str → Bool
  | [] => true
  | c :: r =>
    if c = '%' then
      match r with
      | '%' :: r' => noPlaceholder r'
      | '(' :: _ => false
      | _ => true
    else noPlaceholder r

theorem subst_without_placeholder (tgt : List (Str × JVal)) (m : Str) (h : noPlaceholder m = true) :
    subst tgt m = match unescape m with | some x => .ok x | none => .unsupported := by
  fun_induction noPlaceholder m <;> simp_all [subst, unescape]
  · rename_i r' _
    cases unescape r' <;> simp
  · rename_i c r hc ih
    rw [subst.eq_def, unescape.eq_def]
    simp only [hc, ↓reduceIte, ih]
    cases unescape r <;> simp

/-- A text without any per-cent sign is X itself. -/
theorem unescape_plain (m : Str) (h : '%' ∉ m) : unescape m = some m := by
  induction m with
  | nil => rfl
  | cons c r ih =>
    have hc : c ≠ '%' := fun e => h (by rw [e]; exact List.mem_cons_self)
    have hr : '%' ∉ r := fun e => h (List.mem_cons_of_mem _ e)
    rw [unescape.eq_def]
    simp only [hc, ↓reduceIte, ih hr, Option.map_some]

/-- The target plays no part in a placeholder-free role check's X. -/
theorem placeholder_free_ignores_target (t1 t2 : List (Str × JVal)) (m : Str)
    (h : noPlaceholder m = true) : subst t1 m = subst t2 m := by
  rw [subst_without_placeholder t1 m h, subst_without_placeholder t2 m h]

example : unescape "Tier%%1".toList = some "Tier%1".toList := by simp [unescape]
example : subst [] "Tier%%1".toList = .ok "Tier%1".toList := by
  rw [subst_without_placeholder [] _ (by simp [noPlaceholder])]; simp [unescape]

end OsloPolicy.C04
