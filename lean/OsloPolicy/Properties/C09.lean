import OsloPolicy.Proofs.Layers
/-
C09 — effective policy is defaults, then policy file, then policy.d in sorted order.
`compute` is what a newly constructed enforcer ends up with (`Proofs/Loader.lean`:
`fresh_rules`); these theorems say what that is, for every layer content.
-/
namespace OsloPolicy.C09
open OsloPolicy

/-- **Layers.** For every name: the last definition found in the order registered default,
policy file, then each configured directory in configured order with its regular non-dot
files in sorted name order. -/
theorem layers (enforceNew : Bool) (regs : List RuleDefault) (fs : FS) (n : Str) :
    afind n (compute enforceNew regs fs) = effective enforceNew regs fs n :=
  compute_effective enforceNew regs fs n

/-- names defined nowhere stay undefined -/
theorem undefined_stays (enforceNew : Bool) (regs : List RuleDefault) (fs : FS) (n : Str)
    (h1 : lastDef n (fileLayers fs) = none) (h2 : ∀ d ∈ regs, d.name ≠ n) :
    afind n (compute enforceNew regs fs) = none :=
  compute_undefined enforceNew regs fs n h1 h2

/-- inside one layer sequence a later layer shadows an earlier one, name by name -/
theorem later_layer_wins (ls : List Content) (s : Store) (n : Str) :
    afind n (ls.foldl updStore s) =
      match lastDef n ls with | some v => some (parseValue v) | none => afind n s :=
  afind_foldl_updStore ls s n

/-- the files a directory contributes: exactly its regular, non-dot entries … -/
theorem visible_files (d : Dir) (e : Entry) :
    e ∈ d.visible ↔ e ∈ d.entries ∧ e.isDir = false ∧ e.name.head? ≠ some '.' := visible_mem d e
/-- … in sorted (code-point lexicographic) name order, nothing lost, nothing invented -/
theorem visible_sorted (d : Dir) : d.visible.Pairwise (fun a b => strLt b.name a.name = false) :=
  sortByName_sorted _
theorem sort_is_permutation (l : List Entry) : (sortByName l).Perm l := sortByName_perm l

/-- a configured-but-missing directory is simply skipped -/
theorem missing_dir_skipped (ds : List (Option Dir)) : dirLayers (none :: ds) = dirLayers ds :=
  dirLayers_none ds

/-- a missing policy file is simply skipped -/
theorem missing_main_skipped (fs : FS) (h : fs.main = none) : fileLayers fs = dirLayers fs.dirs := by
  simp [fileLayers, h]

/-- **Choice of the policy file**: the one given to the enforcer, else the configured one,
except that a deployment which never configured it and has no policy.yaml but does have a
legacy policy.json uses that (when the fallback switch is on). -/
theorem policy_file_choice (i : PickInput) :
    pickPolicyFile i =
      match i.ctor with
      | some f => if f.isEmpty then (if i.value = policyYaml ∧ i.fallback = true ∧ i.neverConfigured = true ∧
          i.yamlExists = false ∧ i.jsonExists = true then policyJson else i.value) else f
      | none => if i.value = policyYaml ∧ i.fallback = true ∧ i.neverConfigured = true ∧
          i.yamlExists = false ∧ i.jsonExists = true then policyJson else i.value :=
  pick_spec i

/-! Non-vacuity: a name defined in the main file and again in a directory file. -/
example : lastDef ['p'] [[(['p'], .str ['a'])], [(['q'], .str ['b'])], [(['p'], .str ['c'])]] = some (.str ['c']) := by
  simp [lastDef, alast]

end OsloPolicy.C09
