import OsloPolicy.Proofs.SampleGen
import OsloPolicy.Proofs.JsonRoundTrip
/-
C17 — a generated sample policy file overrides nothing and states every default.
For every `wrap` satisfying textwrap's contract (`WrapOK`) and every `splitlines` satisfying
`SplitOK`; descriptions and reasons are arbitrary text (they only enter through those two).
The model writes a check string the way `_format_check_str` does: between double quotes as it is,
or through the JSON string encoder (modelled: `jsonEscChar`) when it holds a double quote, a
backslash or a control character.
-/
namespace OsloPolicy.C17
open OsloPolicy

/-- **Overrides nothing.** Every line of the YAML sample is empty or begins with `#`, and no
line contains a character that YAML (or `str.splitlines`) would treat as a line break. -/
theorem overrides_nothing (wrap split) (hw : WrapOK wrap) (hs : SplitOK split) (excl : Bool)
    (ds : List GenDefault) (hd : ∀ d ∈ ds, d.Printable) :
    ∀ l ∈ sampleYaml wrap split excl ds, (l = [] ∨ l.head? = some '#') ∧ NoBreak l :=
  sample_all_comments wrap split hw hs excl ds hd

/-- **States every default.** The lines of the form `#"…` are exactly the commented rule lines
`#"name": "check_str"` of the defaults — each default has one — so un-commenting them maps
each policy name to exactly its default check string. -/
theorem states_every_default (wrap split) (hw : WrapOK wrap) (hs : SplitOK split) (excl : Bool)
    (ds : List GenDefault) (hd : ∀ d ∈ ds, d.Printable) :
    (∀ l ∈ sampleYaml wrap split excl ds, (∃ r, l = '#' :: '"' :: r) → ∃ d ∈ ds, l = '#' :: ruleText d) ∧
    (∀ d ∈ ds, ('#' :: ruleText d) ∈ sampleYaml wrap split excl ds) :=
  sample_rule_lines wrap split hw hs excl ds hd

/-- Descriptions, operations, scope and deprecation notes appear only as comments: even with
rule commenting off (the converter's mode for overridden rules) the only line that is neither
empty nor a comment is the rule line itself. -/
theorem notes_only_in_comments (wrap split) (hw : WrapOK wrap) (hs : SplitOK split) (add : Bool)
    (d : GenDefault) (hd : d.Printable) :
    ∀ l ∈ formatRuleYaml wrap split false add d, l = [] ∨ CommentLine l ∨ l = ruleText d :=
  formatRuleYaml_uncommented wrap split hw hs add d hd

theorem help_text_is_comment (wrap) (hw : WrapOK wrap) (ols : Option (List Str))
    (hls : ∀ ls, ols = some ls → ∀ l ∈ ls, NoBreak l) :
    ∀ l ∈ formatHelp wrap ols, (l = [] ∨ CommentLine l) ∧ NoBreak l :=
  formatHelp_lines wrap hw ols hls

/-- The JSON sample's entries are exactly `"name": "check_str"` of the defaults, in order. -/
theorem json_sample (ds : List GenDefault) : sampleJsonEntries ds = ds.map ruleText := json_entries ds

/-- **What is written for a check string reads back as that check string**, whatever it contains: `formatCheckStr`
(`_format_check_str`: plain double quoting, or `json.dumps` when there is a double quote, backslash or control
character) followed by a reader of JSON double-quoted scalars (`jsonDecode`: the escapes `\"` `\\` `\/` `\n` `\r`
`\t` `\b` `\f` `\uXXXX`, surrogate pairs) is the identity. With `states_every_default` (the rule lines are exactly
`#"name": <formatted check string>`) this is "un-commenting maps each name to exactly its default check string" at
the level of text, for the JSON sample and for a YAML reader wherever the two escape languages coincide
(everything except characters above U+FFFF, which JSON writes as a surrogate pair). -/
theorem check_string_round_trip (s : Str) : jsonDecode (formatCheckStr s) = some s :=
  decode_formatCheckStr s

/-- … and the formatted check string never contains a line break, even when the check string does. -/
theorem escaped_check_string_one_line (s : Str) (h : needsEscape s = true) : NoBreak (formatCheckStr s) :=
  noBreak_formatCheckStr_escaped s h

/-! Non-vacuity: the wrap contract is satisfiable (a wrapper that emits one `# …` line). -/
example : WrapOK (fun s => if s.all (fun c => !isBreak c) then [hashSp s] else []) := by
  intro s l hl
  by_cases h : s.all (fun c => !isBreak c) = true
  · simp only [h, ↓reduceIte, List.mem_singleton] at hl
    subst hl
    refine ⟨⟨s, rfl⟩, ?_⟩
    intro c hc
    simp only [hashSp, List.mem_cons] at hc
    rcases hc with rfl | rfl | hc
    · decide
    · decide
    · have := List.all_eq_true.1 h c hc
      simpa using this
  · simp [h] at hl

end OsloPolicy.C17
