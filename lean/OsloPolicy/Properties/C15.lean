import OsloPolicy.Proofs.RoundTrip
import OsloPolicy.Proofs.ListRuleImage
import OsloPolicy.Proofs.EvalDen
/-
C15 — printing a rule and parsing it back is the identity on meaning and on text.
-/
namespace OsloPolicy.C15
open OsloPolicy

/-- Everything the text parser produces is printable (`WFT`: and/or nodes with ≥ 2 members,
clean leaves) — so the hypothesis of `fix` is met by every parsed rule. -/
theorem parser_image_printable (s : Str) : WFT (parseText s) := parseText_WFT s

/-- **Fix-point.** Parsing the printed form of a printable tree gives the tree back. -/
theorem fix (t : Tree) (h : WFT t) : parseText t.print = t := parseText_print t h

/-- Printing any parsed rule and parsing the printed text gives the same rule — hence the
same printed form and the same decisions. -/
theorem roundtrip (s : Str) : parseText (parseText s).print = parseText s := parseText_roundtrip s

theorem roundtrip_print (s : Str) : (parseText (parseText s).print).print = (parseText s).print := by
  rw [roundtrip]

theorem roundtrip_decisions (s : Str) (leaf ref) :
    evalTree leaf ref (parseText (parseText s).print) = evalTree leaf ref (parseText s) := by
  rw [roundtrip]

/-- Two printable rules print identically only if they are the same rule — so they decide
identically (what redundancy detection and `RuleDefault.__eq__` rely on). -/
theorem print_injective (t₁ t₂ : Tree) (h₁ : WFT t₁) (h₂ : WFT t₂) (h : t₁.print = t₂.print) :
    t₁ = t₂ := print_inj t₁ t₂ h₁ h₂ h

theorem same_print_same_decision (s₁ s₂ : Str) (h : (parseText s₁).print = (parseText s₂).print)
    (leaf ref) : evalTree leaf ref (parseText s₁) = evalTree leaf ref (parseText s₂) := by
  rw [print_inj _ _ (parseText_WFT s₁) (parseText_WFT s₂) h]

/-- The old list-of-lists syntax with clean check texts also produces printable trees,
which therefore survive print-then-parse. -/
theorem list_rule_roundtrip (v : JVal)
    (h : ∀ xs t, v = .arr xs t → ∀ x ∈ xs, ∀ ss, innerStrings x = some ss →
      ∀ s ∈ ss, CleanCheckText s) :
    parseText (parseListRule v).print = parseListRule v :=
  parseText_print _ (parseListRule_WFT v h)

/-- `Rules.__str__` / `Rules.load`: a rule set dumped as name ↦ printed form (`""` for the
always-true rule) and loaded again is the same rule set, entry by entry. -/
def dumpEntry (t : Tree) : Str := match t with
  | .tt => []
  | t => t.print

theorem dump_load_entry (t : Tree) (h : WFT t) : parseText (dumpEntry t) = t := by
  cases t with
  | tt => simp [dumpEntry, parseText]
  | _ => exact parseText_print _ h

theorem dump_load (entries : List (Str × Tree)) (h : ∀ p ∈ entries, WFT p.2) :
    entries.map (fun p => (p.1, parseText (dumpEntry p.2))) = entries := by
  induction entries with
  | nil => rfl
  | cons p r ih =>
    simp only [List.map_cons, List.cons.injEq]
    refine ⟨?_, ih (fun q hq => h q (by simp [hq]))⟩
    rw [dump_load_entry p.2 (h p (by simp))]

/-! Non-vacuity: an `or` inside an `and` with a negated group is printable. -/
example : WFT (.and [.or [.chk ['a'] ['x'], .tt], .not (.and [.chk ['b'] ['y'], .ff])]) := by
  simp [WFT, WFTs, CleanLeaf, isQuoted, asciiLower, kwAnd, kwOr, kwNot]
  decide

end OsloPolicy.C15
