import OsloPolicy.Properties.C04
import OsloPolicy.Properties.C05
import OsloPolicy.Properties.C07
import OsloPolicy.Proofs.EvalFuel
/-
C14 — evaluating a rule never crashes; what cannot be evaluated denies.
The theorems hold for every `lit` (whatever `ast.literal_eval` does with a hostile left
side) and every `lower`.
-/
namespace OsloPolicy.C14
open OsloPolicy

/-- a decision, or fuel exhaustion (excluded for validated rule sets by C13) -/
def Benign (o : Outcome) : Prop := (∃ b, o = .ret b) ∨ o = .raise .recursion

mutual
/-- every leaf of the tree that is not a `rule:` reference returns a decision -/
def LeavesRet (leaf : Str → Str → Outcome) : Tree → Prop
  | .tt => True
  | .ff => True
  | .chk k m => k = "rule".toList ∨ ∃ b, leaf k m = .ret b
  | .not t => LeavesRet leaf t
  | .and ts => LeavesRetL leaf ts
  | .or ts => LeavesRetL leaf ts
def LeavesRetL (leaf : Str → Str → Outcome) : List Tree → Prop
  | [] => True
  | t :: ts => LeavesRet leaf t ∧ LeavesRetL leaf ts
end

mutual
theorem evalTree_benign (leaf) (r : Str → Outcome) (hr : ∀ m, Benign (r m)) :
    (t : Tree) → LeavesRet leaf t → Benign (evalTree leaf r t)
  | .tt, _ => .inl ⟨true, rfl⟩
  | .ff, _ => .inl ⟨false, rfl⟩
  | .chk k m, h => by
      simp only [evalTree]
      split
      · exact hr m
      · next hk =>
        rcases h with h | ⟨b, hb⟩
        · exact absurd h hk
        · exact .inl ⟨b, hb⟩
  | .not t, h => by
      simp only [evalTree]
      rcases evalTree_benign leaf r hr t h with ⟨b, hb⟩ | hb
      · rw [hb]; exact .inl ⟨!b, rfl⟩
      · rw [hb]; exact .inr rfl
  | .and ts, h => by simp only [evalTree]; exact evalAll_benign leaf r hr ts h
  | .or ts, h => by simp only [evalTree]; exact evalAny_benign leaf r hr ts h
theorem evalAll_benign (leaf) (r : Str → Outcome) (hr : ∀ m, Benign (r m)) :
    (ts : List Tree) → LeavesRetL leaf ts → Benign (evalAll leaf r ts)
  | [], _ => .inl ⟨true, rfl⟩
  | t :: ts, h => by
      simp only [evalAll]
      rcases evalTree_benign leaf r hr t h.1 with ⟨b, hb⟩ | hb
      · rw [hb]; cases b
        · exact .inl ⟨false, rfl⟩
        · exact evalAll_benign leaf r hr ts h.2
      · rw [hb]; exact .inr rfl
theorem evalAny_benign (leaf) (r : Str → Outcome) (hr : ∀ m, Benign (r m)) :
    (ts : List Tree) → LeavesRetL leaf ts → Benign (evalAny leaf r ts)
  | [], _ => .inl ⟨false, rfl⟩
  | t :: ts, h => by
      simp only [evalAny]
      rcases evalTree_benign leaf r hr t h.1 with ⟨b, hb⟩ | hb
      · rw [hb]; cases b
        · exact evalAny_benign leaf r hr ts h.2
        · exact .inl ⟨true, rfl⟩
      · rw [hb]; exact .inr rfl
end

/-- every tree a lookup can return has well-behaved leaves -/
def StoreRet (leaf : Str → Str → Outcome) (rs : Rules) : Prop :=
  ∀ m t, rs.lookup m = some t → LeavesRet leaf t

theorem evalRef_benign (leaf) (rs : Rules) (hs : StoreRet leaf rs) :
    ∀ (n : Nat) (m : Str), Benign (evalRef rs leaf n m) := by
  intro n
  induction n with
  | zero => intro m; exact .inr rfl
  | succ n ih =>
    intro m
    rw [evalRef_succ]
    cases hl : rs.lookup m with
    | none => exact .inl ⟨false, rfl⟩
    | some t =>
      simp only []
      rcases evalTree_benign leaf _ ih t (hs m t hl) with ⟨b, hb⟩ | hb
      · rw [hb]; exact .inl ⟨b, rfl⟩
      · rw [hb]; exact .inr rfl

/-- the exceptions `enforce` documents -/
def Documented : Outcome → Prop
  | .ret _ => True
  | .raise (.notAuthorized _) => True
  | .raise .custom => True
  | .raise .invalidScope => True
  | .raise .invalidContext => True
  | .raise (.notRegistered _) => True
  | _ => False

theorem finish_documented (rs : RaiseSpec) (n : Str) (o : Outcome) (h : Benign o) :
    Documented (finish rs n o) ∨ finish rs n o = .raise .recursion := by
  rcases h with ⟨b, rfl⟩ | rfl
  · cases b
    · simp only [finish]; split
      · split <;> exact .inl trivial
      · exact .inl trivial
    · exact .inl trivial
  · exact .inr rfl

theorem gate_cases (en : Bool) (creds : JVal) (tys : List Str) (d : Bool) :
    enforceScope en creds tys d = .ret true ∨ enforceScope en creds tys d = .ret false ∨
      enforceScope en creds tys d = .raise .invalidScope := by
  unfold enforceScope
  split
  · exact .inl rfl
  · split
    · split
      · exact .inr (.inr rfl)
      · exact .inr (.inl rfl)
    · exact .inl rfl

/-- **C14.** Whatever the rule store, the queried name or check object, the target and the
credentials: if the leaves occurring in the store (and in the check object) return decisions,
`enforce` returns a decision or raises only its documented exceptions — or runs out of fuel,
which C13 excludes for rule sets that validation accepts. -/
theorem enforce_documented (e : EnfView) (leafOf) (rule : RuleArg) (creds : JVal) (rs : RaiseSpec)
    (hstore : ∀ c cur, StoreRet (leafOf c cur) e.rules)
    (hcheck : ∀ t st, rule = .check t st → ∀ c cur, LeavesRet (leafOf c cur) t) :
    Documented (enforce e leafOf rule creds rs) ∨ enforce e leafOf rule creds rs = .raise .recursion := by
  cases creds with
  | obj kvs tx =>
    cases rule with
    | check t st =>
      have hb : Benign (eval e.rules (leafOf (mirrorSystemScope (.obj kvs tx)) none) e.fuel t) :=
        evalTree_benign _ _ (evalRef_benign _ _ (hstore _ _) _) t (hcheck t st rfl _ _)
      simp only [enforce]
      match st with
      | none => exact finish_documented _ _ _ hb
      | some [] => exact finish_documented _ _ _ hb
      | some (ty :: tys) =>
        simp only []
        rcases gate_cases e.enforceScopeOpt (mirrorSystemScope (.obj kvs tx)) (ty :: tys) rs.doRaise with h | h | h
          <;> rw [h]
        · exact finish_documented _ _ _ hb
        · exact .inl trivial
        · exact .inl trivial
    | name n =>
      simp only [enforce]
      split
      · exact finish_documented _ _ _ (.inl ⟨false, rfl⟩)
      · cases hl : e.rules.lookup n with
        | none => exact finish_documented _ _ _ (.inl ⟨false, rfl⟩)
        | some t =>
          have hb : Benign (eval e.rules (leafOf (mirrorSystemScope (.obj kvs tx)) (some n)) e.fuel t) :=
            evalTree_benign _ _ (evalRef_benign _ _ (hstore _ _) _) t (hstore _ _ n t hl)
          simp only []
          have key : ∀ g : Outcome, (g = .ret true ∨ g = .ret false ∨ g = .raise .invalidScope) →
              (Documented (match g with
                | .ret true => finish rs n (eval e.rules (leafOf (mirrorSystemScope (.obj kvs tx)) (some n)) e.fuel t)
                | .ret false => .ret false
                | o => o) ∨
               (match g with
                | .ret true => finish rs n (eval e.rules (leafOf (mirrorSystemScope (.obj kvs tx)) (some n)) e.fuel t)
                | .ret false => .ret false
                | o => o) = .raise .recursion) := by
            rintro g (rfl | rfl | rfl)
            · exact finish_documented _ _ _ hb
            · exact .inl trivial
            · exact .inl trivial
          apply key
          cases findRegistered e.registered n with
          | none => exact .inl rfl
          | some r =>
            simp only []
            match r.scopeTypes with
            | none => exact .inl rfl
            | some [] => exact .inl rfl
            | some (ty :: tys) => exact gate_cases _ _ _ _
  | null | bool _ | int _ | str _ | arr _ _ | other _ _ => exact .inl trivial

/-- **Leaves.** A `role:` or generic leaf returns a decision for every `lit`, every target
and every JSON-like credentials whose roles (if any) are a list of strings, provided its
placeholders are well formed: a left side that is neither a literal nor a resolvable path,
or a path running into a non-container, *denies*. -/
theorem leaf_decides (env : Env) (tgt) (creds : JVal) (cur) (k m : Str)
    (hk : k ≠ "http".toList ∧ k ≠ "https".toList)
    (hwf : subst tgt m ≠ .unsupported)
    (hroles : creds.get rolesKey = none ∨
      ∃ rs tx, creds.get rolesKey = some (.arr rs tx) ∧ C04.RolesAreStrings rs) :
    ∃ b, leafEval env tgt creds cur k m = .ret b := by
  unfold leafEval
  split
  · rcases hroles with h | ⟨rs, tx, h, hs⟩
    · exact ⟨false, C04.no_roles_denies env tgt creds m hwf h⟩
    · exact C04.decides env tgt creds m rs tx h hs hwf
  · split
    · next h =>
      rcases h with h | h
      · exact absurd h hk.1
      · exact absurd h hk.2
    · exact C05.decides env tgt creds k m hwf

/-! Non-vacuity: a hostile left side against credentials where the path meets a string. -/
example : genericCheck ⟨id, fun _ => none, fun _ _ _ => .ret false⟩ [] (.obj [(['a'], .str ['s'])] [])
    "a.b".toList ['c'] = .ret false := by
  simp [genericCheck, subst, splitDots, findInDict, afind]

end OsloPolicy.C14
