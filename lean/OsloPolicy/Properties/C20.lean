import OsloPolicy.Model.Sched
/-
C20 — a decision taken during a reload sees the old or the new policy, never a mix.

For the code as it is (in-place rebuild of the shared rule store) the property is FALSE;
`inplace_violates` is the machine-checked counterexample (a known finding, DESIGN.md §8
F10).  What does hold is in `Proofs/SchedSafe.lean` (quiescent decisions; the
build-then-publish variant for all schedules).
-/
namespace OsloPolicy.C20
open OsloPolicy.Sched

/-- The decision equals the one under the complete old or the complete new policy. -/
def OldOrNew (sc : Scenario) (mainOld dirsOld : Content) (d : Bool) : Prop :=
  d = decideOn sc (compute sc mainOld dirsOld) ∨ d = decideOn sc (compute sc sc.mainNew sc.dirsNew)

/-- the F10 scenario: registered default `p:@` (name 0), policy.d says `p:!`, the main file is
edited (`x`, name 1: allow → deny); the request asks for `p` -/
def f10 : Scenario :=
  { mainNew := [(1, false)], dirsNew := [(0, false)], regs := [(0, true), (1, true)], defaultRule := none, query := 0 }
def f10MainOld : Content := [(1, true)]
def f10Start : Shared := { rules := compute f10 f10MainOld f10.dirsNew, mainStale := true, dirStale := false }

/-- A runs 3 steps (cache entry refreshed, rule store replaced by the main file's rules,
directory scan), then B runs its whole `enforce`, then A finishes. -/
def witness : List Bool := [true, true, true] ++ List.replicate 10 false ++ List.replicate 10 true

theorem f10_old_denies : decideOn f10 (compute f10 f10MainOld f10.dirsNew) = false := by decide
theorem f10_new_denies : decideOn f10 (compute f10 f10.mainNew f10.dirsNew) = false := by decide

/-- **Negation of C20 for the in-place rebuild**: on this schedule thread B *allows* although
both the complete old and the complete new policy deny. -/
theorem inplace_violates :
    ∃ d, (run f10 witness (f10Start, {}, {})).2.2.out = some d ∧ ¬ OldOrNew f10 f10MainOld f10.dirsNew d := by
  refine ⟨true, by decide, ?_⟩
  unfold OldOrNew
  rw [f10_old_denies, f10_new_denies]
  decide

end OsloPolicy.C20
