import OsloPolicy.Properties.C04
import OsloPolicy.Model.Lexer
/-
C04, closed form on ASCII role names — no `lower` parameter left.
`LowerAscii env` says the environment's `lower` (Python's `str.lower`) is character-wise
`asciiLower` on strings of code points below 128; that this is what the running interpreter
does is the obligation `Tie.lower_ascii_table` (Properties/TieLower.lean, re-checked against
the table extracted from CPython on every run) together with the C04 correspondence.
Under it, `role:X` allows iff some held role and X have the same length and agree
position by position up to the case of the letters A–Z.
-/
namespace OsloPolicy.C04
open OsloPolicy

def IsAscii (s : Str) : Prop := ∀ c ∈ s, c.toNat < 128

def LowerAscii (env : Env) : Prop := ∀ s, IsAscii s → env.lower s = s.map asciiLower

/-- Two characters that differ at most by the case of an ASCII letter. -/
def sameLetter (a b : Char) : Prop := asciiLower a = asciiLower b

/-- Same length, and the same letter at every position. -/
def caseEq : Str → Str → Prop
  | [], [] => True
  | a :: s, b :: x => sameLetter a b ∧ caseEq s x
  | _, _ => False

theorem map_asciiLower_eq_iff (s x : Str) :
    s.map asciiLower = x.map asciiLower ↔ caseEq s x := by
  induction s generalizing x with
  | nil => cases x <;> simp [caseEq]
  | cons a s ih =>
    cases x with
    | nil => simp [caseEq]
    | cons b x => simp [ih, sameLetter, caseEq]

/-- Closed form: with ASCII role names and an ASCII `X`, the check allows iff a held role
equals X up to letter case, position by position. -/
theorem ascii_allow_iff (env : Env) (hl : LowerAscii env) (tgt : List (Str × JVal)) (creds : JVal)
    (m : Str) (rs : List JVal) (tx : Str) (hroles : creds.get rolesKey = some (.arr rs tx))
    (hstr : RolesAreStrings rs) (hra : ∀ s, JVal.str s ∈ rs → IsAscii s) :
    roleCheck env tgt creds m = .ret true ↔
      ∃ x, subst tgt m = .ok x ∧
        (IsAscii x → ∃ s, JVal.str s ∈ rs ∧ caseEq s x) ∧
        (¬ IsAscii x → ∃ s, JVal.str s ∈ rs ∧ s.map asciiLower = env.lower x) := by
  rw [allow_iff env tgt creds m rs tx hroles hstr]
  constructor
  · rintro ⟨x, hx, s, hs, h⟩
    refine ⟨x, hx, fun hxa => ⟨s, hs, ?_⟩, fun _ => ⟨s, hs, ?_⟩⟩
    · rw [hl s (hra s hs), hl x hxa] at h
      exact (map_asciiLower_eq_iff s x).1 h
    · rw [hl s (hra s hs)] at h; exact h
  · rintro ⟨x, hx, h1, h2⟩
    refine ⟨x, hx, ?_⟩
    by_cases hxa : IsAscii x
    · obtain ⟨s, hs, h⟩ := h1 hxa
      exact ⟨s, hs, by rw [hl s (hra s hs), hl x hxa]; exact (map_asciiLower_eq_iff s x).2 h⟩
    · obtain ⟨s, hs, h⟩ := h2 hxa
      exact ⟨s, hs, by rw [hl s (hra s hs)]; exact h⟩

/-- On ASCII code points `sameLetter` is: equal, or the two cases of one letter A–Z
(the whole 128 × 128 table, by kernel evaluation). -/
theorem sameLetter_table : ∀ a < 128, ∀ b < 128,
    (asciiLower (Char.ofNat a) = asciiLower (Char.ofNat b)) =
      (a = b ∨ (65 ≤ a ∧ a ≤ 90 ∧ b = a + 32) ∨ (65 ≤ b ∧ b ≤ 90 ∧ a = b + 32)) := by
  decide +kernel

theorem sameLetter_iff (a b : Char) (ha : a.toNat < 128) (hb : b.toNat < 128) :
    sameLetter a b ↔ a.toNat = b.toNat ∨ (65 ≤ a.toNat ∧ a.toNat ≤ 90 ∧ b.toNat = a.toNat + 32) ∨
      (65 ≤ b.toNat ∧ b.toNat ≤ 90 ∧ a.toNat = b.toNat + 32) := by
  have h := sameLetter_table a.toNat ha b.toNat hb
  simp only [Char.ofNat_toNat] at h
  unfold sameLetter
  rw [h]

/-- Lower-casing is idempotent on ASCII, and stays inside ASCII. -/
theorem asciiLower_table : ∀ n < 128,
    asciiLower (asciiLower (Char.ofNat n)) = asciiLower (Char.ofNat n) ∧
      (asciiLower (Char.ofNat n)).toNat < 128 := by
  decide +kernel

theorem asciiLower_idem (c : Char) (h : c.toNat < 128) : asciiLower (asciiLower c) = asciiLower c := by
  have := (asciiLower_table c.toNat h).1
  simpa only [Char.ofNat_toNat] using this

example : caseEq "Admin".toList "aDMIN".toList := by
  simp [caseEq, sameLetter, asciiLower]

end OsloPolicy.C04
