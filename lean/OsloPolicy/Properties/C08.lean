import OsloPolicy.Properties.C07
/-
C08 — scope types gate a policy independently of its check string.
Unbounded in the scope-type list, the rule store, the check tree and the credentials.
-/
namespace OsloPolicy.C08
open OsloPolicy OsloPolicy.C07

/-- token scope: system if the credentials carry a (truthy) system scope — under either
spelling —, else domain if they carry a domain id, else project -/
theorem tokenScope_cases (creds : JVal) :
    tokenScope creds =
      if ((creds.get system_).map JVal.truthy).getD false then "system".toList
      else if ((creds.get domainId_).map JVal.truthy).getD false then "domain".toList
      else "project".toList := rfl

/-- **Mismatch.** Registered scope types, enforcement on, token scope not among them: the
request is denied — `False`, or `InvalidScope` under `do_raise` — whatever the check
string, a policy-file override or the roles say (the rule store's tree for the name, the
leaves and the credentials' other content are arbitrary). -/
theorem mismatch_denies (e : EnfView) (leafOf) (n : Str) (kvs tx) (r : Registered) (t : Tree)
    (ty : Str) (tys : List Str) (d c : Bool)
    (hne : e.rules.entries.isEmpty = false) (hl : e.rules.lookup n = some t)
    (hreg : findRegistered e.registered n = some r) (hst : r.scopeTypes = some (ty :: tys))
    (hon : e.enforceScopeOpt = true)
    (hmis : (ty :: tys).contains (tokenScope (mirrorSystemScope (.obj kvs tx))) = false) :
    enforce e leafOf (.name n) (.obj kvs tx) ⟨d, c⟩ =
      if d then .raise .invalidScope else .ret false := by
  simp only [enforce, hne, hl, hreg, hst, enforceScope, hmis, hon]
  cases d <;> simp

/-- **Otherwise.** When the scope matches, enforcement is off, or no scope types are
declared, the decision is exactly that of the check. -/
theorem otherwise_check_decides (e : EnfView) (leafOf) (n : Str) (kvs tx) (t : Tree) (rs : RaiseSpec)
    (hne : e.rules.entries.isEmpty = false) (hl : e.rules.lookup n = some t)
    (hok : scopeRejects e (.obj kvs tx) (scopeOf e (.name n)) = false) :
    enforce e leafOf (.name n) (.obj kvs tx) rs =
      finish rs n (eval e.rules (leafOf (mirrorSystemScope (.obj kvs tx)) (some n)) e.fuel t) := by
  simp only [scopeOf, hne, hl, Bool.false_eq_true, ↓reduceIte] at hok
  simp only [enforce, hne, hl, Bool.false_eq_true, ↓reduceIte]
  cases hreg : findRegistered e.registered n with
  | none => simp
  | some r =>
    simp only [hreg, Option.bind_some] at hok
    match hst : r.scopeTypes with
    | none => simp [hst]
    | some [] => simp [hst]
    | some (ty :: tys) =>
      simp only [hst] at hok
      simp only [hst, gate_eq, hok]
      cases rs; simp

/-- The scope types consulted are those of the *registered default*; the rule store (where a
policy-file override lives) is only asked for the check. -/
theorem scope_from_registration (e : EnfView) (rules' : Rules) (n : Str) (creds : JVal)
    (t t' : Tree)
    (hne : e.rules.entries.isEmpty = false) (hne' : rules'.entries.isEmpty = false)
    (hl : e.rules.lookup n = some t) (hl' : rules'.lookup n = some t') :
    scopeRejects e creds (scopeOf e (.name n)) =
      scopeRejects { e with rules := rules' } creds (scopeOf { e with rules := rules' } (.name n)) := by
  simp [scopeOf, hne, hne', hl, hl', scopeRejects]

/-- Same gate for a check object carrying scope types. -/
theorem check_object_mismatch (e : EnfView) (leafOf) (t : Tree) (kvs tx)
    (ty : Str) (tys : List Str) (d c : Bool) (hon : e.enforceScopeOpt = true)
    (hmis : (ty :: tys).contains (tokenScope (mirrorSystemScope (.obj kvs tx))) = false) :
    enforce e leafOf (.check t (some (ty :: tys))) (.obj kvs tx) ⟨d, c⟩ =
      if d then .raise .invalidScope else .ret false := by
  simp only [enforce, enforceScope, hmis, hon]
  cases d <;> simp

/-- `system_scope` is honoured like `system`: a truthy `system_scope` makes the token system-scoped. -/
theorem system_scope_spelling (kvs tx) (v : JVal) (h : afind systemScope_ kvs = some v) (hv : v.truthy = true) :
    tokenScope (mirrorSystemScope (.obj kvs tx)) = "system".toList := by
  have hget : (JVal.obj kvs tx).get systemScope_ = some v := by simp [JVal.get, h]
  have hfind : ∀ (l : List (Str × JVal)), afind system_ (ainsert system_ v l) = some v := by
    intro l; induction l with
    | nil => simp [ainsert, afind]
    | cons p l ih =>
      obtain ⟨k, x⟩ := p
      by_cases hk : k = system_ <;> simp [ainsert, afind, hk, ih]
  have hm : mirrorSystemScope (.obj kvs tx) = .obj (ainsert system_ v kvs) tx := by
    simp only [mirrorSystemScope, hget, hv, ↓reduceIte, JVal.set]
  rw [hm]
  simp only [tokenScope, JVal.get, hfind, Option.map_some, hv, Option.getD_some, ↓reduceIte]

/-! Non-vacuity: project-scoped token against a system-only policy. -/
example : (["system".toList] : List Str).contains
    (tokenScope (mirrorSystemScope (.obj [("project_id".toList, .str ['x'])] []))) = false := by
  decide

/-! The row seeded change C08-A8 broke: a `system` key that is present but empty next to
`system_scope = 'all'` — the token is system-scoped (instance of `system_scope_spelling`). -/
example : tokenScope (mirrorSystemScope
    (.obj [(system_, .null), (systemScope_, .str "all".toList), ("project_id".toList, .str ['p'])] [])) =
    "system".toList := by
  decide

end OsloPolicy.C08
