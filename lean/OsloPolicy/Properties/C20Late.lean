import OsloPolicy.Proofs.SchedNoDirs
import OsloPolicy.Properties.C20
/-
C20, the other half of the quantifier: the deciding thread may already be *past its own load step* (which found
nothing to reload) when the files change and another thread starts reloading.  `no_dirs_one_switch_safe`
(Properties/C20Safe.lean) covers a decider that runs its WHOLE call inside the reloader's window — its own load step
repairs the torn store.  A decider that is past its load step repairs nothing, and then even a scenario without any
policy-directory content is unsafe on today's in-place rebuild: known finding F10-late-registered-no-dir.
-/
namespace OsloPolicy.C20
open OsloPolicy.Sched

/-- D runs `k` steps while nothing is stale; then the main file is edited (`mainStale := true`); R runs `j` steps; D runs
to completion.  Returns D's decision. -/
def lateEdit (sc : Scenario) (rules0 : Content) (k j : Nat) : Option Bool :=
  let (s1, d1) := solo sc k (⟨rules0, false, false⟩, {})
  let (s2, _) := solo sc j ({ s1 with mainStale := true }, {})
  (solo sc (span sc) (s2, d1)).2.out

/-- the scenario of `Proofs/SchedNoDirs.lean`: registered default `p:!` not defined by the main file, permissive default
rule, nothing in the policy directories -/
theorem noDirs_old_denies : decideOn noDirs (compute noDirs noDirsMainOld []) = false := by decide
theorem noDirs_new_denies : decideOn noDirs (compute noDirs noDirs.mainNew []) = false := by decide

/-- **Negation of C20 for a decider past its load step, without any directory content**: D has finished its load step
(5 steps: nothing to reload, both registered defaults found present; its next step is the lookup), the main file is edited, R refreshes the cache
entry and overwrites the store with the main file's rules (2 steps), D decides: it *allows* through the permissive
default rule, although the complete old and the complete new policy both deny. -/
theorem late_edit_violates :
    ∃ d, lateEdit noDirs (compute noDirs noDirsMainOld []) 5 2 = some d ∧ ¬ OldOrNew noDirs noDirsMainOld [] d := by
  refine ⟨true, by decide, ?_⟩
  unfold OldOrNew
  have h : noDirs.dirsNew = [] := rfl
  rw [h, noDirs_old_denies, noDirs_new_denies]
  decide

/-- … while the same decider, had it not yet started its load step (k = 0), is safe at that very point of the reload:
it is `no_dirs_one_switch_safe` seen from the decider's side. -/
example : lateEdit noDirs (compute noDirs noDirsMainOld []) 0 2 = some false := by decide

end OsloPolicy.C20
