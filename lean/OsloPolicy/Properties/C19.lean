import OsloPolicy.Model.Checker
import OsloPolicy.Proofs.Layers
import OsloPolicy.Properties.C07
/-
C19 — oslopolicy-checker reports what the library would decide.
-/
namespace OsloPolicy.C19
open OsloPolicy

theorem ainsert_same {α} (k : Str) (v : α) (l : List (Str × α)) (h : afind k l = some v) :
    ainsert k v l = l := by
  induction l with
  | nil => simp [afind] at h
  | cons p r ih =>
    obtain ⟨k', v'⟩ := p
    by_cases hk : k' = k
    · subst hk; simp [afind] at h; subst h; simp [ainsert]
    · simp only [afind, hk, ↓reduceIte] at h
      simp [ainsert, hk, ih h]

/-- **Verdict = library decision.** For a policy name the store can resolve (defined, or
undefined with a usable default rule) and credentials on which the library's `system_scope`
mirroring is the identity, the value the tool's `_try_rule` obtains is exactly what
`Enforcer.enforce` returns (do_raise off) for the same store, credentials and target:
`passed` iff allow, `failed` iff deny, and an exception in the one exactly when in the other. -/
theorem verdict_is_library_decision (rs : Rules) (leafOf) (fuel : Nat) (es : Bool) (kvs tx) (key : Str)
    (hne : rs.entries.isEmpty = false) (t : Tree) (hl : rs.lookup key = some t)
    (hm : mirrorSystemScope (.obj kvs tx) = .obj kvs tx) :
    checkerVerdict rs leafOf fuel (.obj kvs tx) key =
      enforce ⟨rs, [], es, fuel⟩ leafOf (.name key) (.obj kvs tx) ⟨false, false⟩ := by
  simp only [checkerVerdict, hl, enforce, hne, hm, findRegistered, List.find?_nil]
  simp [C07.finish_off]

theorem credsBase_scope (token : List (Str × JVal)) :
    afind systemScope_ (credsBase token) = afind systemScope_ token := by
  have h1 : systemScope_ ≠ "roles".toList := by decide
  have h2 : systemScope_ ≠ "user_id".toList := by decide
  have h3 : systemScope_ ≠ "project_id".toList := by decide
  unfold credsBase
  simp only []
  cases sGet token "project" with
  | none => simp only []; rw [afind_ainsert_other _ _ _ _ h2, afind_ainsert_other _ _ _ _ h1]
  | some p =>
    simp only []
    split
    · rw [afind_ainsert_other _ _ _ _ h3, afind_ainsert_other _ _ _ _ h2, afind_ainsert_other _ _ _ _ h1]
    · rw [afind_ainsert_other _ _ _ _ h2, afind_ainsert_other _ _ _ _ h1]

/-- The credentials the tool derives already carry `system = system_scope`, so the library's
mirroring changes nothing (this is what the repaired tool guarantees; before the repair the
token's `system` mapping was left in place and `system.<key>` rules disagreed).  Premise: the
token itself has no `system_scope` entry (Keystone tokens do not). -/
theorem derived_creds_mirror_invariant (token : List (Str × JVal)) (isAdmin : Bool) (tx : Str)
    (hnoscope : afind systemScope_ token = none) :
    mirrorSystemScope (.obj (deriveCreds token isAdmin) tx) = .obj (deriveCreds token isAdmin) tx := by
  have h4 : systemScope_ ≠ "is_admin".toList := by decide
  have h5 : systemScope_ ≠ system_ := by decide
  have h6 : system_ ≠ "is_admin".toList := by decide
  unfold mirrorSystemScope deriveCreds
  simp only [JVal.get]
  rw [afind_ainsert_other _ _ _ _ h4]
  unfold withSystem
  cases hs : sGet token "system" with
  | none => simp only [credsBase_scope, hnoscope]
  | some s =>
    by_cases ht : s.truthy = true
    · simp only [ht, ↓reduceIte]
      rw [afind_ainsert_other _ _ _ _ h5, afind_ainsert_self]
      have : allStr.truthy = true := by decide
      simp only [this, ↓reduceIte, JVal.set]
      congr 1
      apply ainsert_same
      rw [afind_ainsert_other _ _ _ _ h6, afind_ainsert_self]
    · simp only [ht, Bool.false_eq_true, ↓reduceIte, credsBase_scope, hnoscope]

/-- **Which verdicts.** Without a requested rule: one per policy name containing a colon … -/
theorem names_with_colon (rs : Rules) (k : Str) :
    k ∈ checkerNames rs none ↔ k ∈ rs.entries.map (·.1) ∧ k.contains ':' = true := by
  simp only [checkerNames, List.mem_filter, sortNames, List.mem_map]
  constructor
  · rintro ⟨⟨e, he, rfl⟩, hc⟩
    have := (sortByName_perm _).mem_iff.1 he
    simp only [List.mem_map] at this
    obtain ⟨n, ⟨p, hp, rfl⟩, rfl⟩ := this
    exact ⟨⟨p, hp, rfl⟩, hc⟩
  · rintro ⟨⟨p, hp, rfl⟩, hc⟩
    refine ⟨⟨⟨p.1, false, 0, []⟩, (sortByName_perm _).mem_iff.2 ?_, rfl⟩, hc⟩
    simp only [List.mem_map]
    exact ⟨p.1, ⟨p, hp, rfl⟩, rfl⟩

/-- … in sorted order … -/
theorem names_sorted (rs : Rules) :
    (checkerNames rs none).Pairwise (fun a b => strLt b a = false) := by
  simp only [checkerNames, sortNames]
  apply List.Pairwise.filter
  rw [List.pairwise_map]
  exact sortByName_sorted _

/-- … or only the requested rule. -/
theorem requested_only (rs : Rules) (k : Str) : checkerNames rs (some k) = [k] := rfl

end OsloPolicy.C19
