import OsloPolicy.Model.Enforce
/-
C07 — enforce either returns the decision or raises the requested exception.
All statements are for every rule store, check tree, credentials and leaf behaviour.
-/
namespace OsloPolicy.C07
open OsloPolicy

theorem finish_off (n : Str) (o : Outcome) (c : Bool) : finish ⟨false, c⟩ n o = o := by
  cases o with
  | ret b => cases b <;> rfl
  | raise x => rfl

theorem finish_on (n : Str) (o : Outcome) (c : Bool) :
    finish ⟨true, c⟩ n o =
      match o with
      | .ret false => if c then .raise .custom else .raise (.notAuthorized n)
      | o => o := by
  cases o with
  | ret b => cases b <;> rfl
  | raise x => rfl

/-- The outcome with `do_raise` on, as a function of the outcome with `do_raise` off —
for a policy name.  `ret false` becomes the caller's exception (or `PolicyNotAuthorized`
naming the policy), or `InvalidScope` when the denial came from the scope gate. -/
def raised (c : Bool) (n : Str) (scopeMismatch : Bool) : Outcome → Outcome
  | .ret false => if scopeMismatch then .raise .invalidScope
                  else if c then .raise .custom else .raise (.notAuthorized n)
  | o => o

/-- Whether the scope gate rejects this request (scope types declared, enforcement on, token scope not among them). -/
def scopeRejects (e : EnfView) (creds : JVal) (st : Option (List Str)) : Bool :=
  match st with
  | some (ty :: tys) => e.enforceScopeOpt && !((ty :: tys).contains (tokenScope (mirrorSystemScope creds)))
  | _ => false

theorem gate_eq (e : EnfView) (creds : JVal) (ty : Str) (tys : List Str) (d : Bool) :
    enforceScope e.enforceScopeOpt (mirrorSystemScope creds) (ty :: tys) d =
      if scopeRejects e creds (some (ty :: tys)) then (if d then .raise .invalidScope else .ret false)
      else .ret true := by
  unfold enforceScope scopeRejects
  cases h1 : (ty :: tys).contains (tokenScope (mirrorSystemScope creds))
  · cases h2 : e.enforceScopeOpt
    · simp only [h1]; rfl
    · simp only [h1]; rfl
  · cases h2 : e.enforceScopeOpt
    · simp only [h1]; rfl
    · simp only [h1]; rfl

/-- scope types that apply to an `enforce` call -/
def scopeOf (e : EnfView) : RuleArg → Option (List Str)
  | .check _ st => st
  | .name n =>
    if e.rules.entries.isEmpty then none
    else match e.rules.lookup n with
      | none => none
      | some _ => (findRegistered e.registered n).bind (·.scopeTypes)

def nameOf : RuleArg → Str
  | .check t _ => t.print
  | .name n => n

/-- **do_raise on is do_raise off with denials turned into the requested exception.** -/
theorem on_from_off (e : EnfView) (leafOf) (rule : RuleArg) (creds : JVal) (c : Bool) :
    enforce e leafOf rule creds ⟨true, c⟩ =
      raised c (nameOf rule) (scopeRejects e creds (scopeOf e rule))
        (enforce e leafOf rule creds ⟨false, c⟩) := by
  cases creds with
  | obj kvs tx =>
    cases rule with
    | check t st =>
      simp only [enforce, scopeOf, nameOf]
      match st with
      | none => simp [scopeRejects, finish_off, finish_on, raised]
      | some [] => simp [scopeRejects, finish_off, finish_on, raised]
      | some (ty :: tys) =>
        simp only [gate_eq]
        by_cases hr : scopeRejects e (.obj kvs tx) (some (ty :: tys))
        · simp [hr, raised]
        · simp only [hr, Bool.false_eq_true, ↓reduceIte, finish_off, finish_on, raised]
    | name n =>
      simp only [enforce, scopeOf, nameOf]
      by_cases hne : e.rules.entries.isEmpty
      · simp [hne, finish, raised, scopeRejects]
      · simp only [hne, Bool.false_eq_true, ↓reduceIte]
        cases hl : e.rules.lookup n with
        | none => simp [finish, raised, scopeRejects]
        | some t =>
          simp only []
          cases hreg : findRegistered e.registered n with
          | none => simp [scopeRejects, finish_off, finish_on, raised]
          | some r =>
            simp only [Option.bind_some]
            match hst : r.scopeTypes with
            | none => simp [scopeRejects, finish_off, finish_on, raised]
            | some [] => simp [scopeRejects, finish_off, finish_on, raised]
            | some (ty :: tys) =>
              simp only [gate_eq]
              by_cases hr : scopeRejects e (.obj kvs tx) (some (ty :: tys))
              · simp [hr, raised]
              · simp only [hr, Bool.false_eq_true, ↓reduceIte, finish_off, finish_on, raised]
  | _ => simp [enforce, raised]

/-- do_raise off returns falsy exactly when do_raise on raises one of the requested
exceptions (the remaining case — an exception escaping a check — is the same in both modes). -/
theorem falsy_iff_raises (e : EnfView) (leafOf) (rule : RuleArg) (creds : JVal) (c : Bool) :
    enforce e leafOf rule creds ⟨false, c⟩ = .ret false ↔
      (enforce e leafOf rule creds ⟨true, c⟩ = .raise .invalidScope ∧
          scopeRejects e creds (scopeOf e rule) = true ∧ enforce e leafOf rule creds ⟨false, c⟩ = .ret false) ∨
      (scopeRejects e creds (scopeOf e rule) = false ∧
        enforce e leafOf rule creds ⟨true, c⟩ =
          (if c then .raise .custom else .raise (.notAuthorized (nameOf rule))) ∧
        enforce e leafOf rule creds ⟨false, c⟩ = .ret false) := by
  rw [on_from_off]
  constructor
  · intro h
    rw [h]
    by_cases hr : scopeRejects e creds (scopeOf e rule) <;> simp [raised, hr]
  · rintro (⟨_, _, h⟩ | ⟨_, _, h⟩) <;> exact h

/-- An allowed request never raises, and do_raise never yields a falsy return. -/
theorem allow_same (e : EnfView) (leafOf) (rule : RuleArg) (creds : JVal) (c : Bool) :
    (enforce e leafOf rule creds ⟨false, c⟩ = .ret true →
      enforce e leafOf rule creds ⟨true, c⟩ = .ret true) ∧
    enforce e leafOf rule creds ⟨true, c⟩ ≠ .ret false := by
  rw [on_from_off]
  constructor
  · intro h; rw [h]; rfl
  · cases enforce e leafOf rule creds ⟨false, c⟩ with
    | ret b =>
      cases b
      · simp only [raised]; split <;> (try split) <;> simp
      · simp [raised]
    | raise x => simp [raised]

/-- `authorize` raises `PolicyNotRegistered`, evaluating nothing, for unregistered names and
is `enforce` for registered ones. -/
theorem authorize_unregistered (e : EnfView) (leafOf) (n : Str) (creds) (rs)
    (h : findRegistered e.registered n = none) :
    authorize e leafOf n creds rs = .raise (.notRegistered n) := by
  simp [authorize, h]

theorem authorize_registered (e : EnfView) (leafOf) (n : Str) (creds) (rs) (r)
    (h : findRegistered e.registered n = some r) :
    authorize e leafOf n creds rs = enforce e leafOf (.name n) creds rs := by
  simp [authorize, h]

/-- `authorize` on an unregistered name does not depend on the rules, credentials or leaves at all. -/
theorem authorize_evaluates_nothing (e e' : EnfView) (leafOf leafOf') (n : Str) (creds creds') (rs rs')
    (h : findRegistered e.registered n = none) (h' : e'.registered = e.registered) :
    authorize e leafOf n creds rs = authorize e' leafOf' n creds' rs' := by
  rw [authorize_unregistered e leafOf n creds rs h,
      authorize_unregistered e' leafOf' n creds' rs' (h' ▸ h)]

/-- Credentials that are not a mapping are rejected with `InvalidContextObject` in both modes. -/
theorem bad_context (e : EnfView) (leafOf) (rule) (creds : JVal) (rs)
    (h : ∀ kvs t, creds ≠ .obj kvs t) : enforce e leafOf rule creds rs = .raise .invalidContext := by
  cases creds <;> simp_all [enforce]

end OsloPolicy.C07
