import OsloPolicy.Proofs.Loader
/-
C03 for names defined by *registration*: after the loader's merge of registered defaults
(`mergeDefaults`, the loop over `registered_rules` in `load_rules`) every registered name is
defined in the rule store — by the file's definition where the file has one, otherwise by the
default's own check (`defaultCheck`: its check string, or C11's deprecation merge) — so by
`C03.defined_decides` it is decided by that definition and never by the default rule.
Stated after seeded change C03-A8, where a renamed registered policy took the default rule's
check as its own definition.
-/
namespace OsloPolicy.C03
open OsloPolicy

theorem registered_name_is_defined (en : Bool) (fr : Content) (regs : List RuleDefault) (s : Store)
    (d : RuleDefault) (hd : d ∈ regs) : (afind d.name (mergeDefaults en fr regs s)).isSome = true :=
  mergeDefaults_mem en fr regs s d hd

/-- A definition already in the store (from the policy file or policy.d) is never replaced by
the merge. -/
theorem file_definition_kept (en : Bool) (fr : Content) (regs : List RuleDefault) (s : Store)
    (n : Str) (t : Tree) (h : afind n s = some t) : afind n (mergeDefaults en fr regs s) = some t := by
  induction regs generalizing s with
  | nil => exact h
  | cons d regs ih =>
    rw [mergeDefaults_cons]
    apply ih
    split
    · exact h
    · rename_i hn
      rw [afind_ainsert_ld]
      split
      · rename_i e; subst e; simp [h] at hn
      · exact h

/-- A registered name the files do not define gets exactly its own default check — whatever
else the store holds (in particular whatever the `default` rule is). -/
theorem registered_name_own_definition (en : Bool) (fr : Content) (regs : List RuleDefault)
    (s : Store) (d : RuleDefault) (hnd : (regs.map (·.name)).Nodup) (hd : d ∈ regs)
    (habs : afind d.name s = none) :
    afind d.name (mergeDefaults en fr regs s) = some (defaultCheck en fr d) := by
  induction regs generalizing s with
  | nil => cases hd
  | cons d' regs ih =>
    rw [mergeDefaults_cons]
    simp only [List.map_cons, List.nodup_cons] at hnd
    rcases List.mem_cons.1 hd with h | h
    · subst h
      rw [habs]
      simp only [Option.isSome_none, Bool.false_eq_true, ↓reduceIte]
      apply file_definition_kept
      rw [afind_ainsert_ld]; simp
    · have hne : d'.name ≠ d.name := fun e => hnd.1 (e ▸ List.mem_map_of_mem h)
      apply ih _ hnd.2 h
      split
      · exact habs
      · rw [afind_ainsert_ld, if_neg hne]; exact habs

/-- The store content under any *other* name plays no part: two stores that both lack the
name give the registered policy the same definition (so defining or changing `default` cannot
change it). -/
theorem registered_name_ignores_other_rules (en : Bool) (fr : Content) (regs : List RuleDefault)
    (s1 s2 : Store) (d : RuleDefault) (hnd : (regs.map (·.name)).Nodup) (hd : d ∈ regs)
    (h1 : afind d.name s1 = none) (h2 : afind d.name s2 = none) :
    afind d.name (mergeDefaults en fr regs s1) = afind d.name (mergeDefaults en fr regs s2) := by
  rw [registered_name_own_definition en fr regs s1 d hnd hd h1,
    registered_name_own_definition en fr regs s2 d hnd hd h2]

end OsloPolicy.C03
