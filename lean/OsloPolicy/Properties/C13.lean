import OsloPolicy.Proofs.Validate
/-
C13 — validation flags every undefined or cyclic rule reference, and only those.
`RefsUndefined` / `ReachesCycle` (Spec/RefGraph.lean) are stated on the reference graph,
independently of how the code walks trees.
-/
namespace OsloPolicy.C13
open OsloPolicy

/-- **Exactness.** `check_rules()` reports a problem exactly when some rule references an
undefined rule or can reach a reference cycle — wherever in the expression the reference
sits (the reference set `refsTree` includes operands of `not`); diamond-shaped sharing is
not a repeat on any single walk, hence not reported. -/
theorem exact (rs : List (Str × Tree)) :
    checkRules rs false = false ↔ ∃ p ∈ rs, RefsUndefined rs p.2 ∨ ReachesCycle rs p.2 :=
  checkRules_false_iff rs

/-- with `skip_undefined_check`, exactly the cycles -/
theorem exact_skip (rs : List (Str × Tree)) :
    checkRules rs true = false ↔ ∃ p ∈ rs, ReachesCycle rs p.2 :=
  checkRules_skip_false_iff rs

/-- the two walkers see exactly the references of a tree, including those under `not` -/
theorem undefined_walker (rs : List (Str × Tree)) (t : Tree) :
    undefTree rs t = true ↔ RefsUndefined rs t := undefTree_iff rs t
theorem cycle_walker (rs : List (Str × Tree)) (t : Tree) :
    cycleCheck rs t = true ↔ ReachesCycle rs t := cycleCheck_iff rs t

theorem not_is_visited (rs : List (Str × Tree)) (m : Str) (h : afind m rs = none) :
    undefTree rs (.not (.chk ruleKind m)) = true := by
  simp [undefTree, h]

/-- **Termination.** When nothing is reported, evaluating any rule of the set terminates:
the evaluator never needs more than `|rules|+1` levels of reference nesting, for any
leaf behaviour and any default-rule setting. -/
theorem terminates (rs : Rules) (leaf : Str → Str → Outcome) (hl : NoRec leaf)
    (hok : checkRules rs.entries false = true) :
    ∀ p ∈ rs.entries, eval rs leaf (rs.entries.length + 1) p.2 ≠ .raise .recursion :=
  checkRules_terminates rs leaf hl hok

/-- The validator's exit status is non-zero exactly for: a missing policy file, invalid
rules (above), a file rule the service does not register, a rule forced to `!` whose
source text is not `!`. -/
theorem validator_status (fileMissing : Bool) (rs : List (Str × Tree)) (fileRules : List (Str × Bool))
    (registered : List Str) :
    validatorStatus fileMissing rs fileRules registered ≠ 0 ↔
      fileMissing = true ∨ checkRules rs false = false ∨
      (∃ p ∈ fileRules, registered.contains p.1 = false) ∨
      (∃ p ∈ fileRules, forcedToFalse rs p = true) := by
  unfold validatorStatus validatorFails
  have e1 : (fileRules.any (fun p => !registered.contains p.1) = true) ↔
      ∃ p ∈ fileRules, registered.contains p.1 = false := by
    simp only [List.any_eq_true, Bool.not_eq_true']
  have e2 : (fileRules.any (forcedToFalse rs) = true) ↔ ∃ p ∈ fileRules, forcedToFalse rs p = true := by
    simp only [List.any_eq_true]
  rw [← e1, ← e2]
  cases fileMissing <;> cases checkRules rs false <;>
    cases fileRules.any (fun p => !registered.contains p.1) <;>
    cases fileRules.any (forcedToFalse rs) <;> simp

/-! Non-vacuity: a self-reference under `not` is a reachable cycle; a diamond is not. -/
example : checkRules [(['a'], .not (.chk ruleKind ['a']))] false = false := by decide
example : checkRules [(['a'], .and [.chk ruleKind ['b'], .chk ruleKind ['c']]),
    (['b'], .chk ruleKind ['d']), (['c'], .chk ruleKind ['d']), (['d'], .tt)] false = true := by decide

end OsloPolicy.C13
