import OsloPolicy.Proofs.Tools
/-
C18 — policy-file rewriting tools and advice preserve every decision.
Stated on the mapping (name ↦ rule value) each tool's output denotes, through `governs`
(C11: what decides a registered policy given the rules found in files).  The quantifier's
exclusions appear as explicit hypotheses.
-/
namespace OsloPolicy.C18
open OsloPolicy

/-- the exclusions of the property, for the upgrade tool: registered names are distinct (U);
the file never defines a renamed deprecated name together with one of its successors (X1);
a renamed deprecated name is not itself a registered policy (X2); no rule is the
self-reference `rule:<its own name>` under a same-name deprecation (X3, a cyclic — invalid — rule) -/
structure UpgradeInputOK (file : Content) (regs : List RuleDefault) : Prop where
  U : ∀ d₁ ∈ regs, ∀ d₂ ∈ regs, d₁.name = d₂.name → d₁ = d₂
  X1 : ∀ d ∈ regs, ∀ o os, d.deprecated = some (o, os) → o ≠ d.name → (afind o file).isSome → afind d.name file = none
  X2 : ∀ d ∈ regs, ∀ o os, d.deprecated = some (o, os) → o ≠ d.name → ∀ d' ∈ regs, d'.name ≠ o
  X3 : NoSelfAlias file regs

/-- **oslopolicy-policy-upgrade.** Under the upgraded file every registered policy is governed
by exactly what governed it under the original file — for either setting of
`enforce_new_defaults` — including a deprecated name split into several new policies. -/
theorem upgrade_preserves (enforceNew : Bool) (file : Content) (regs : List RuleDefault)
    (h : UpgradeInputOK file regs) (d : RuleDefault) (hd : d ∈ regs) :
    governs enforceNew (toolUpgrade file regs) d = governs enforceNew file d :=
  upgrade_governs enforceNew file regs h.U h.X1 h.X2 h.X3 d hd

/-- names that are neither registered nor deprecated keep their rule -/
theorem upgrade_keeps_other_names (file : Content) (regs : List RuleDefault) (n : Str)
    (h1 : ∀ d ∈ regs, d.name ≠ n) (h2 : ∀ d ∈ regs, ∀ o os, d.deprecated = some (o, os) → o ≠ n) :
    afind n (toolUpgrade file regs) = afind n file :=
  upgrade_other_name file regs n h1 h2

/-- the renamed deprecated names are gone afterwards -/
theorem upgrade_removes_old_names (file : Content) (regs : List RuleDefault) (h : UpgradeInputOK file regs)
    (d : RuleDefault) (hd : d ∈ regs) (o : Str) (os : JVal) (hdep : d.deprecated = some (o, os)) (hne : o ≠ d.name) :
    afind o (toolUpgrade file regs) = none :=
  upgrade_old_name file regs h.X2 d hd o os hdep hne

/-- the tool completes for every file; in the split case every successor takes over the value -/
theorem upgrade_completes (file : Content) (regs : List RuleDefault) : ∃ out, toolUpgrade file regs = out :=
  upgrade_total file regs

/-- **oslopolicy-convert-json-to-yaml.** The converted file keeps every rule except those equal
to the registered default (which it comments out) … -/
theorem convert_keeps_or_comments (file : Content) (regs : List RuleDefault) (n : Str)
    (hnd : (file.map (·.1)).Nodup) :
    afind n (toolConvert file regs) =
      match afind n file with
      | some v => if equalsDefault regs n v then none else some v
      | none => none :=
  convert_lookup file regs n hnd

/-- … and a rule equal to its registered default *is* the default's check tree, so dropping it
(converter: commented out; list-redundant: deleted by the operator) changes no decision. -/
theorem equal_to_default_is_default (regs : List RuleDefault) (n : Str) (v : JVal) (d : RuleDefault)
    (hf : regs.find? (·.name = n) = some d) (h : equalsDefault regs n v = true)
    (hv : WFT (parseValue v)) (hd : WFT (parseValue d.checkStr)) :
    parseValue v = parseValue d.checkStr :=
  equalsDefault_same_tree regs n v d hf h hv hd

/-- **oslopolicy-list-redundant** reports exactly the file rules equal to their registered default. -/
theorem redundant_reports (fr : Content) (regs : List RuleDefault) (n : Str) :
    n ∈ toolRedundant fr regs ↔ ∃ v, (n, v) ∈ fr ∧ equalsDefault regs n v = true :=
  redundant_mem fr regs n

/-- **oslopolicy-policy-generator.** The generated file defines every name the operator's files
define, with the same value, and every other registered policy with its default check string. -/
theorem generate_states_effective (fr : Content) (regs : List RuleDefault) (n : Str) :
    afind n (toolGenerate fr regs) =
      match afind n fr with
      | some v => some v
      | none => (regs.find? (·.name = n)).map (·.checkStr) :=
  generate_lookup fr regs n

end OsloPolicy.C18
