import OsloPolicy.Proofs.ParserSound
import OsloPolicy.Proofs.EvalDen
/-
C02 — malformed rules and non-rule values never grant access.
-/
namespace OsloPolicy.C02
open OsloPolicy

/-- The parser accepts *only* sentences of the documented grammar. -/
theorem sound (toks : List Tok) (t : Tree) (h : parseToks toks = some t) :
    ∃ e : E 0, toks = e.render ∧ t = build e :=
  parseToks_sound toks t h

/-- A token sequence that is not a sentence is rejected … -/
theorem reject (toks : List Tok) (h : ¬ ∃ e : E 0, toks = e.render) : parseToks toks = none := by
  cases hp : parseToks toks with
  | none => rfl
  | some t => exact absurd (let ⟨e, he, _⟩ := parseToks_sound toks t hp; ⟨e, he⟩) h

/-- … so a non-empty string that does not tokenize to a sentence parses to `!` … -/
theorem text_fails_closed (s : Str) (hs : s ≠ []) (h : ¬ ∃ e : E 0, tokenize s = e.render) :
    parseText s = .ff := by
  have : s.isEmpty = false := by cases s <;> simp_all
  simp [parseText, this, reject _ h]

/-- … and denies for every target and credentials (whatever the leaves and references do). -/
theorem text_denies (s : Str) (hs : s ≠ []) (h : ¬ ∃ e : E 0, tokenize s = e.render)
    (leaf : Str → Str → Outcome) (ref : Str → Outcome) :
    evalTree leaf ref (parseText s) = .ret false := by
  rw [text_fails_closed s hs h]; simp [evalTree]

/-- Loading a string never fails: it yields `@` (empty), `!` (not a sentence) or the
tree of the sentence it spells. -/
theorem text_total (s : Str) :
    (s = [] ∧ parseText s = .tt) ∨
    ((¬ ∃ e : E 0, tokenize s = e.render) ∧ parseText s = .ff) ∨
    (∃ e : E 0, tokenize s = e.render ∧ parseText s = build e) := by
  by_cases hs : s = []
  · left; subst hs; simp [parseText]
  · by_cases h : ∃ e : E 0, tokenize s = e.render
    · right; right
      obtain ⟨e, he⟩ := h
      refine ⟨e, he, ?_⟩
      have : s.isEmpty = false := by cases s <;> simp_all
      simp [parseText, this, he, parseToks_render]
    · right; left; exact ⟨h, text_fails_closed s hs h⟩

/-- No sentence contains a quoted-string token: a rule with a bare quoted string denies. -/
theorem no_string_token : ∀ {n} (e : E n) (q : Str), Tok.str q ∉ e.render
  | _, .leaf _, q => by simp [E.render]
  | _, .paren e, q => by simp [E.render, no_string_token e q]
  | _, .not e, q => by simp [E.render, no_string_token e q]
  | _, .up1 e, q => by simp [E.render, no_string_token e q]
  | _, .and a b, q => by simp [E.render, no_string_token a q, no_string_token b q]
  | _, .up0 e, q => by simp [E.render, no_string_token e q]
  | _, .or a b, q => by simp [E.render, no_string_token a q, no_string_token b q]

theorem quoted_string_rejects (toks : List Tok) (q : Str) (h : Tok.str q ∈ toks) :
    parseToks toks = none :=
  reject toks (fun ⟨e, he⟩ => no_string_token e q (he ▸ h))

/-- A single check that is not of the form `kind:match` behaves as `!`. -/
theorem leaf_without_colon (s : Str) (h : splitColon s = none) (h1 : s ≠ ['@']) :
    parseCheck s = .ff := by
  unfold parseCheck; simp [h, h1]

/-- A rule value that is neither a string nor a list of strings / lists of strings denies. -/
theorem values_fail_closed (v : JVal) (hstr : ∀ s, v ≠ .str s) (h : listRuleShape v = none) :
    parseValue v = .ff := by
  cases v <;> simp_all [parseValue, parseListRule]

theorem null_denies : parseValue .null = .ff := by simp [parseValue, parseListRule, listRuleShape]
theorem bool_denies (b) : parseValue (.bool b) = .ff := by simp [parseValue, parseListRule, listRuleShape]
theorem number_denies (i) : parseValue (.int i) = .ff := by simp [parseValue, parseListRule, listRuleShape]
theorem mapping_denies (kvs t) : parseValue (.obj kvs t) = .ff := by
  simp [parseValue, parseListRule, listRuleShape]
theorem other_denies (t b) : parseValue (.other t b) = .ff := by
  simp [parseValue, parseListRule, listRuleShape]
/-- a list holding anything but strings and lists of strings denies -/
theorem bad_member_denies (xs : List JVal) (t : Str) (x : JVal) (hx : x ∈ xs)
    (hbad : innerStrings x = none) : parseValue (.arr xs t) = .ff := by
  have : xs.all (fun x => (innerStrings x).isSome) = false := by
    simp only [List.all_eq_false]
    exact ⟨x, hx, by simp [hbad]⟩
  simp [parseValue, parseListRule, listRuleShape, this]

/-! Non-vacuity: `role:a role:b` (adjacent checks) is not a sentence; `( role:a` is not. -/
example : parseToks [.chk (.chk ['a'] []), .chk (.chk ['b'] [])] = none := by
  have h1 : reduce [Ent.chk (Tree.chk ['a'] [])] = [Ent.chk (Tree.chk ['a'] [])] :=
    reduce_chk_quiet _ _ (by simp [Quiet])
  have h2 : reduce [Ent.chk (Tree.chk ['b'] []), Ent.chk (Tree.chk ['a'] [])]
      = [Ent.chk (Tree.chk ['b'] []), Ent.chk (Tree.chk ['a'] [])] :=
    reduce_chk_quiet _ _ (by simp [Quiet])
  simp [parseToks, run, shift, Tok.ent, h1, h2, result]

end OsloPolicy.C02
