import OsloPolicy.Proofs.SchedSafe
import OsloPolicy.Proofs.SchedNoDirs
import OsloPolicy.Properties.C20
/-
C20, the part that holds (see Properties/C20.lean for the counterexample on today's code).
-/
namespace OsloPolicy.C20
open OsloPolicy.Sched

/-- **Partial (quiescent decisions).** If one thread's `enforce` runs to completion before the
other's starts — in either order, whatever happens afterwards — both decisions are those of
the complete new policy, in particular `OldOrNew`. Full statement of C20 quantifies over all
schedules; for the in-place rebuild only these sequential ones are safe (`inplace_violates`). -/
theorem quiescent_partial (sc : Scenario) (mainOld dirsOld : Content) (ms ds : Bool)
    (hm : ms = false → mainOld = sc.mainNew) (hd : ds = false → dirsOld = sc.dirsNew)
    (first : Bool) (k₁ k₂ : Nat) (h₁ : span sc ≤ k₁) (h₂ : span sc ≤ k₂) (rest : List Bool) :
    let r := run sc (List.replicate k₁ first ++ List.replicate k₂ (!first) ++ rest)
      (⟨compute sc mainOld dirsOld, ms, ds⟩, {}, {})
    (∃ d, r.2.1.out = some d ∧ OldOrNew sc mainOld dirsOld d) ∧
    (∃ d, r.2.2.out = some d ∧ OldOrNew sc mainOld dirsOld d) :=
  sequential_old_or_new sc mainOld dirsOld ms ds hm hd first k₁ k₂ h₁ h₂ rest

/-- **Build-then-publish is safe for every schedule.** In the variant where a reload builds a
private store and publishes it with one write, and a decision reads the shared store once,
every decision of either thread is `OldOrNew` — for all scenarios, all old contents, any
setting of the stale flags and any schedule of any length. This is the theorem that applies
if the loader is ever restructured that way. -/
theorem swap_safe_all_schedules (sc : Scenario) (mainOld dirsOld : Content) (ms ds : Bool)
    (sched : List Bool) :
    let r := runS sc sched (⟨compute sc mainOld dirsOld, ms, ds⟩, {}, {})
    (∀ d, r.2.1.out = some d → OldOrNew sc mainOld dirsOld d) ∧
    (∀ d, r.2.2.out = some d → OldOrNew sc mainOld dirsOld d) :=
  swap_safe sc mainOld dirsOld ms ds sched

/-- **Without policy-directory content a reload is safe against a complete concurrent `enforce`.**
Thread A is preempted after ANY number `k` of steps of its `enforce` (anywhere in its reload of an edited main
file, or before, or after), thread B runs a whole `enforce`, thread A finishes: both decisions are those of the
complete old or the complete new policy — for every scenario with nothing in the policy directories, every list of
registered defaults, every default rule. (B's own load step re-adds every registered default that A's overwrite of
the store removed, before B decides.) This is the class the `registered_default_no_dir_files` and
`registered_default_permissive` schedules of the check explore on the real code; the counterexample
`inplace_violates` needs a directory override. -/
theorem no_dirs_one_switch_safe (sc : Scenario) (mainOld : Content) (ms : Bool)
    (hd : sc.dirsNew = []) (hm : ms = false → mainOld = sc.mainNew) (k : Nat) :
    let r := oneSwitch sc ⟨compute sc mainOld [], ms, false⟩ k
    (∃ d, r.1 = some d ∧ OldOrNew sc mainOld [] d) ∧ (∃ d, r.2 = some d ∧ OldOrNew sc mainOld [] d) := by
  have h := Sched.no_dirs_one_switch_safe sc mainOld ms hd hm k
  simpa only [OldOrNew, hd] using h

end OsloPolicy.C20
