import OsloPolicy.Model.Tables
import OsloPolicy.Generated.RepoTables
/-
Obligation tying the default values of the public entry points' parameters (read from the working tree with
`inspect.signature` on every run) to what the models assume. Found necessary by the mutant sweep (DESIGN §16): a flipped
default of `fallback_to_json_file` or `do_raise` changes what `Enforcer(conf)` / `authorize(name, target, creds)` mean.
-/
namespace OsloPolicy.Tie
open OsloPolicy

theorem api_defaults_same : Generated.apiDefaults = Tables.apiDefaults := by decide

end OsloPolicy.Tie
