import OsloPolicy.Proofs.Loader
import OsloPolicy.Proofs.Layers
import OsloPolicy.Proofs.LoaderReg
/-
C10 — a long-lived enforcer always decides as a freshly started one would.
State-machine refinement: the mtime-cached loader (`load`) refines "compute from the
current files" (`compute`, characterised by C09) along every history.
-/
namespace OsloPolicy.C10
open OsloPolicy

/-- **C10.** After any sequence of creating, rewriting, touching and deleting the policy file
and files in the policy directories (each change stamped with a fresh, larger time),
interleaved with loads (plain or forced — an `enforce` call is a load followed by a pure
lookup), the next load of the long-lived enforcer yields exactly the rule store of a newly
constructed enforcer reading the current files. -/
theorem history (enforceNew : Bool) (regs : List RuleDefault) (fs0 : FS) (clock0 : Nat)
    (hst : FS.Stamped fs0 clock0) (ops : List Op) :
    let w := ops.foldl (step enforceNew regs) ⟨fs0, Enf.init fs0.dirs.length, clock0⟩
    (load enforceNew regs w.enf w.fs false).rules = (fresh enforceNew regs w.fs).rules :=
  history_fresh enforceNew regs fs0 clock0 hst ops

/-- The invariant carried along every history (ghost snapshot of the file system at the
last load; cached mtimes bounded by its clock; every slot unchanged since or stamped later). -/
theorem invariant_initial (enforceNew : Bool) (regs : List RuleDefault) (fs : FS) (clock : Nat)
    (hst : FS.Stamped fs clock) : Inv enforceNew regs ⟨fs, Enf.init fs.dirs.length, clock⟩ :=
  Inv_init enforceNew regs fs clock hst
theorem invariant_step (enforceNew : Bool) (regs : List RuleDefault) (w : World) (op : Op)
    (h : Inv enforceNew regs w) : Inv enforceNew regs (step enforceNew regs w op) :=
  Inv_step enforceNew regs w op h

/-- … and what it buys: one more load gives `compute` of the current files, i.e. (C09) the
last definition in layer order — so no removed override survives, no registered default is
lost, and directory overrides are re-applied whenever anything changed. -/
theorem next_load_is_compute (enforceNew : Bool) (regs : List RuleDefault) (w : World)
    (h : Inv enforceNew regs w) :
    (load enforceNew regs w.enf w.fs false).rules = compute enforceNew regs w.fs :=
  Inv_load_fresh enforceNew regs w h

theorem next_lookup_is_effective (enforceNew : Bool) (regs : List RuleDefault) (w : World)
    (h : Inv enforceNew regs w) (n : Str) :
    afind n (load enforceNew regs w.enf w.fs false).rules = effective enforceNew regs w.fs n := by
  rw [Inv_load_fresh enforceNew regs w h, compute_effective]

/-- A brand-new enforcer computes `compute`. -/
theorem fresh_is_compute (enforceNew : Bool) (regs : List RuleDefault) (fs : FS) (clock : Nat)
    (hst : FS.Stamped fs clock) : (fresh enforceNew regs fs).rules = compute enforceNew regs fs :=
  (fresh_rules enforceNew regs fs hst).1

/-- If the policy file disappears, loading continues as if it were empty: the rules are those
computed from a file system without a main file. -/
theorem vanished_main (enforceNew : Bool) (regs : List RuleDefault) (w : World)
    (h : Inv enforceNew regs w) (hgone : w.fs.main = none) :
    (load enforceNew regs w.enf w.fs false).rules =
      mergeDefaults enforceNew ((dirLayers w.fs.dirs).foldl updFileRules []) regs
        ((dirLayers w.fs.dirs).foldl updStore []) := by
  rw [Inv_load_fresh enforceNew regs w h]
  simp [compute, filesStore, filesRules, fileLayers, hgone]

/-- **C10 for a service that registers defaults as it goes.** Histories may also contain
`register_default` calls (a duplicate name raises and changes nothing): after any such history the
next load yields what a brand-new enforcer holding all defaults registered so far computes from the
current files — a default registered after the rules were first loaded is not lost. -/
theorem history_with_registration (enforceNew : Bool) (regs0 : List RuleDefault) (fs0 : FS) (clock0 : Nat)
    (hst : FS.Stamped fs0 clock0) (ops : List OpR) :
    let w := ops.foldl (stepR enforceNew) ⟨⟨fs0, Enf.init fs0.dirs.length, clock0⟩, regs0⟩
    (load enforceNew w.regs w.world.enf w.world.fs false).rules = (fresh enforceNew w.regs w.world.fs).rules :=
  historyR_fresh enforceNew regs0 fs0 clock0 hst ops

/-- … in particular: register some defaults, load, register the rest, load again — the result is the
effective policy for all of them (C09's layers), whatever the files are. -/
theorem late_registration (enforceNew : Bool) (r1 r2 : List RuleDefault) (fs : FS) (clock : Nat)
    (hst : FS.Stamped fs clock) :
    (load enforceNew (r1 ++ r2) (load enforceNew r1 (Enf.init fs.dirs.length) fs false) fs false).rules =
      compute enforceNew (r1 ++ r2) fs := by
  have h0 := Inv_init enforceNew r1 fs clock hst
  have h1 := Inv_step enforceNew r1 _ .load h0
  have h2 := Inv_register enforceNew r1 r2 _ h1
  have h3 := Inv_load_fresh enforceNew (r1 ++ r2) _ h2
  simpa only [step] using h3

/-! Non-vacuity: the empty file system at clock 0 is stamped, so histories exist. -/
example : FS.Stamped ⟨none, [some ⟨1, []⟩, none]⟩ 1 := by
  constructor
  · intro c t h; cases h
  · intro d hd
    simp at hd
    subst hd
    exact ⟨⟨Nat.le_refl _, Nat.le_refl _⟩, by intro e he; cases he⟩

end OsloPolicy.C10
