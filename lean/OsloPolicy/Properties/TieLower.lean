import OsloPolicy.Model.Lexer
import OsloPolicy.Generated.PyTables
/-
Obligation tying the model's `asciiLower` to CPython's `str.lower`, through the table of
single-code-point lower-casings extracted from the running interpreter on every run
(`Generated.pyLowerPairs`: every code point c with `len(chr(c).lower()) == 1` and
`chr(c).lower() != chr(c)`):
  * on code points below 128 the table is exactly `asciiLower` (A–Z ↦ a–z), and
  * every ASCII code point outside the table is left alone by `asciiLower`.
(That no ASCII code point lower-cases to more than one code point is part of
`pyLowerIntoKeyword`'s extraction and of the C04 correspondence.)
-/
namespace OsloPolicy.Tie
open OsloPolicy

def asciiPairs : List (Nat × Nat) := Generated.pyLowerPairs.filter (fun p => p.1 < 128)

theorem lower_ascii_table :
    asciiPairs.all (fun p => (asciiLower (Char.ofNat p.1)).toNat = p.2) = true := by decide +kernel

theorem lower_ascii_fixed :
    (List.range 128).all (fun n => (asciiPairs.any (fun p => p.1 = n)) ||
      ((asciiLower (Char.ofNat n)).toNat = n)) = true := by decide +kernel

theorem lower_ascii_domain : asciiPairs.map (·.1) = (List.range 26).map (· + 65) := by decide +kernel

end OsloPolicy.Tie
