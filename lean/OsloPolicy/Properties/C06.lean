import OsloPolicy.Proofs.EvalFuel
import OsloPolicy.Model.Enforce
/-
C06 — `rule:NAME` is a transparent alias for NAME's current definition.
-/
namespace OsloPolicy.C06
open OsloPolicy

def ruleKind : Str := "rule".toList

/-- A reference evaluates as the reference evaluator says (definitional), at any depth. -/
theorem alias (rs : Rules) (leaf) (n : Nat) (m : Str) :
    eval rs leaf n (.chk ruleKind m) = evalRef rs leaf n m := by
  simp [eval, evalTree, ruleKind]

/-- … which is: look NAME up exactly as enforcing it would (default-rule fallback when it
is undefined, deny when there is no usable default) and evaluate that definition. -/
theorem alias_is_definition (rs : Rules) (leaf) (n : Nat) (m : Str) :
    eval rs leaf (n + 1) (.chk ruleKind m) =
      match rs.lookup m with
      | none => .ret false
      | some d => catchKey (eval rs leaf n d) := by
  rw [alias, evalRef_succ]; rfl

/-- For leaves that do not raise `KeyError` (every built-in leaf except a remote check with a
missing target key) the wrapper is invisible: the alias decides exactly as the definition. -/
theorem alias_transparent (rs : Rules) (leaf) (hk : NoKey leaf) (n : Nat) (m : Str) (d : Tree)
    (hd : rs.lookup m = some d) :
    eval rs leaf (n + 1) (.chk ruleKind m) = eval rs leaf n d := by
  rw [alias_is_definition, hd]
  exact catchKey_id _ (evalTree_ne_key leaf _ hk (evalRef_ne_key rs leaf n) d)

/-- A reference to an undefined name with no usable default denies. -/
theorem undefined_denies (rs : Rules) (leaf) (n : Nat) (m : Str) (h : rs.lookup m = none) :
    eval rs leaf (n + 1) (.chk ruleKind m) = .ret false := by
  rw [alias_is_definition, h]

mutual
/-- Replace every reference `rule:m` by the tree `d`. -/
def inline (m : Str) (d : Tree) : Tree → Tree
  | .tt => .tt
  | .ff => .ff
  | .chk k x => if k = ruleKind ∧ x = m then d else .chk k x
  | .not t => .not (inline m d t)
  | .and ts => .and (inlineList m d ts)
  | .or ts => .or (inlineList m d ts)
def inlineList (m : Str) (d : Tree) : List Tree → List Tree
  | [] => []
  | t :: ts => inline m d t :: inlineList m d ts
end

mutual
/-- Substitution lemma: if, under the reference evaluator `r`, the tree `d` evaluates to
what the reference `rule:m` evaluates to, inlining changes nothing. -/
theorem evalTree_inline (leaf) (r : Str → Outcome) (m : Str) (d : Tree)
    (h : evalTree leaf r d = r m) :
    (t : Tree) → evalTree leaf r (inline m d t) = evalTree leaf r t
  | .tt => by simp [inline]
  | .ff => by simp [inline]
  | .chk k x => by
      simp only [inline]
      split
      · next hc => obtain ⟨rfl, rfl⟩ := hc; simp [evalTree, ruleKind, h]
      · rfl
  | .not t => by simp [inline, evalTree, evalTree_inline leaf r m d h t]
  | .and ts => by simp [inline, evalTree, evalAll_inline leaf r m d h ts]
  | .or ts => by simp [inline, evalTree, evalAny_inline leaf r m d h ts]
theorem evalAll_inline (leaf) (r : Str → Outcome) (m : Str) (d : Tree)
    (h : evalTree leaf r d = r m) :
    (ts : List Tree) → evalAll leaf r (inlineList m d ts) = evalAll leaf r ts
  | [] => by simp [inlineList]
  | t :: ts => by
      simp [inlineList, evalAll, evalTree_inline leaf r m d h t, evalAll_inline leaf r m d h ts]
theorem evalAny_inline (leaf) (r : Str → Outcome) (m : Str) (d : Tree)
    (h : evalTree leaf r d = r m) :
    (ts : List Tree) → evalAny leaf r (inlineList m d ts) = evalAny leaf r ts
  | [] => by simp [inlineList]
  | t :: ts => by
      simp [inlineList, evalAny, evalTree_inline leaf r m d h t, evalAny_inline leaf r m d h ts]
end

/-- **Inlining.** Replacing references to `m` by `m`'s definition, anywhere and at any depth
in a rule body, never changes a decision — provided evaluating `m` itself terminates with
the available fuel (guaranteed for acyclic rule sets, C13). -/
theorem inline_same_decision (rs : Rules) (leaf) (hk : NoKey leaf)
    (n : Nat) (m : Str) (d : Tree) (hd : rs.lookup m = some d)
    (hfuel : evalRef rs leaf (n + 1) m ≠ .raise .recursion) (t : Tree) :
    eval rs leaf (n + 1) (inline m d t) = eval rs leaf (n + 1) t := by
  apply evalTree_inline
  -- d under fuel n+1 equals the reference under fuel n+1
  have h1 : evalRef rs leaf (n + 1) m = catchKey (evalTree leaf (evalRef rs leaf n) d) := by
    rw [evalRef_succ, hd]
  have hne : evalTree leaf (evalRef rs leaf n) d ≠ .raise .recursion :=
    catchKey_ne_rec _ (h1 ▸ hfuel)
  rw [h1, catchKey_id _ (evalTree_ne_key leaf _ hk (evalRef_ne_key rs leaf n) d)]
  exact evalTree_mono leaf _ _ (evalRef_mono rs leaf n) d hne

/-- Nested checks are told the name of the policy being enforced, not the alias: in the
model the leaf evaluator of an `enforce` call is fixed (`leafOf creds (some name)`) before
evaluation starts and is the one used at every depth, through every alias. -/
theorem current_rule_forwarded (e : EnfView) (leafOf) (n : Str) (kvs tx) (t : Tree)
    (hreg : findRegistered e.registered n = none) (hne : e.rules.entries.isEmpty = false)
    (h : e.rules.lookup n = some t) :
    enforce e leafOf (.name n) (.obj kvs tx) ⟨false, false⟩ =
      finish ⟨false, false⟩ n (eval e.rules (leafOf (mirrorSystemScope (.obj kvs tx)) (some n)) e.fuel t) := by
  simp [enforce, hne, h, hreg]

/-! Non-vacuity: a two-step alias chain `a → b → role leaf`. -/
example : eval ⟨[(['a'], .chk ruleKind ['b']), (['b'], .chk ['r'] ['x'])], .none⟩ (fun _ _ => .ret true) 2
    (.chk ruleKind ['a']) = .ret true := by
  simp [eval, evalTree, evalRef, Rules.lookup, afind, ruleKind]

end OsloPolicy.C06
