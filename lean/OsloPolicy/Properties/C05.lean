import OsloPolicy.Model.Eval
import OsloPolicy.Model.Literal
/-
C05 — attribute checks compare a literal or credential path with the target value.
`lit` (Python's `ast.literal_eval` then `str`) and `pyStr` of containers are parameters /
harness-supplied; the theorems hold for every `lit`.
-/
namespace OsloPolicy.C05
open OsloPolicy

/-- Declarative path matching: follow the dot-separated path through mappings; where the
value reached by a step is a list, any element may continue the path; at the end of the
path the string form of the value must equal `m`. -/
inductive Matches : JVal → List Str → Str → Prop
  | done (v : JVal) (m : Str) : m = v.pyStr → Matches v [] m
  | step (kvs tx key rest m v') :
      afind key kvs = some v' → (∀ xs t, v' ≠ .arr xs t) → Matches v' rest m →
      Matches (.obj kvs tx) (key :: rest) m
  | stepList (kvs tx key rest m xs t x) :
      afind key kvs = some (.arr xs t) → x ∈ xs → Matches x rest m →
      Matches (.obj kvs tx) (key :: rest) m

/-- The recursive search is exactly declarative path matching. -/
theorem find_iff : ∀ (path : List Str) (v : JVal) (m : Str),
    findInDict path v m = true ↔ Matches v path m := by
  intro path
  induction path with
  | nil =>
    intro v m
    simp only [findInDict, decide_eq_true_eq]
    constructor
    · intro h; exact .done v m h
    · intro h; cases h; assumption
  | cons key rest ih =>
    intro v m
    cases v with
    | obj kvs tx =>
      simp only [findInDict]
      cases hk : afind key kvs with
      | none =>
        simp only [Bool.false_eq_true, false_iff]
        intro h
        cases h <;> simp_all
      | some v' =>
        cases v' with
        | arr xs t =>
          simp only [List.any_eq_true]
          constructor
          · rintro ⟨x, hx, h⟩
            exact .stepList kvs tx key rest m xs t x hk hx ((ih x m).1 h)
          · intro h
            cases h with
            | step _ _ _ _ _ v'' h1 h2 h3 => rw [hk] at h1; cases h1; exact absurd rfl (h2 xs t)
            | stepList _ _ _ _ _ xs' t' x h1 h2 h3 =>
              rw [hk] at h1; cases h1; exact ⟨x, h2, (ih x m).2 h3⟩
        | null | bool _ | int _ | str _ | obj _ _ | other _ _ =>
          simp only []
          constructor
          · intro h
            exact .step kvs tx key rest m _ hk (by intro xs t h'; cases h') ((ih _ m).1 h)
          · intro h
            cases h with
            | step _ _ _ _ _ v'' h1 h2 h3 => rw [hk] at h1; cases h1; exact (ih _ m).2 h3
            | stepList _ _ _ _ _ xs' t' x h1 h2 h3 => rw [hk] at h1; cases h1
    | null | bool _ | int _ | str _ | arr _ _ | other _ _ =>
      simp only [findInDict, Bool.false_eq_true, false_iff]
      intro h; cases h

/-- **C05.** The generic check allows iff the right side, after filling placeholders,
equals the string form of the literal on the left, or — when the left side is not a
literal — the credential attribute path on the left matches it. -/
theorem allow_iff (env : Env) (tgt : List (Str × JVal)) (creds : JVal) (k m : Str) :
    genericCheck env tgt creds k m = .ret true ↔
      ∃ x, subst tgt m = .ok x ∧
        ((∃ s, env.lit k = some s ∧ x = s) ∨ (env.lit k = none ∧ Matches creds (splitDots k) x)) := by
  unfold genericCheck
  cases hs : subst tgt m with
  | keyError => simp
  | unsupported => simp
  | ok x =>
    cases hl : env.lit k with
    | some s => simp
    | none => simp [find_iff]

/-- A missing target key denies. -/
theorem missing_key_denies (env : Env) (tgt) (creds : JVal) (k m : Str)
    (h : subst tgt m = .keyError) : genericCheck env tgt creds k m = .ret false := by
  simp [genericCheck, h]

/-- A missing credential attribute denies (first path segment absent from the credentials). -/
theorem missing_attribute_denies (env : Env) (tgt) (kvs tx) (k m x : Str)
    (hs : subst tgt m = .ok x) (hl : env.lit k = none)
    (key rest) (hp : splitDots k = key :: rest) (hmiss : afind key kvs = none) :
    genericCheck env tgt (.obj kvs tx) k m = .ret false := by
  simp [genericCheck, hs, hl, hp, findInDict, hmiss]

/-- It always returns a decision when the placeholders are well formed (never raises:
a path running into a non-container denies). -/
theorem decides (env : Env) (tgt) (creds : JVal) (k m : Str) (hwf : subst tgt m ≠ .unsupported) :
    ∃ b, genericCheck env tgt creds k m = .ret b := by
  unfold genericCheck
  cases hs : subst tgt m with
  | keyError => exact ⟨false, rfl⟩
  | unsupported => exact absurd hs hwf
  | ok x => cases env.lit k <;> simp

/-- A path that meets a value that is not a container denies. -/
theorem non_container_denies (path : List Str) (key : Str) (v : JVal) (m : Str)
    (h : ∀ kvs t, v ≠ .obj kvs t) : findInDict (key :: path) v m = false := by
  cases v <;> simp_all [findInDict]

/-- what the partial literal model says about a dotted path of identifiers: not a literal -/
theorem litKnown_path (k : Str) (hid : (splitDots k).all isIdent = true)
    (hc : k ≠ "True".toList ∧ k ≠ "False".toList ∧ k ≠ "None".toList) : litKnown k = some none := by
  obtain ⟨h1, h2, h3⟩ := hc
  -- the first character is a letter or underscore
  have hfirst : ∃ c r, k = c :: r ∧ isIdentStart c = true := by
    cases k with
    | nil => simp [splitDots, isIdent] at hid
    | cons c r =>
      refine ⟨c, r, rfl, ?_⟩
      unfold splitDots at hid
      split at hid
      · simp [isIdent] at hid
      · cases hsd : splitDots r with
        | nil => simp [hsd, isIdent] at hid; exact hid
        | cons h t => simp [hsd, isIdent] at hid; exact hid.1.1
  obtain ⟨c, r, rfl, hc⟩ := hfirst
  have hall : identStartChars.all (fun c => !nonZeroDigits.contains c && c != '0' && c != '-') = true := by decide
  have hprop := List.all_eq_true.1 hall c (by simpa [isIdentStart] using hc)
  simp only [Bool.and_eq_true, Bool.not_eq_true', bne_iff_ne, ne_eq] at hprop
  obtain ⟨⟨hnz, hz⟩, hminus⟩ := hprop
  have hnat : isPlainNat (c :: r) = false := by
    unfold isPlainNat
    split
    · rename_i heq; simp at heq
    · rename_i heq; simp only [List.cons.injEq] at heq; exact absurd heq.1 hz
    · rename_i c' r' _ heq
      simp only [List.cons.injEq] at heq
      obtain ⟨rfl, rfl⟩ := heq
      rw [hnz]; rfl
  unfold litKnown
  simp only [h1, h2, h3, or_self, ↓reduceIte, hnat, Bool.false_eq_true]
  split
  · rename_i heq; simp only [List.cons.injEq] at heq; exact absurd heq.1 hminus
  · simp [hid]

/-- **Closed form for attribute paths** (no `lit` parameter left): when the left side is a dotted
path of identifiers, the check allows iff the path matches the credentials. -/
theorem path_allow_iff (env : Env) (hsound : LitSound env) (tgt : List (Str × JVal)) (creds : JVal) (k m : Str)
    (hid : (splitDots k).all isIdent = true)
    (hc : k ≠ "True".toList ∧ k ≠ "False".toList ∧ k ≠ "None".toList) :
    genericCheck env tgt creds k m = .ret true ↔
      ∃ x, subst tgt m = .ok x ∧ Matches creds (splitDots k) x := by
  have hl : env.lit k = none := hsound k none (litKnown_path k hid hc)
  rw [allow_iff]
  constructor
  · rintro ⟨x, hx, (⟨s, hs, _⟩ | ⟨_, hm⟩)⟩
    · rw [hl] at hs; cases hs
    · exact ⟨x, hx, hm⟩
  · rintro ⟨x, hx, hm⟩
    exact ⟨x, hx, .inr ⟨hl, hm⟩⟩

/-- **Closed form for the constants** `True`, `False`, `None`: compare with the constant's text. -/
theorem constant_allow_iff (env : Env) (hsound : LitSound env) (tgt : List (Str × JVal)) (creds : JVal) (k m : Str)
    (hk : k = "True".toList ∨ k = "False".toList ∨ k = "None".toList) :
    genericCheck env tgt creds k m = .ret true ↔ subst tgt m = .ok k := by
  have hl : env.lit k = some k := by
    apply hsound
    rcases hk with rfl | rfl | rfl <;> decide
  rw [allow_iff]
  constructor
  · rintro ⟨x, hx, (⟨s, hs, rfl⟩ | ⟨hn, _⟩)⟩
    · rw [hl] at hs; cases hs; exact hx
    · rw [hl] at hn; cases hn
  · intro hx
    exact ⟨k, hx, .inl ⟨k, hl, rfl⟩⟩

/-! Non-vacuity: `a.b` against `{"a": [{"b": 7}, {"b": 8}]}` matches "8" through the list. -/
example : Matches (.obj [(['a'], .arr [.obj [(['b'], .int 7)] [], .obj [(['b'], .int 8)] []] [])] [])
    [['a'], ['b']] ['8'] :=
  .stepList _ _ _ _ _ [.obj [(['b'], .int 7)] [], .obj [(['b'], .int 8)] []] [] (.obj [(['b'], .int 8)] [])
    (by simp [afind]) (by simp)
    (.step _ _ _ _ _ (.int 8) (by simp [afind]) (by intro xs t h; cases h) (.done _ _ (by decide)))

end OsloPolicy.C05
