import OsloPolicy.Proofs.ParserDen
import OsloPolicy.Proofs.EvalDen
import OsloPolicy.Proofs.LexLayout
/-
C01 — rule expressions decide exactly as the documented Boolean language says.
Property theorems only; helper lemmas live in `Proofs/`.
-/
namespace OsloPolicy.C01
open OsloPolicy

/-- Every sentence of the documented grammar is accepted, and the parser builds `build e`. -/
theorem parse_complete (e : E 0) : parseToks e.render = some (build e) :=
  parseToks_render e

/-- The tree the parser builds denotes the sentence's Boolean value with precedence
`() > not > and > or`, for every valuation of the leaves. -/
theorem parse_denotes (e : E 0) (ρ : Str → Str → Bool) :
    ∃ t, parseToks e.render = some t ∧ t.den ρ = e.den ρ :=
  ⟨build e, parseToks_render e, build_den ρ e⟩

/-- … and the evaluator (short-circuiting, exception-propagating) returns exactly that
value whenever the leaves return decisions. -/
theorem decision (e : E 0) (ρ leaf ref) (h : valOf ρ leaf ref) :
    ∃ t, parseToks e.render = some t ∧ evalTree leaf ref t = .ret (e.den ρ) :=
  ⟨build e, parseToks_render e, by rw [evalTree_den ρ leaf ref h, build_den]⟩

/-- Redundant parentheses never change a decision. -/
theorem parens (e : E 0) (ρ leaf ref) (h : valOf ρ leaf ref) :
    ∃ t t', parseToks e.render = some t ∧
      parseToks (E.up0 (.up1 (.paren e))).render = some t' ∧
      evalTree leaf ref t = evalTree leaf ref t' := by
  refine ⟨build e, build (.up0 (.up1 (.paren e))), parseToks_render e, parseToks_render _, ?_⟩
  rw [evalTree_den ρ leaf ref h, evalTree_den ρ leaf ref h, build_den, build_den]
  simp [E.den]

/-- `@`, the empty string and the empty list always allow; `!` always denies. -/
theorem constants (leaf ref) :
    evalTree leaf ref (parseText []) = .ret true ∧
    evalTree leaf ref (parseValue (.arr [] [])) = .ret true ∧
    evalTree leaf ref (parseCheck ['@']) = .ret true ∧
    evalTree leaf ref (parseCheck ['!']) = .ret false := by
  refine ⟨by simp [parseText, evalTree], ?_, ?_, ?_⟩
  · simp [parseValue, parseListRule, listRuleShape, evalTree]
  · simp [parseCheck, evalTree]
  · simp [parseCheck, evalTree]

/-- `andOf` / `orOf` (a single member is returned as is) denote AND / OR of their members. -/
theorem andOf_den (ρ) (ts : List Tree) : (andOf ts).den ρ = ts.all (Tree.den ρ) := by
  match ts with
  | [] => simp [andOf, den_and]
  | [t] => simp [andOf]
  | a :: b :: r => simp [andOf, den_and]
theorem orOf_den (ρ) (ts : List Tree) : (orOf ts).den ρ = ts.any (Tree.den ρ) := by
  match ts with
  | [] => simp [orOf, Tree.den]
  | [t] => simp [orOf]
  | a :: b :: r => simp [orOf, den_or]

/-- what one non-empty member of the outer list contributes: the AND of its checks -/
def memberDen (ρ : Str → Str → Bool) (x : JVal) : Option Bool :=
  if !x.truthy then none else (innerStrings x).map fun ss => ss.all fun s => (parseCheck s).den ρ

theorem listRuleMembers_den (ρ) (xs : List JVal) (h : ∀ x ∈ xs, (innerStrings x).isSome) :
    (listRuleMembers xs).any (Tree.den ρ) = (xs.filterMap (memberDen ρ)).any id := by
  induction xs with
  | nil => simp [listRuleMembers]
  | cons x r ih =>
    have hr : ∀ y ∈ r, (innerStrings y).isSome := fun y hy => h y (by simp [hy])
    have hx := h x (by simp)
    unfold listRuleMembers
    cases ht : x.truthy with
    | false => simp [ht, memberDen, ih hr]
    | true =>
      cases hi : innerStrings x with
      | none => simp [hi] at hx
      | some ss =>
        simp only [Bool.not_true, Bool.false_eq_true, ↓reduceIte, List.any_cons, andOf_den, List.all_map,
          List.filterMap_cons, memberDen, ht, hi, Option.map_some, id, ih hr]
        rfl

/-- **List-of-lists rules**: a well-shaped value decides as the OR, over its non-empty members,
of the AND of the member's checks (a bare string is a one-check member); the empty list
allows; a list whose members are all empty denies. -/
theorem list_rule (ρ) (xs : List JVal) (t : Str) (h : ∀ x ∈ xs, (innerStrings x).isSome) :
    (parseValue (.arr xs t)).den ρ =
      if xs.isEmpty then true else (xs.filterMap (memberDen ρ)).any id := by
  have hs : listRuleShape (.arr xs t) = some xs := by
    simp only [listRuleShape]
    have : xs.all (fun x => (innerStrings x).isSome) = true := by simpa [List.all_eq_true] using h
    simp [this]
  simp only [parseValue, parseListRule, hs]
  cases xs with
  | nil => simp [Tree.den]
  | cons x r => simp only [List.isEmpty_cons, Bool.false_eq_true, ↓reduceIte, orOf_den, listRuleMembers_den ρ _ h]

theorem render_ne_nil : ∀ {n} (e : E n), e.render ≠ []
  | _, .leaf _ => by simp [E.render]
  | _, .paren _ => by simp [E.render]
  | _, .not _ => by simp [E.render]
  | _, .up1 e => by simpa [E.render] using render_ne_nil e
  | _, .and a b => by simp [E.render]
  | _, .up0 e => by simpa [E.render] using render_ne_nil e
  | _, .or a b => by simp [E.render]

/-- **Lexical invariance.** However a sentence's tokens are spelled — any whitespace runs
(Python's `str.isspace` set) around and between words, `(` glued to what follows and `)` to
what precedes or standing alone, keywords in any letter case — the text parses to the same
tree `build e`. -/
theorem lex_layout (e : E 0) (sep0 : Str) (ws : List (Word × Str)) (h0 : IsSep sep0)
    (h : LayoutOK ws) (hw : ws.flatMap (fun p => p.1.toks) = e.render) :
    parseText (spell sep0 ws) = build e := by
  have htok := tokenize_spell sep0 ws h0 h
  have hne : (spell sep0 ws).isEmpty = false := by
    cases hs : spell sep0 ws with
    | nil =>
      have : tokenize (spell sep0 ws) = [] := by rw [hs]; simp [tokenize, splitWs, splitWsAux]
      rw [htok, hw] at this
      exact absurd this (render_ne_nil e)
    | cons _ _ => rfl
  simp [parseText, hne, htok, hw, parseToks_render]

/-- … and therefore decides as the documented language says, whatever the layout. -/
theorem layout_decision (e : E 0) (sep0 : Str) (ws : List (Word × Str)) (h0 : IsSep sep0)
    (h : LayoutOK ws) (hw : ws.flatMap (fun p => p.1.toks) = e.render)
    (ρ leaf ref) (hv : valOf ρ leaf ref) :
    evalTree leaf ref (parseText (spell sep0 ws)) = .ret (e.den ρ) := by
  rw [lex_layout e sep0 ws h0 h hw, evalTree_den ρ leaf ref hv, build_den]

/-- Two layouts of the same sentence never differ in a decision (case, whitespace, glue). -/
theorem layouts_agree (e : E 0) (s1 s2 : Str) (w1 w2 : List (Word × Str))
    (h1 : IsSep s1) (h2 : IsSep s2) (l1 : LayoutOK w1) (l2 : LayoutOK w2)
    (e1 : w1.flatMap (fun p => p.1.toks) = e.render) (e2 : w2.flatMap (fun p => p.1.toks) = e.render) :
    parseText (spell s1 w1) = parseText (spell s2 w2) := by
  rw [lex_layout e s1 w1 h1 l1 e1, lex_layout e s2 w2 h2 l2 e2]

/-! Non-vacuity of the layout hypotheses: `(role:a  AND\tnot role:b)` with a tab and a
double space is a layout of `( role:a and not role:b )`. -/
example : LayoutOK
    [(⟨1, .leaf "role:a".toList, 0⟩, "  ".toList), (⟨0, .kw .kAnd "AND".toList, 0⟩, "\t".toList),
     (⟨0, .kw .kNot "not".toList, 0⟩, " ".toList), (⟨0, .leaf "role:b".toList, 1⟩, [])] := by
  simp [LayoutOK, Word.WF, Core.WF, CleanLeaf, Word.chars, Core.chars, IsSep, kwAnd, kwOr, kwNot,
    isQuoted, asciiLower]
  decide

/-! Non-vacuity: a sentence mixing all operators, `a or b and (c or d) and not e`. -/
example : ∃ e : E 0, e.render.length = 12 :=
  ⟨.or (.up0 (.up1 (.leaf (.chk ['a'] []))))
       (.and (.and (.up1 (.leaf (.chk ['b'] [])))
                   (.paren (.or (.up0 (.up1 (.leaf (.chk ['c'] [])))) (.up1 (.leaf (.chk ['d'] []))))))
             (.not (.leaf (.chk ['e'] [])))), by simp [E.render]⟩

end OsloPolicy.C01
