import OsloPolicy.Proofs.ParserDen
import OsloPolicy.Proofs.EvalDen
/-
C01 — rule expressions decide exactly as the documented Boolean language says.
Property theorems only; helper lemmas live in `Proofs/`.
-/
namespace OsloPolicy.C01
open OsloPolicy

/-- Every sentence of the documented grammar is accepted, and the parser builds `build e`. -/
theorem parse_complete (e : E 0) : parseToks e.render = some (build e) :=
  parseToks_render e

/-- The tree the parser builds denotes the sentence's Boolean value with precedence
`() > not > and > or`, for every valuation of the leaves. -/
theorem parse_denotes (e : E 0) (ρ : Str → Str → Bool) :
    ∃ t, parseToks e.render = some t ∧ t.den ρ = e.den ρ :=
  ⟨build e, parseToks_render e, build_den ρ e⟩

/-- … and the evaluator (short-circuiting, exception-propagating) returns exactly that
value whenever the leaves return decisions. -/
theorem decision (e : E 0) (ρ leaf ref) (h : valOf ρ leaf ref) :
    ∃ t, parseToks e.render = some t ∧ evalTree leaf ref t = .ret (e.den ρ) :=
  ⟨build e, parseToks_render e, by rw [evalTree_den ρ leaf ref h, build_den]⟩

/-- Redundant parentheses never change a decision. -/
theorem parens (e : E 0) (ρ leaf ref) (h : valOf ρ leaf ref) :
    ∃ t t', parseToks e.render = some t ∧
      parseToks (E.up0 (.up1 (.paren e))).render = some t' ∧
      evalTree leaf ref t = evalTree leaf ref t' := by
  refine ⟨build e, build (.up0 (.up1 (.paren e))), parseToks_render e, parseToks_render _, ?_⟩
  rw [evalTree_den ρ leaf ref h, evalTree_den ρ leaf ref h, build_den, build_den]
  simp [E.den]

/-- `@`, the empty string and the empty list always allow; `!` always denies. -/
theorem constants (leaf ref) :
    evalTree leaf ref (parseText []) = .ret true ∧
    evalTree leaf ref (parseValue (.arr [] [])) = .ret true ∧
    evalTree leaf ref (parseCheck ['@']) = .ret true ∧
    evalTree leaf ref (parseCheck ['!']) = .ret false := by
  refine ⟨by simp [parseText, evalTree], ?_, ?_, ?_⟩
  · simp [parseValue, parseListRule, listRuleShape, evalTree]
  · simp [parseCheck, evalTree]
  · simp [parseCheck, evalTree]

/-! Non-vacuity: a sentence mixing all operators, `a or b and (c or d) and not e`. -/
example : ∃ e : E 0, e.render.length = 12 :=
  ⟨.or (.up0 (.up1 (.leaf (.chk ['a'] []))))
       (.and (.and (.up1 (.leaf (.chk ['b'] [])))
                   (.paren (.or (.up0 (.up1 (.leaf (.chk ['c'] [])))) (.up1 (.leaf (.chk ['d'] []))))))
             (.not (.leaf (.chk ['e'] [])))), by simp [E.render]⟩

end OsloPolicy.C01
