import OsloPolicy.Proofs.Layers
import OsloPolicy.Proofs.EvalDen
/-
C11 — deprecated-policy merging follows the documented override table.
-/
namespace OsloPolicy.C11
open OsloPolicy

/-- **The table.** For a registered default (its name unique among the registrations), what
the loader installs under its name is `governs`: a new-name override if the files have one;
else an old-name override (renamed case) unless that is the alias `rule:<new name>`; else
the new default, OR-ed with the old default only when `enforce_new_defaults` is off and the
two check strings differ. -/
theorem table (enforceNew : Bool) (regs : List RuleDefault) (fs : FS) (d : RuleDefault)
    (hd : d ∈ regs) (huniq : ∀ d' ∈ regs, d'.name = d.name → d' = d) :
    afind d.name (compute enforceNew regs fs) = some (governs enforceNew (filesRules fs) d) :=
  governs_correct enforceNew regs fs d hd huniq

/-- a new-name override always governs -/
theorem new_override_governs (enforceNew : Bool) (fr : Content) (d : RuleDefault) (v : JVal)
    (h : afind d.name fr = some v) : governs enforceNew fr d = parseValue v := by
  simp [governs, h]

/-- an alias `rule:<new name>` under the old name does not govern -/
theorem alias_does_not_govern (enforceNew : Bool) (fr : Content) (d : RuleDefault) (old : Str) (oldStr v : JVal)
    (hn : afind d.name fr = none) (hdep : d.deprecated = some (old, oldStr)) (hren : old ≠ d.name)
    (hv : afind old fr = some v) (halias : (parseValue v).print = rulePrefix ++ d.name) :
    governs enforceNew fr d =
      if !enforceNew && jvalStrNe oldStr d.checkStr then .or [parseValue d.checkStr, parseValue oldStr]
      else parseValue d.checkStr := by
  simp [governs, hn, hdep, hren, hv, halias]

/-- any other override under the old, renamed name governs -/
theorem old_override_governs (enforceNew : Bool) (fr : Content) (d : RuleDefault) (old : Str) (oldStr v : JVal)
    (hn : afind d.name fr = none) (hdep : d.deprecated = some (old, oldStr)) (hren : old ≠ d.name)
    (hv : afind old fr = some v) (halias : (parseValue v).print ≠ rulePrefix ++ d.name) :
    governs enforceNew fr d = parseValue v := by
  simp [governs, hn, hdep, hren, hv, halias]

/-- with no override: the new default, OR-ed with the old one only when the flag is off and
the check strings differ; and the OR decides as "new or old" -/
theorem no_override (enforceNew : Bool) (fr : Content) (d : RuleDefault) (old : Str) (oldStr : JVal)
    (hn : afind d.name fr = none) (hdep : d.deprecated = some (old, oldStr)) (ho : afind old fr = none) :
    governs enforceNew fr d =
      if !enforceNew && jvalStrNe oldStr d.checkStr then .or [parseValue d.checkStr, parseValue oldStr]
      else parseValue d.checkStr := by
  by_cases h : old = d.name <;> simp [governs, hn, hdep, ho, h]

theorem or_decides (a b : Tree) (ρ : Str → Str → Bool) : (Tree.or [a, b]).den ρ = (a.den ρ || b.den ρ) := by
  simp [Tree.den, denAny]

/-- **Nothing else** about the deprecated rule influences the result: `governs` is a function of
the new name, the two check strings, the old name, the flag and the file rules only (a
`RuleDefault` of the model has no other attributes), and of the file rules only through the
entries under the new and the old name. -/
theorem nothing_else (enforceNew : Bool) (fr fr' : Content) (d : RuleDefault)
    (h1 : afind d.name fr = afind d.name fr')
    (h2 : ∀ old oldStr, d.deprecated = some (old, oldStr) → afind old fr = afind old fr') :
    governs enforceNew fr d = governs enforceNew fr' d := by
  unfold governs
  rw [h1]
  cases hd : d.deprecated with
  | none => rfl
  | some p => obtain ⟨old, oldStr⟩ := p; simp only []; rw [h2 old oldStr hd]

end OsloPolicy.C11
