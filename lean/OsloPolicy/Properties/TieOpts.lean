import OsloPolicy.Model.Tables
import OsloPolicy.Model.Loader
import OsloPolicy.Generated.RepoTables
/-
Obligations tying the option defaults assumed by the models (enforce_scope,
enforce_new_defaults, policy_file, policy_default_rule, policy_dirs, remote_content_type)
to `oslo_policy/opts.py` as it is now.
-/
namespace OsloPolicy.Tie
open OsloPolicy

theorem enforce_scope_default : Generated.optEnforceScope = Tables.optEnforceScope := by decide
theorem enforce_new_defaults_default : Generated.optEnforceNewDefaults = Tables.optEnforceNewDefaults := by decide
theorem policy_file_default : Generated.optPolicyFile = Tables.optPolicyFile := by decide
theorem policy_default_rule_default : Generated.optPolicyDefaultRule = Tables.optPolicyDefaultRule := by decide
theorem policy_dirs_default : Generated.optPolicyDirs = Tables.optPolicyDirs := by decide
theorem remote_content_type_default : Generated.optRemoteContentType = Tables.optRemoteContentType := by decide
/-- the model's fallback logic is keyed on the same default file name -/
theorem policy_yaml_is_default : policyYaml = Tables.optPolicyFile.toList := by decide

end OsloPolicy.Tie
