import OsloPolicy.Model.Eval
/-
C04 — `role:X` passes exactly when the credentials hold role X, ignoring case.
"Ignoring case" is equality under `lower`, a parameter standing for Python's `str.lower`;
the theorem holds for every such function.
-/
namespace OsloPolicy.C04
open OsloPolicy

/-- `roles` is a list of strings (the property's premise on credentials). -/
def RolesAreStrings (rs : List JVal) : Prop := ∀ r ∈ rs, ∃ s, r = .str s

theorem all_str_of (rs : List JVal) (h : RolesAreStrings rs) : rs.all JVal.isStr = true := by
  simp only [List.all_eq_true]
  intro r hr
  obtain ⟨s, rfl⟩ := h r hr
  rfl

/-- The check allows iff the substituted X equals, under `lower`, one of the role names. -/
theorem allow_iff (env : Env) (tgt : List (Str × JVal)) (creds : JVal) (m : Str)
    (rs : List JVal) (tx : Str) (hroles : creds.get rolesKey = some (.arr rs tx))
    (hstr : RolesAreStrings rs) :
    roleCheck env tgt creds m = .ret true ↔
      ∃ x, subst tgt m = .ok x ∧ ∃ s, JVal.str s ∈ rs ∧ env.lower s = env.lower x := by
  unfold roleCheck
  cases hs : subst tgt m with
  | keyError => simp
  | unsupported => simp
  | ok x =>
    simp only [hroles, all_str_of rs hstr, ↓reduceIte, Outcome.ret.injEq, List.any_eq_true,
      SubstResult.ok.injEq, exists_eq_left']
    constructor
    · rintro ⟨r, hr, h⟩
      obtain ⟨s, rfl⟩ := hstr r hr
      exact ⟨s, hr, by simpa [roleMatches] using h⟩
    · rintro ⟨s, hs', h⟩
      exact ⟨.str s, hs', by simpa [roleMatches] using h⟩

/-- It never raises on such credentials when the placeholders are well formed. -/
theorem decides (env : Env) (tgt) (creds : JVal) (m : Str)
    (rs : List JVal) (tx : Str) (hroles : creds.get rolesKey = some (.arr rs tx))
    (hstr : RolesAreStrings rs) (hwf : subst tgt m ≠ .unsupported) :
    ∃ b, roleCheck env tgt creds m = .ret b := by
  unfold roleCheck
  cases hs : subst tgt m with
  | keyError => exact ⟨false, rfl⟩
  | unsupported => exact absurd hs hwf
  | ok x => simp only [hroles, all_str_of rs hstr]; simp

/-- If the target lacks a referenced key, it denies. -/
theorem missing_key_denies (env : Env) (tgt) (creds : JVal) (m : Str)
    (h : subst tgt m = .keyError) : roleCheck env tgt creds m = .ret false := by
  simp [roleCheck, h]

/-- If the credentials carry no role list, it denies. -/
theorem no_roles_denies (env : Env) (tgt) (creds : JVal) (m : Str)
    (hwf : subst tgt m ≠ .unsupported)
    (h : creds.get rolesKey = none) : roleCheck env tgt creds m = .ret false := by
  unfold roleCheck
  cases hs : subst tgt m with
  | keyError => rfl
  | unsupported => exact absurd hs hwf
  | ok x => simp [h]

/-- An empty role list denies. -/
theorem empty_roles_deny (env : Env) (tgt) (creds : JVal) (m : Str) (tx : Str)
    (hwf : subst tgt m ≠ .unsupported)
    (h : creds.get rolesKey = some (.arr [] tx)) : roleCheck env tgt creds m = .ret false := by
  unfold roleCheck
  cases hs : subst tgt m with
  | keyError => rfl
  | unsupported => exact absurd hs hwf
  | ok x => simp [h]

/-! Non-vacuity: placeholder form, `role:%(r)s` against target `{r: Admin}` and roles `[admin]`
under a lower-casing that identifies them. -/
example : roleCheck ⟨fun s => s.map Char.toLower, fun _ => none, fun _ _ _ => .ret false⟩
    [(['r'], .str "Admin".toList)] (.obj [(rolesKey, .arr [.str "admin".toList] [])] [])
    "%(r)s".toList = .ret true := by
  simp [roleCheck, subst, takeKey, afind, JVal.get, JVal.pyStr, JVal.isStr, roleMatches]

end OsloPolicy.C04
