import OsloPolicy.Model.External
import OsloPolicy.Proofs.RoundTrip
/-
C16 — a remote http(s) check allows only on an explicit `True` from the server.
-/
namespace OsloPolicy.C16
open OsloPolicy

theorem dropWhile_split (c : Char) (l : Str) :
    ∃ i, l = List.replicate i c ++ l.dropWhile (· = c) := by
  induction l with
  | nil => exact ⟨0, rfl⟩
  | cons a r ih =>
    rw [List.dropWhile_cons]
    by_cases h : a = c
    · subst h
      obtain ⟨i, hi⟩ := ih
      refine ⟨i + 1, ?_⟩
      simp only [decide_true, ↓reduceIte, List.replicate_succ, List.cons_append]
      rw [← hi]
    · exact ⟨0, by simp [h]⟩

theorem rstrip_split (c : Char) (s : Str) : ∃ j, s = rstripChar c s ++ List.replicate j c := by
  obtain ⟨j, hj⟩ := dropWhile_split c s.reverse
  refine ⟨j, ?_⟩
  have := congrArg List.reverse hj
  rw [List.reverse_reverse, List.reverse_append, List.reverse_replicate] at this
  exact this

/-- **Only an explicit `True`.** The reply allows iff its body is `True` surrounded by any
number of double quotes on either side — for every string. -/
theorem true_iff (body : Str) :
    replyAllows body = true ↔
      ∃ i j, body = List.replicate i '"' ++ "True".toList ++ List.replicate j '"' := by
  unfold replyAllows lstripChar
  constructor
  · intro h
    have h' : rstripChar '"' (body.dropWhile (· = '"')) = "True".toList := by simpa using h
    obtain ⟨i, hi⟩ := dropWhile_split '"' body
    obtain ⟨j, hj⟩ := rstrip_split '"' (body.dropWhile (· = '"'))
    refine ⟨i, j, ?_⟩
    rw [h'] at hj
    rw [List.append_assoc, ← hj, ← hi]
  · rintro ⟨i, j, rfl⟩
    rw [List.append_assoc, dropWhile_replicate_append i '"' _ (by simp),
      rstripChar_append_replicate j '"' _ (by simp)]
    simp

/-- any other body denies: in particular `true`, `TRUE`, ` True`, JSON `true`, the empty body -/
example : replyAllows "true".toList = false ∧ replyAllows "TRUE".toList = false ∧
    replyAllows " True".toList = false ∧ replyAllows "True\n".toList = false ∧
    replyAllows [] = false ∧ replyAllows "\"True\"".toList = true ∧ replyAllows "True".toList = true := by
  decide

/-- The HTTP status code plays no role. -/
theorem status_irrelevant (body : Str) (s₁ s₂ : Nat) :
    httpDecision (.reply body s₁) = httpDecision (.reply body s₂) := rfl

/-- **Faults never allow**: a timeout raises `RuntimeError`, any other transport failure
propagates, a missing/unreadable TLS file raises before anything is sent. -/
theorem faults_never_allow (tls : TlsFiles) :
    httpDecision .timeout = .raise .runtimeError ∧ httpDecision .transportError = .raise .transport ∧
    (¬ (tls.certOk && tls.keyOk && tls.caOk) = true → ∀ p, httpsDecision tls p = .raise .runtimeError) := by
  refine ⟨rfl, rfl, ?_⟩
  intro h p
  simp only [httpsDecision]
  split
  · next hc => exact absurd hc h
  · rfl

theorem allow_needs_reply (p : PostResult) (h : httpDecision p = .ret true) :
    ∃ body st, p = .reply body st ∧ replyAllows body = true := by
  cases p with
  | reply b s => exact ⟨b, s, rfl, by simpa [httpDecision] using h⟩
  | timeout => simp [httpDecision] at h
  | transportError => simp [httpDecision] at h

/-- **The request.** If something is sent, it goes to the rule's URL with placeholders filled
from the target, and carries the enforced policy name, the complete target (same keys, same
values except bare `object()`s) and the credentials, in the configured encoding. -/
theorem payload (isObj : JVal → Bool) (form : Bool) (tls : TlsFiles) (post) (tgt : List (Str × JVal))
    (creds : JVal) (cur : Option Str) (k m : Str) (url : Str) (pl : Payload) (o : Outcome)
    (h : remoteCheck isObj form tls post tgt creds cur k m = (o, some (url, pl))) :
    subst tgt (k ++ ':' :: m) = .ok url ∧ pl.rule = cur ∧ pl.credentials = creds ∧ pl.formEncoded = form ∧
    pl.target.map (·.1) = tgt.map (·.1) ∧
    (∀ p ∈ tgt, isObj p.2 = false → p ∈ pl.target) ∧ o = httpDecision (post url pl) := by
  unfold remoteCheck at h
  cases hs : subst tgt (k ++ ':' :: m) with
  | keyError => simp [hs] at h
  | unsupported => simp [hs] at h
  | ok u =>
    simp only [hs] at h
    have key : ∀ (pl' : Payload), pl' = constructPayload isObj form cur tgt creds →
        pl'.rule = cur ∧ pl'.credentials = creds ∧ pl'.formEncoded = form ∧
        pl'.target.map (·.1) = tgt.map (·.1) ∧ (∀ p ∈ tgt, isObj p.2 = false → p ∈ pl'.target) := by
      intro pl' hp
      subst hp
      refine ⟨rfl, rfl, rfl, ?_, ?_⟩
      · simp only [constructPayload, blankObjects, List.map_map]
        apply List.map_congr_left
        intro p _
        simp only [Function.comp]
        split <;> rfl
      · intro p hp hno
        simp only [constructPayload, blankObjects, List.mem_map]
        exact ⟨p, hp, by simp [hno]⟩
    split at h
    · split at h
      · simp only [Prod.mk.injEq, Option.some.injEq] at h
        obtain ⟨ho, hu, hp⟩ := h
        obtain ⟨a, b, c, d, e⟩ := key pl hp.symm
        exact ⟨by rw [hu], a, b, c, d, e, by rw [← ho, hu, hp]⟩
      · simp at h
    · simp only [Prod.mk.injEq, Option.some.injEq] at h
      obtain ⟨ho, hu, hp⟩ := h
      obtain ⟨a, b, c, d, e⟩ := key pl hp.symm
      exact ⟨by rw [hu], a, b, c, d, e, by rw [← ho, hu, hp]⟩

end OsloPolicy.C16
