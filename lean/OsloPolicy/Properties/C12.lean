import OsloPolicy.Proofs.Loader
/-
C12 — loading is idempotent and never mutates what the service registered.
(The non-mutation half is about Python object aliasing / `copy.deepcopy`; in the model
values are immutable, and the correspondence run shares real `RuleDefault` objects among
several real enforcers while the model runs independent pure instances.)
-/
namespace OsloPolicy.C12
open OsloPolicy

/-- Loading again — plain or forced, after a plain or forced load — without a file change
in between yields the same rule store (state equality, so a merged deprecated `OrCheck`
cannot grow). -/
theorem load_twice (enforceNew : Bool) (regs : List RuleDefault) (w : World)
    (h : Inv enforceNew regs w) (f1 f2 : Bool) :
    (load enforceNew regs (load enforceNew regs w.enf w.fs f1) w.fs f2).rules =
      (load enforceNew regs w.enf w.fs f1).rules :=
  load_idem enforceNew regs w h f1 f2

/-- Any number of further loads (each plain or forced) yields the same store as one. -/
theorem load_many (enforceNew : Bool) (regs : List RuleDefault) (w : World)
    (h : Inv enforceNew regs w) (f : Bool) (fs : List Bool) :
    let w1 : World := { w with enf := load enforceNew regs w.enf w.fs f }
    (fs.foldl (fun (w' : World) f' => { w' with enf := load enforceNew regs w'.enf w'.fs f' }) w1).enf.rules
      = w1.enf.rules := by
  intro w1
  have hstep : ∀ (w' : World) (f' : Bool), Inv enforceNew regs w' →
      Inv enforceNew regs { w' with enf := load enforceNew regs w'.enf w'.fs f' } := by
    intro w' f' hw'
    cases f'
    · exact Inv_step enforceNew regs w' .load hw'
    · exact Inv_step enforceNew regs w' .loadForce hw'
  have h1 : Inv enforceNew regs w1 := hstep w f h
  -- generalise: from any state reached by a load, further loads keep the rules
  suffices H : ∀ (l : List Bool) (w0 : World) (f0 : Bool), Inv enforceNew regs w0 →
      (l.foldl (fun (w' : World) f' => { w' with enf := load enforceNew regs w'.enf w'.fs f' })
        { w0 with enf := load enforceNew regs w0.enf w0.fs f0 }).enf.rules
        = (load enforceNew regs w0.enf w0.fs f0).rules from H fs w f h
  intro l
  induction l with
  | nil => intro w0 f0 _; rfl
  | cons f' l ih =>
    intro w0 f0 hw0
    simp only [List.foldl_cons]
    have hw1 := hstep w0 f0 hw0
    have := ih { w0 with enf := load enforceNew regs w0.enf w0.fs f0 } f' hw1
    simp only at this
    rw [this]
    exact load_idem enforceNew regs w0 hw0 f0 f'

/-- Merging the registered defaults is idempotent. -/
theorem merge_idempotent (enforceNew : Bool) (fr : Content) (regs : List RuleDefault) (rules : Store) :
    mergeDefaults enforceNew fr regs (mergeDefaults enforceNew fr regs rules) =
      mergeDefaults enforceNew fr regs rules :=
  mergeDefaults_idem enforceNew fr regs rules

end OsloPolicy.C12
