import OsloPolicy.Properties.C10
namespace OsloPolicy.C10
open OsloPolicy

/-- **A deleted policy file leaves no trace, however often it came and went.**  After *any*
history (the file written, loaded, deleted, re-created with other content, loaded again, …)
that ends with the main file being deleted, the next load yields exactly the rules computed
from the policy directories and the registered defaults alone — no content the file ever had
takes part.  (Statement broken by seeded change C10-A7, where a second disappearance kept the
overrides of the re-created file.) -/
theorem deleted_main_leaves_no_trace (enforceNew : Bool) (regs : List RuleDefault) (fs0 : FS)
    (clock0 : Nat) (hst : FS.Stamped fs0 clock0) (ops : List Op) :
    let w := (ops ++ [Op.delete .main]).foldl (step enforceNew regs) ⟨fs0, Enf.init fs0.dirs.length, clock0⟩
    (load enforceNew regs w.enf w.fs false).rules =
      mergeDefaults enforceNew ((dirLayers w.fs.dirs).foldl updFileRules []) regs
        ((dirLayers w.fs.dirs).foldl updStore []) := by
  intro w
  have hinv : Inv enforceNew regs w :=
    Inv_history _ _ (ops ++ [Op.delete .main]) _ (Inv_init _ _ fs0 clock0 hst)
  apply vanished_main enforceNew regs w hinv
  simp [w, List.foldl_append, step, fsStep]

/-- … and the directories it is computed from are those of the history without the deletion:
deleting the main file touches nothing else. -/
theorem delete_main_keeps_dirs (enforceNew : Bool) (regs : List RuleDefault) (w : World) :
    (step enforceNew regs w (Op.delete .main)).fs.dirs = w.fs.dirs := by
  simp [step, fsStep]

end OsloPolicy.C10
