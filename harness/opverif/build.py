"""Regenerate tables, build the Lean project, audit the theorems of one property."""
import fcntl
import hashlib
import json
import os
import re
import subprocess
import time

from . import driver, tables

LEAN = os.path.join(driver.ROOT, 'lean')
ALLOWED_AXIOMS = {'propext', 'Classical.choice', 'Quot.sound'}
FORBIDDEN = re.compile(r'\bsorry\b|\badmit\b|^axiom\s|\bnative_decide\b|\bbv_decide\b|'
                       r'\bimplemented_by\b|\bunsafe\s|maxHeartbeats\s+0\b', re.M)


class ToolFailure(Exception):
    """The verification tooling itself failed (exit 2, never a VIOLATION)."""


def registry():
    with open(os.path.join(LEAN, 'theorems.json')) as fh:
        return json.load(fh)


def _run(cmd, timeout=3600):
    p = subprocess.run(cmd, cwd=LEAN, stdout=subprocess.PIPE, stderr=subprocess.STDOUT,
                       timeout=timeout)
    return p.returncode, p.stdout.decode('utf-8', 'replace')


def strip_comments(src):
    # remove /- ... -/ (nested) and -- line comments
    out, i, depth = [], 0, 0
    while i < len(src):
        if src.startswith('/-', i):
            depth += 1
            i += 2
        elif depth and src.startswith('-/', i):
            depth -= 1
            i += 2
        elif depth:
            i += 1
        elif src.startswith('--', i):
            j = src.find('\n', i)
            i = len(src) if j < 0 else j
        else:
            out.append(src[i])
            i += 1
    return ''.join(out)


def lean_sources():
    res = []
    for base, dirs, files in os.walk(LEAN):
        dirs[:] = [d for d in dirs if d != '.lake']
        for f in sorted(files):
            if f.endswith('.lean') and not f.startswith('Audit_'):
                res.append(os.path.join(base, f))
    return sorted(res)


def grep_forbidden():
    hits = []
    for p in lean_sources():
        with open(p, encoding='utf-8') as fh:
            src = strip_comments(fh.read())
        for m in FORBIDDEN.finditer(src):
            hits.append('%s: %s' % (os.path.relpath(p, LEAN), m.group(0).strip()))
    return hits


def sources_hash():
    h = hashlib.sha256()
    for p in lean_sources():
        h.update(p.encode())
        with open(p, 'rb') as fh:
            h.update(fh.read())
    return h.hexdigest()


def prepare(prop, thorough=False):
    """Returns a dict describing the proof obligations of `prop`:
       {'obligations': [...], 'broken': [...names...], 'axioms': {thm: [...]}, 'log': str}"""
    reg = registry()[prop]
    os.makedirs(os.path.join(LEAN, '.lake'), exist_ok=True)
    lock = open(os.path.join(driver.ROOT, '.build.lock'), 'w')
    fcntl.flock(lock, fcntl.LOCK_EX)
    try:
        t0 = time.time()
        tables.regenerate()
        rc, log = _run(['lake', 'build', 'opdriver'])
        if rc != 0:
            raise ToolFailure('lake build opdriver failed:\n' + log[-3000:])
        mods = list(reg.get('modules', []))
        rc, log = _run(['lake', 'build'] + mods)
        if rc != 0:
            raise ToolFailure('lake build %s failed:\n%s' % (' '.join(mods), log[-3000:]))
        obligations, broken, detail = [], [], {}
        # tie obligations: modules whose theorems compare Generated/*.lean with the model
        for tie in reg.get('ties', []):
            name = 'tie:' + tie
            obligations.append(name)
            rc, log = _run(['lake', 'build', tie])
            if rc != 0:
                broken.append(name)
                detail[name] = log[-1500:]
        # forbidden constructs anywhere in the Lean sources
        obligations.append('no-sorry-no-custom-axioms')
        hits = grep_forbidden()
        if hits:
            broken.append('no-sorry-no-custom-axioms')
            detail['no-sorry-no-custom-axioms'] = '; '.join(hits[:20])
        # axioms of every registered theorem
        axioms = audit(prop, reg)
        for thm in reg.get('theorems', []):
            obligations.append(thm)
            ax = axioms.get(thm)
            if ax is None:
                broken.append(thm)
                detail[thm] = 'theorem not found / does not check'
            elif not set(ax) <= ALLOWED_AXIOMS:
                broken.append(thm)
                detail[thm] = 'axioms: %s' % ax
        if thorough:
            obligations.append('leanchecker')
            rc, log = _run(['lake', 'env', 'leanchecker'] + mods, timeout=7200)
            if rc != 0:
                broken.append('leanchecker')
                detail['leanchecker'] = log[-1500:]
        return {'obligations': obligations, 'broken': broken, 'detail': detail,
                'axioms': axioms, 'wall_s': round(time.time() - t0, 2)}
    finally:
        fcntl.flock(lock, fcntl.LOCK_UN)
        lock.close()


def audit(prop, reg):
    thms = reg.get('theorems', [])
    if not thms:
        return {}
    cache_path = os.path.join(LEAN, '.lake', 'audit_cache.json')
    key = sources_hash() + '|' + ','.join(thms)
    try:
        with open(cache_path) as fh:
            cache = json.load(fh)
    except Exception:
        cache = {}
    if cache.get(prop, {}).get('key') == key:
        return cache[prop]['axioms']
    src = ''.join('import %s\n' % m for m in reg['modules'])
    src += ''.join('#print axioms %s\n' % t for t in thms)
    path = os.path.join(LEAN, 'Audit_%s.lean' % prop)
    with open(path, 'w') as fh:
        fh.write(src)
    try:
        rc, log = _run(['lake', 'env', 'lean', os.path.basename(path)])
    finally:
        os.unlink(path)
    axioms = {}
    for m in re.finditer(r"'([^']+)' depends on axioms: \[([^\]]*)\]", log):
        axioms[m.group(1)] = [a.strip() for a in m.group(2).replace('\n', ' ').split(',') if a.strip()]
    for m in re.finditer(r"'([^']+)' does not depend on any axioms", log):
        axioms[m.group(1)] = []
    cache[prop] = {'key': key, 'axioms': axioms}
    with open(cache_path, 'w') as fh:
        json.dump(cache, fh)
    return axioms
