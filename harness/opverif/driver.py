"""Talk to the compiled Lean driver (lean/.lake/build/bin/opdriver) in batches."""
import json
import os
import subprocess

ROOT = os.path.dirname(os.path.dirname(os.path.dirname(os.path.abspath(__file__))))
DRIVER = os.path.join(ROOT, 'lean', '.lake', 'build', 'bin', 'opdriver')


class DriverError(Exception):
    pass


def enc(v):
    """Encode a Python value for the model (see Driver.lean `toJVal`)."""
    if v is None or isinstance(v, bool) or isinstance(v, str):
        return v
    if isinstance(v, int):
        return v
    if isinstance(v, (list, tuple)):
        return {'a': [enc(x) for x in v], 't': str(v)}
    if isinstance(v, dict):
        return {'o': [[k, enc(x)] for k, x in v.items()], 't': str(v)}
    return {'x': str(v), 'b': bool(v)}


def call(requests, chunk=20000):
    """Send request dicts, return answer dicts (same order)."""
    out = []
    for i in range(0, len(requests), chunk):
        part = requests[i:i + chunk]
        data = '\n'.join(json.dumps(r, ensure_ascii=False) for r in part) + '\n'
        p = subprocess.run([DRIVER], input=data.encode('utf-8', 'surrogatepass'),
                           stdout=subprocess.PIPE, stderr=subprocess.PIPE)
        if p.returncode != 0:
            raise DriverError('driver exit %d: %s' % (p.returncode, p.stderr[-2000:]))
        lines = p.stdout.decode('utf-8', 'replace').splitlines()
        if len(lines) != len(part):
            raise DriverError('driver answered %d lines for %d requests' % (len(lines), len(part)))
        for ln, rq in zip(lines, part):
            a = json.loads(ln)
            if 'error' in a:
                raise DriverError('driver error %r on %r' % (a['error'], rq))
            out.append(a)
    return out
