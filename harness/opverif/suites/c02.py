"""C02 — malformed rules and non-rule values never grant access."""
import itertools
import json

import yaml
from oslo_policy import policy

from .. import driver, gen, impl
from . import common
from .c01 import ALPHA, _seq_tokens

META = {
    'assumptions': [
        "yaml.safe_load / jsonutils.loads produce the Python values the rule values are drawn from (library behaviour)",
    ],
}

CREDS = [{}, {'roles': []}, {'roles': list(gen.ROLES)},
         {'roles': list(gen.ROLES) + ['admin'], 'is_admin': True, 'user_id': 'u', 'project_id': 'p', 'k3': 'tv'}]
TARGETS = [{}, {'k0': 'v0', 'k1': 'v1', 'k2': 'True', 'k3': 'tv', 'user_id': 'u', 'project_id': 'p'}]

ONE_TOKEN = ["@ '", "' @", "(@ ')", 'role:r0 "', "role:r0 and ' role:r1", "not '", '" or @', "@ and ' and @", "not ''", 'not ""', "'' or role:r0", 'role:r0 and not ""', "not ('' and @)", 'not ("")', "@ or ''", 'not', 'NOT', 'and', 'And', 'or', 'OR', '(', ')', '((', '))', '()', '"foo"', "'foo'", '""', "''",
             '"role:r0"', "'role:r0'", 'foo', 'role', 'r0', 'True', 'admin_required', '%(k0)s', '@@', '!!', '@!',
             '"', "'", '(role:r0', 'role:r0)', ')role:r0(', 'not)', '(not', '(and)', '("role:r0")', "('a':'b')"]

PRINTABLE = ''.join(chr(c) for c in range(32, 127))
UNI = 'éßΩжñ中  　\t\n'

NON_RULE_VALUES = [None, True, False, 0, 1, -1, 7, 1.5, 0.0, {}, {'role:r0': 1}, {'role:r0': 'role:r0'},
                   {'@': '@'}, [None], [0], [1], [True], [False], [{}], [{'role:r0': 1}], [None, 'role:r0'],
                   [0, 'role:r0'], ['role:r0', None], ['role:r0', 1], [['role:r0', 1]], [['role:r0', None]],
                   [['role:r0'], 5], [[['role:r0']]], [['role:r0', ['role:r1']]], [{'a': 'b'}, 'role:r0'],
                   [[{'a': 'b'}]], [1.5], [[1.5]], [[True]], ['@', None], [['@'], None], [None, '@'], [[], None]]


def shaped(v):
    if isinstance(v, str):
        return True
    if not isinstance(v, list):
        return False
    for x in v:
        if isinstance(x, str):
            continue
        if isinstance(x, list) and all(isinstance(y, str) for y in x):
            continue
        return False
    return True


def denies_everywhere(enf, name='p'):
    res = []
    for c in CREDS:
        for t in TARGETS:
            res.append(enf.decide(name, dict(t), dict(c)))
    return res


def run(ctx, rep):
    enf = impl.Enf()
    texts = []      # (kind, text)
    L = ctx.bound(5, 7)
    n_seq = 0
    for n in range(1, L + 1):
        for seq in itertools.product(ALPHA, repeat=n):
            toks = _seq_tokens(seq)
            if gen.recognise(toks) is None:
                texts.append(('seq', gen.layout(ctx.rng, toks, plain=(ctx.rng.random() < 0.5))))
                n_seq += 1
    rep.rules.append('all %d token sequences of length<=%d that the grammar rejects (incl. every one-token rule)' % (n_seq, L))
    for t in ONE_TOKEN:
        texts.append(('one', t))
    n_soup = ctx.n(1500, 60000)
    for _ in range(n_soup):
        n = ctx.rng.randint(1, 24)
        alpha = PRINTABLE + (UNI if ctx.rng.random() < 0.3 else '') + '   ()()\'":@!'
        texts.append(('soup', ''.join(ctx.rng.choice(alpha) for _ in range(n))))
    # corruptions of valid rules
    pool = common.leaf_pool()
    n_cor = ctx.n(1500, 60000)
    extra_tok = [('(',), (')',), ('and',), ('or',), ('not',), ('check', '"q"'), ('check', "'q'"), ('check', 'foo'),
                 ('check', 'role:r5'), ('check', '""'), ('check', "''"), ('check', '"role:r0"'), ('check', "'@'"),
                 ('check', "'"), ('check', '"'), ('check', "'"), ('check', '"'), ('check', "'x"), ('check', 'x"')]
    for _ in range(n_cor):
        e = gen.gen_e0(ctx.rng, ctx.rng.choice([1, 2, 3]), lambda r: r.choice(pool))
        toks = gen.render(e)
        for _ in range(ctx.rng.choice([1, 1, 2])):
            op = ctx.rng.choice(['del', 'ins', 'rep', 'swap'])
            i = ctx.rng.randrange(len(toks)) if toks else 0
            if op == 'del' and toks:
                toks = toks[:i] + toks[i + 1:]
            elif op == 'ins':
                toks = toks[:i] + [ctx.rng.choice(extra_tok)] + toks[i:]
            elif op == 'rep' and toks:
                toks = toks[:i] + [ctx.rng.choice(extra_tok)] + toks[i + 1:]
            elif op == 'swap' and len(toks) > 1:
                j = ctx.rng.randrange(len(toks))
                toks = list(toks)
                toks[i], toks[j] = toks[j], toks[i]
        if toks:
            texts.append(('corrupt', gen.layout(ctx.rng, toks)))
    rep.rules.append('%d random ASCII/Unicode strings, %d token-level corruptions (delete/insert/replace/swap, '
                     'unbalanced parentheses, quoted strings) of valid rules, %d one-token rules; the model lexer + an '
                     'independent recogniser decide whether a text is a sentence; non-sentences must deny for %d '
                     'credential/target combinations' % (n_soup, n_cor, len(ONE_TOKEN), len(CREDS) * len(TARGETS)))
    # model: lex + parse
    reqs = []
    for _, t in texts:
        reqs.append({'op': 'lex', 's': t})
        reqs.append({'op': 'parse', 'v': t})
    ans = driver.call(reqs)
    seen = set()
    for i, (kind, text) in enumerate(texts):
        lex, par = ans[2 * i], ans[2 * i + 1]
        toks = [(k, v) if k in ('check', 'string') else (k,) for k, v in lex['toks']]
        sentence = all(t[0] != 'string' for t in toks) and gen.recognise([('check', t[1]) if t[0] == 'check' else t for t in toks]) is not None
        ip = impl.parse_str(text)
        rep.stat('kind:' + kind)
        if ip != par['tree']:
            rep.disagree('parse', {'text': text}, par['tree'], ip)
        if ip.startswith('raise:') or ip.startswith('bogus:'):
            rep.fail('load:' + text, 'loading rule text %r gives %s, not an evaluable check' % (text, ip), {'text': text})
            continue
        if text == '' or sentence:
            rep.stat('sentence')
            rep.case()
            continue
        rep.stat('non_sentence')
        enf.set_rules({'p': text})
        decs = denies_everywhere(enf)
        bad = [d for d in decs if d != 'deny']
        if bad:
            rep.fail('malformed:' + text, 'malformed rule %r (printed %s) does not deny everywhere: %s'
                     % (text, ip, sorted(set(bad))), {'text': text, 'decisions': decs})
        rep.case(key=text, nontrivial=text not in seen, n=len(decs),
                 sample={'text': text, 'printed': ip} if kind != 'seq' else None)
        seen.add(text)
    _values(ctx, rep, enf)
    _leaves(ctx, rep, enf)
    _history_independent(ctx, rep)


def _values(ctx, rep, enf):
    vals = list(NON_RULE_VALUES)
    # non-rule values inside otherwise valid list-of-lists rules
    for bad in [None, 0, 1, True, 2.5, {}, {'role:r0': 1}, [['role:r0']]]:
        vals.append([['role:r0'], bad])
        vals.append([bad, ['role:r0']])
        vals.append([['role:r0', bad]])
        vals.append(['role:r0', ['role:r1', bad]])
    vals += ['', [], '@', ['@'], [['@']], [[]], [[], []], ['role:r0'], [['role:r0', 'role:r1'], 'role:r2'], ['']]
    # AND-groups holding a member that is not a check (empty string, colon-less word): such a group can never hold
    dead = [[['']], [['', '@']], [['@', '']], [[''], ['']], [['foo', '@']], [['@'], ['']][1:], [['', 'role:r0']], [['role:r0', '']],
            [[' ']], [['@', 'admin']], ['', ['']], [['', '']]]
    vals += dead
    reqs = [{'op': 'parse', 'v': driver.enc(v)} for v in vals]
    ans = driver.call(reqs)
    rep.rules.append('%d rule values of every JSON/YAML type alone and inside list-of-lists rules, through parse_rule, '
                     'Rules.from_dict, Rules.load(JSON) and Rules.load(YAML)' % len(vals))
    for v, a in zip(vals, ans):
        ip = impl.parse_str(v)
        if ip != a['tree']:
            rep.disagree('parse-value', {'value': v}, a['tree'], ip)
        loaders = {'from_dict': lambda v=v: policy.Rules.from_dict({'p': v}, 'default')}
        try:
            doc_j = json.dumps({'p': v})
            loaders['load_json'] = lambda d=doc_j: policy.Rules.load(d, 'default')
        except Exception:
            pass
        try:
            doc_y = yaml.safe_dump({'p': v})
            if not doc_y.lstrip().startswith('{'):
                loaders['load_yaml'] = lambda d=doc_y: policy.Rules.load(d, 'default')
        except Exception:
            pass
        for lname, ld in sorted(loaders.items()):
            rep.stat('loader:' + lname)
            try:
                rules = ld()
            except Exception as e:   # rejected at load: acceptable for non-rule values only
                if shaped(v):
                    rep.fail('load:%r' % (v,), '%s fails on the well-shaped rule value %r: %s' % (lname, v, type(e).__name__),
                             {'value': v, 'loader': lname})
                rep.case(key='%s:%r' % (lname, v), nontrivial=True)
                continue
            if not isinstance(rules.get('p'), policy._checks.BaseCheck):
                rep.fail('load:%r' % (v,), '%s of %r yields %r, not a check' % (lname, v, rules.get('p')),
                         {'value': v, 'loader': lname})
                continue
            enf.e.set_rules(rules, use_conf=False)
            decs = denies_everywhere(enf)
            if not shaped(v):
                bad = [d for d in decs if d != 'deny']
                if bad:
                    rep.fail('value:%r' % (v,), 'non-rule value %r loaded by %s (printed %s) does not deny everywhere: %s'
                             % (v, lname, str(rules['p']), sorted(set(bad))), {'value': v, 'loader': lname})
            elif v in ('', [], '@', ['@'], [['@']]):
                if any(d != 'allow' for d in decs):
                    rep.fail('value:%r' % (v,), 'always-allow value %r does not allow' % (v,), {'value': v})
            elif v in dead:
                bad = [d for d in decs if d != 'deny']
                if bad:
                    rep.fail('value:%r' % (v,), 'list rule %r, every group of which holds a member that is not a check, loaded by %s '
                             '(printed %s) does not deny everywhere: %s' % (v, lname, str(rules['p']), sorted(set(bad))),
                             {'value': v, 'loader': lname})
            rep.case(key='%s:%r' % (lname, v), nontrivial=True, n=len(decs),
                     sample={'value': v, 'loader': lname, 'printed': str(rules['p'])} if lname == 'load_yaml' else None)


def _leaves(ctx, rep, enf):
    """A single check that is not of the form kind:match behaves as `!`."""
    words = ['foo', 'role', 'admin', 'True', '1', '%(k0)s', 'is_admin', 'r0', 'none', 'None', 'a.b.c', '[]', '{}', '*']
    for _ in range(ctx.n(200, 5000)):
        n = ctx.rng.randint(1, 10)
        w = ''.join(ctx.rng.choice('abcXYZ019_.-%$*[]{}=+/\\éΩ') for _ in range(n))
        words.append(w)
    rep.rules.append('%d colon-free single checks, as text and as a list-of-lists entry' % len(words))
    for w in words:
        for v in (w, [[w]], [w]):
            ip = impl.parse_str(v)
            low = w.lower()
            if isinstance(v, str) and low in ('and', 'or', 'not'):
                continue
            if ip != '!':
                rep.fail('leaf:%r' % (v,), 'check %r without a colon parses to %s, not to !' % (v, ip), {'value': v})
            rep.case(key='leaf:%r' % (v,), nontrivial=True)


def _history_independent(ctx, rep):
    """What a rule value parses to does not depend on what the process parsed before: a list rule and the TEXT that spells
    the same list (`[]` / '[]', ['@'] / "['@']" ...) are different rules, in either order (seeded change C02-A7: a parse
    cache keyed on str(rule)). Reference: each value parsed alone in a freshly started interpreter."""
    import json
    import os
    import subprocess
    import sys
    lists = [[], [[]], ['@'], [[], []], [['role:admin'], ['role:member']], [['role:r0', 'role:r1']], ['role:r0'], [['!']],
             [[], ['role:r1']], ['@', '!'], [['@'], []]]
    vals = []
    for L in lists:
        vals += [L, str(L), json.dumps(L)]
    code = ("import sys, json; sys.path.insert(0, %r); from opverif import impl; "
            "print(json.dumps([impl.parse_str(v) for v in json.loads(sys.argv[1])]))" % os.path.dirname(os.path.dirname(
                os.path.dirname(os.path.abspath(__file__)))))
    fresh = {}
    for v in vals:       # one interpreter per value: no history at all
        p = subprocess.run([sys.executable, '-c', code, json.dumps([v])], stdout=subprocess.PIPE, stderr=subprocess.PIPE,
                           env=os.environ)
        if p.returncode != 0:
            raise RuntimeError('fresh-interpreter reference failed: ' + p.stderr.decode()[-300:])
        fresh[repr(v)] = json.loads(p.stdout.decode())[0]
    n = 0
    for i, L in enumerate(lists):
        order = [L, str(L), json.dumps(L), L, str(L)] if i % 2 == 0 else [str(L), json.dumps(L), L, str(L), L]
        for v in order:
            got = impl.parse_str(v)
            if got != fresh[repr(v)]:
                rep.fail('history:%r' % (v,), 'rule value %r parses to %s after the process has parsed %r; alone in a fresh '
                         'interpreter it parses to %s' % (v, got, [x for x in order if x is not v][:2], fresh[repr(v)]),
                         {'value': v, 'order': order})
            n += 1
        rep.case(key='history:%r' % (L,), nontrivial=True, n=len(order))
    rep.rules.append('%d parses of list rules and of the texts that spell the same lists (repr and JSON spelling), in both '
                     'orders, each compared with the same value parsed alone in a fresh interpreter' % n)


def replay(ctx, rep, data):
    run(ctx, rep)
