"""C17 — a generated sample policy file overrides nothing and states every default."""
import io
import json
import os
import textwrap
import warnings

import yaml
from oslo_config import cfg
from oslo_policy import generator, policy

from .. import driver, fsharness, gen

META = {'assumptions': ["textwrap.wrap, str.splitlines and the YAML reading of a double-quoted scalar are library behaviour: the "
                        "model takes wrap/splitlines results as tables computed by the harness (their contracts are hypotheses of "
                        "the theorems and are checked on every generated paragraph)"]}

BREAKS = ['\n', '\r', '\r\n', '\x0b', '\x0c', '\x1c', '\x1d', '\x1e', '\x85', ' ', ' ']
WORDS = ['Create', 'a', 'bar', '#hash', 'key: value', '"quoted"', "'single'", '- item', '%(tmpl)s', 'x' * 90, 'é', '{', '}', '[', ']',
         '|', '>', '&anchor', '*alias', '!tag', '@', '`', '---', '...', '\\', '\\n', 'rule:x', '"p": "@"', '#"p": "@"', 'colon:', ':', '?']
NAME_CH = 'abcxyzABC019_:-./%()@!*[]{}=+,;<>~^|&$# '
LONG = ("(role:admin and system_scope:all) or (role:member and project_id:%(project_id)s and not 'locked':%(status)s) "
        "or rule:admin_or_owner_with_a_rather_long_name")
CHECKS = [LONG, 'rule:context_is_admin or ' + ' or '.join('role:role_number_%d' % i for i in range(9)),
          "'a quite long literal':%(k)s and " + ' and '.join('is_admin:True' for _ in range(8)),
          'role:admin', '', '@', '!', 'rule:admin_or_owner', "role:a and (role:b or not 'x':%(k)s)", 'is_admin:True or project_id:%(project_id)s',
          'http://h/%(x)s', "k:'v' and role:é", 'role:a  or  role:b', '(role:a)',
          'role:admin\tor\trole:b', '"quoted":%(k)s or role:a', "k:'a\\b' or role:a", 'role:a\nor role:b', 
          'role:é or "q":%(k)s', 'role:\u4e16\tor role:~', 'k:\t\tx or role:é']


def text(rng):
    parts = []
    for _ in range(rng.randint(0, 14)):
        r = rng.random()
        if r < 0.55:
            parts.append(rng.choice(WORDS))
            parts.append(rng.choice([' ', ' ', ' ', '  ', '\t']))
        elif r < 0.8:
            parts.append(rng.choice(BREAKS))
            if rng.random() < 0.4:
                parts.append(rng.choice(['  ', '\t', '    ', ' \xa0']))     # literal block / leading whitespace
        else:
            parts.append(rng.choice(BREAKS) * 2)
    return ''.join(parts)


def name(rng):
    return ''.join(rng.choice(NAME_CH) for _ in range(rng.randint(1, 12))).strip() or 'n'


def make_default(rng, i):
    nm = 'p%d:%s' % (i, name(rng))
    check = rng.choice(CHECKS)
    kind = rng.choice(['plain', 'documented', 'removal', 'renamed', 'changed'])
    desc = rng.choice([None, '', text(rng), text(rng), ' ', '\n'])
    kw = {}
    spec = {'name': nm, 'check_str': check, 'removal': False, 'since': 'None', 'reason_text': None, 'deprecated': None}
    if kind == 'removal':
        kw.update(deprecated_for_removal=True, deprecated_reason=rng.choice([text(rng) or 'gone', text(rng) or 'gone', text(rng) or 'gone', '']), deprecated_since=rng.choice(['N', '2024.1', 'v 1']))
        spec.update(removal=True, since=kw['deprecated_since'], reason_text=kw['deprecated_reason'])
    elif kind in ('renamed', 'changed'):
        old_name = ('old%d:%s' % (i, name(rng))) if kind == 'renamed' else nm
        old_check = rng.choice(CHECKS)
        reason = rng.choice([text(rng), 'because', None])
        since = rng.choice(['N', '1.0', None])
        with warnings.catch_warnings():
            warnings.simplefilter('ignore')
            dep = policy.DeprecatedRule(old_name, old_check, deprecated_reason=reason, deprecated_since=since)
        kw.update(deprecated_rule=dep)
        spec.update(deprecated=[old_name, old_check], since=str(since), reason_text=reason)
    scope = rng.choice([None, None, ['system'], ['system', 'project'], []])
    if scope:
        kw['scope_types'] = scope
    ops = None
    with warnings.catch_warnings():
        warnings.simplefilter('ignore')
        if kind == 'documented' or rng.random() < 0.3:
            ops = [{'method': rng.choice(['GET', 'POST', '', 'PUT/PATCH']), 'path': rng.choice(['/v1/x', '/v1/{id}', '', '/#frag'])}
                   for _ in range(rng.randint(1, 3))]
            d = policy.DocumentedRuleDefault(nm, check, desc or 'described', ops, **kw)
            desc = desc or 'described'
        else:
            d = policy.RuleDefault(nm, check, desc, **kw)
    spec.update(description_text=desc, operations=[[o['method'], o['path']] for o in ops] if ops is not None else None,
                scope_types=d.scope_types)
    return d, spec


def wrap_entries(txt, tab):
    if not txt:
        return None
    lines = txt.strip().splitlines()
    rs = [l.rstrip() for l in lines]
    for i in range(len(rs) + 1):
        for j in range(i, len(rs) + 1):
            para = ' '.join(rs[i:j])
            if para not in tab:
                w = textwrap.wrap(para, 70, initial_indent='# ', subsequent_indent='# ')
                tab[para] = w
    return lines


def run(ctx, rep):
    N = ctx.n(700, 20000)
    reqs, meta = [], []
    orig = generator.get_policies_dict
    tmp = fsharness.scratch('opverif-c17-')
    try:
        for case in range(N):
            defs, specs = [], []
            for i in range(ctx.rng.randint(1, 5)):
                try:
                    d, s = make_default(ctx.rng, i)
                except Exception:      # the constructor refused this combination (not what C17 is about)
                    rep.stat('rejected_by_constructor')
                    continue
                defs.append(d)
                specs.append(s)
            if not defs:
                continue
            excl = ctx.rng.random() < 0.3
            generator.get_policies_dict = lambda ns, defs=defs: {'ns': defs}
            out = os.path.join(tmp, 's.yaml')
            outj = os.path.join(tmp, 's.json')
            try:
                with warnings.catch_warnings():
                    warnings.simplefilter('ignore')
                    if case % 2 == 0:
                        # the command as it is run (oslopolicy-sample-generator)
                        generator.generate_sample(args=['--namespace', 'ns', '--output-file', out] +
                                                  (['--exclude-deprecated'] if excl else []), conf=cfg.ConfigOpts())
                        generator.generate_sample(args=['--namespace', 'ns', '--output-file', outj, '--format', 'json'],
                                                  conf=cfg.ConfigOpts())
                        rep.stat('sample_via_cli_entry')
                    else:
                        generator._generate_sample(['ns'], output_file=out, exclude_deprecated=excl)
                        generator._generate_sample(['ns'], output_file=outj, output_format='json')
            except (Exception, SystemExit) as ex:       # every constructible default must be stated: generation may not fail
                rep.fail('c17crash:%r' % [(s['name'], s['check_str']) for s in specs],
                         'generating the sample for %r (exclude_deprecated=%s) raises %s: %s'
                         % ([(s['name'], s['check_str'], s['removal'], s['deprecated']) for s in specs], excl,
                            type(ex).__name__, ex), {'defaults': specs, 'exclude_deprecated': excl})
                rep.case(key='crash%d' % case, nontrivial=True)
                continue
            try:
                with open(out, newline='') as fh:
                    ytext = fh.read()
                with open(outj, newline='') as fh:
                    jtext = fh.read()
            except OSError as ex:
                rep.fail('c17nofile:%r' % [(s['name'], s['check_str']) for s in specs],
                         'the sample generator did not write the requested output file: %s' % ex, {'defaults': specs})
                rep.case(key='nofile%d' % case, nontrivial=True)
                continue
            finally:
                for f_ in (out, outj):
                    if os.path.exists(f_):
                        os.unlink(f_)
            # model request
            wtab, stab, mdefs = {'': []}, {}, []
            for s in specs:
                dl = wrap_entries(s['description_text'], wtab) if s['description_text'] else None
                rl = wrap_entries(s['reason_text'], wtab) if s['reason_text'] else None
                if s['deprecated']:
                    sent = '"%s":"%s" has been deprecated since %s in favor of "%s":"%s".' % (
                        s['deprecated'][0], s['deprecated'][1], s['since'], s['name'], s['check_str'])
                    stab[sent] = wrap_entries(sent, wtab) or []
                mdefs.append({'name': s['name'], 'check_str': s['check_str'], 'description': dl, 'operations': s['operations'],
                              'scope_types': s['scope_types'], 'removal': s['removal'], 'reason': rl, 'since': s['since'],
                              'deprecated': s['deprecated']})
            reqs.append({'op': 'sample_yaml', 'exclude_deprecated': excl, 'defaults': mdefs, 'wrap': wtab, 'split': stab})
            meta.append((specs, excl, ytext, jtext, wtab))
            _check_property(rep, specs, excl, ytext, jtext, wtab)
            for s in specs:
                rep.stat('kind:%s' % ('removal' if s['removal'] else ('deprecated' if s['deprecated'] else 'plain')))
            rep.case(key=ytext, nontrivial=True, sample={'defaults': [(s['name'], s['check_str']) for s in specs],
                                                        'yaml_head': ytext[:200]} if case % 50 == 0 else None)
    finally:
        generator.get_policies_dict = orig
        import shutil
        shutil.rmtree(tmp, ignore_errors=True)
    for (specs, excl, ytext, jtext, _), ans in zip(meta, driver.call(reqs)):
        mtext = ''.join(l + '\n' for l in ans['lines'])
        if mtext != ytext:
            rep.disagree('sample', {'defaults': [(s['name'], s['check_str']) for s in specs], 'exclude_deprecated': excl},
                         _firstdiff(mtext, ytext), '(real generator output)')
    rep.rules.append('%d lists of 1..5 RuleDefault / DocumentedRuleDefault objects (plain, deprecated for removal, renamed, changed '
                     'default; operations incl. empty method/path; scope types) with names over the rule-language alphabet, check '
                     'strings incl. single-quoted literals and placeholders, descriptions and reasons built from YAML-hostile words '
                     '(#, quotes, colons, anchors, tags, document markers, a 90-character word), every str.splitlines separator, '
                     'leading whitespace, tabs; with and without exclude-deprecated; YAML and JSON samples' % N)


def _firstdiff(a, b):
    al, bl = a.split('\n'), b.split('\n')
    for i in range(max(len(al), len(bl))):
        x = al[i] if i < len(al) else None
        y = bl[i] if i < len(bl) else None
        if x != y:
            return {'line': i, 'model': x, 'impl': y}
    return {}


def _check_property(rep, specs, excl, ytext, jtext, wtab):
    key = 'c17:%r' % ([(s['name'], s['check_str']) for s in specs],)
    # contract of textwrap.wrap assumed by the theorems
    for para, ws in wtab.items():
        for w in ws:
            if not w.startswith('# ') or len(w.splitlines()) > 1:
                rep.fail('c17wrap:%r' % (para,), 'textwrap.wrap contract broken: %r -> %r' % (para, w), {'paragraph': para})
    # (1) overrides nothing
    try:
        loaded = yaml.safe_load(ytext)
    except Exception as e:     # noqa
        rep.fail(key, 'the YAML sample is not a valid YAML document: %s' % type(e).__name__, {'yaml': ytext})
        return
    if loaded not in (None, {}):
        rep.fail(key, 'the YAML sample is not all comments: it loads as %r' % (loaded,), {'yaml': ytext})
    for ln in ytext.splitlines():
        if ln and not ln.startswith('#'):
            rep.fail(key, 'line %r of the YAML sample is neither empty nor a comment' % (ln,), {'yaml': ytext})
            break
    # (2) states every default: un-comment the rule lines
    # the property's premise: names and check strings free of double quotes, backslashes and line breaks (tabs and other
    # control characters are not line breaks); other inputs are still compared with the model
    bad = '"\\\n\r\x0b\x0c\x1c\x1d\x1e\x85\u2028\u2029'
    printable = all(not any(c in s[f] for c in bad) for s in specs for f in ('name', 'check_str'))
    if printable:
        un = '\n'.join(l[1:] if l.startswith('#"') else l for l in ytext.split('\n'))
        try:
            m = yaml.safe_load(un) or {}
        except Exception as e:     # noqa
            rep.fail(key, 'with its rule lines uncommented the sample is not valid YAML: %s' % type(e).__name__, {'yaml': un})
            return
        want = {s['name']: s['check_str'] for s in specs}
        if m != want:
            rep.fail(key, 'with its rule lines uncommented the sample maps %r, the defaults are %r' % (m, want), {'yaml': un})
        try:
            policy.Rules.load(un)
        except Exception as e:     # noqa
            rep.fail(key, 'the uncommented sample cannot be loaded as a policy file: %s' % type(e).__name__, {'yaml': un})
        try:
            mj = json.loads(jtext)
            if mj != want:
                rep.fail(key, 'the JSON sample holds %r, the defaults are %r' % (mj, want), {'json': jtext})
        except Exception as e:     # noqa
            rep.fail(key, 'the JSON sample is not valid JSON: %s' % type(e).__name__, {'json': jtext})
    else:
        rep.stat('unprintable_names_skipped')


def replay(ctx, rep, data):
    run(ctx, rep)
