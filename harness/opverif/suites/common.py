"""Helpers shared by the expression-based suites (C01, C02, C15, …)."""
import ast

from .. import driver, gen, impl

TGT_LEAVES = ["'v0':%(k0)s", "'v1':%(k1)s", "True:%(k2)s", "k3:%(k3)s"]
# leaves whose text starts or ends like a keyword (a token is a keyword only when it IS one)
KW_LEAVES = ["org:%(k4)s", "Android:%(k5)s", "notes:%(k6)s", "ORDER:%(k7)s", "role:and", "role:Or", "role:NOT",
             "band:%(k8)s", "floor:%(k9)s"]


def leaf_pool(n_roles=4, with_tgt=True, with_const=True, with_kw=True):
    pool = ['role:' + r for r in gen.ROLES[:n_roles]]
    if with_tgt:
        pool += TGT_LEAVES[:3]
    if with_kw:
        pool += KW_LEAVES
    if with_const:
        pool += ['@', '!']
    return pool


def lit_table(texts):
    """{kind: str(literal_eval(kind)) | None} for every leaf kind among `texts`."""
    tab = {}
    for t in texts:
        if ':' not in t:
            continue
        k = t.split(':', 1)[0]
        try:
            tab[k] = str(ast.literal_eval(k))
        except Exception:
            tab[k] = None
    return tab


def world(leaf_texts, true_set):
    """Target and credentials that make exactly the leaves in true_set true
    (role:X leaves and '<lit>':%(k)s leaves; '@'/'!' are constants)."""
    roles, target, creds = [], {}, {}
    for t in leaf_texts:
        if t in ('@', '!'):
            continue
        k, m = t.split(':', 1)
        if k == 'role':
            if t in true_set:
                roles.append(m)
        elif m.startswith('%(') and m.endswith(')s'):
            key = m[2:-2]
            try:
                want = str(ast.literal_eval(k))
                target[key] = want if t in true_set else 'zz'
            except Exception:
                # credential attribute k compared with target[key]
                target[key] = 'tv'
                creds[k] = 'tv' if t in true_set else 'other'
    creds['roles'] = roles
    return target, creds


def leaf_value(t, true_set):
    if t == '@':
        return True
    if t == '!':
        return False
    return t in true_set


def variable_leaves(leaf_texts):
    seen = []
    for t in leaf_texts:
        if t not in ('@', '!') and t not in seen:
            seen.append(t)
    return seen


def enforce_request(rules, queries, default=None, registered=(), enforce_scope=True, lit=None, **kw):
    rq = {'op': 'enforce', 'rules': [[k, driver.enc(v)] for k, v in rules.items()],
          'default': default, 'registered': list(registered), 'enforce_scope': enforce_scope,
          'queries': [dict(q, target=driver.enc(q['target']), creds=driver.enc(q['creds'])) for q in queries],
          'lit': lit or {}}
    rq.update(kw)
    return rq
