"""C11 — deprecated-policy merging follows the documented override table."""
import itertools

from .. import driver, fsharness, gen, impl
from . import common

META = {'assumptions': ['policy files are read by the JSON/YAML libraries; the model takes the parsed mapping']}
ROLES = ['r0', 'r1', 'r2']
POOL = ['role:r0', 'role:r1', 'role:r2', '@', '!']


def expr(rng):
    e = gen.gen_e0(rng, rng.choice([0, 1, 2]), lambda r: r.choice(POOL))
    return gen.layout(rng, gen.render(e), plain=True)


def value_of(text, roles):
    """independent evaluation of a role-only expression"""
    if text == '':
        return True
    toks = []
    for w in text.split():
        lead = len(w) - len(w.lstrip('('))
        w2 = w.lstrip('(')
        trail = len(w2) - len(w2.rstrip(')'))
        core = w2.rstrip(')')
        toks += [('(',)] * lead
        if core.lower() in ('and', 'or', 'not'):
            toks.append((core.lower(),))
        elif core:
            toks.append(('check', core))
        toks += [(')',)] * trail
    e = gen.recognise(toks)
    assert e is not None, text

    def val(t):
        if t == '@':
            return True
        if t == '!':
            return False
        return t[5:] in roles
    return gen.den(e, val)


def run(ctx, rep):
    pairs = [(expr(ctx.rng), expr(ctx.rng)) for _ in range(ctx.n(12, 300))]
    pairs += [('role:r0', 'role:r0'), ('role:r0', 'role:r1'), ('', 'role:r1'), ('role:r1', ''), ('@', '!')]
    rows = []
    for renamed, flag, new_ovr, old_ovr, loc, multi in itertools.product(
            (True, False), (True, False), (False, True), ('absent', 'arbitrary', 'alias'), ('main', 'dir', 'both'), (False, True)):
        if not renamed and old_ovr != 'absent':
            continue          # same name: an "old-name override" is the new-name override
        rows.append((renamed, flag, new_ovr, old_ovr, loc, multi))
    creds = [{'roles': s} for s in gen.subsets(ROLES)]
    pend = []
    for (renamed, flag, new_ovr, old_ovr, loc, multi) in rows:
        for new_s, old_s in pairs:
            ovr_new_s, ovr_old_s = expr(ctx.rng), expr(ctx.rng)
            if ovr_old_s == old_s:
                continue        # textually equal to the deprecated default: unconstrained by the property
            new_name, old_name = 'new:p', ('old:p' if renamed else 'new:p')
            regs = [{'name': new_name, 'check_str': new_s, 'deprecated': (old_name, old_s)}]
            if multi:
                regs.append({'name': 'new:q', 'check_str': 'role:r2', 'deprecated': (old_name, old_s)})
            w = fsharness.World(regs=regs, enforce_new_defaults=flag)
            try:
                file_rules = {}
                if new_ovr:
                    file_rules[new_name] = ovr_new_s
                if old_ovr == 'arbitrary':
                    file_rules[old_name] = ovr_old_s
                elif old_ovr == 'alias':
                    file_rules[old_name] = 'rule:' + new_name
                if loc == 'main':
                    w.write((None, None), file_rules, 2, record=False)
                elif loc == 'both':
                    # the main file holds other values for the same names; policy.d (loaded later) wins
                    shadow = {k: ctx.rng.choice(['role:r0', 'role:r1', '!', '@', 'rule:' + new_name]) for k in file_rules}
                    w.write((None, None), shadow, 2, record=False)
                    w.write((0, 'o.yaml'), file_rules, 3, record=False)
                else:
                    w.write((None, None), {'unrelated': '@'}, 2, record=False)
                    w.write((0, 'o.yaml'), file_rules, 3, record=False)
                w.fs0 = w.snapshot()
                e = w.new_enforcer()
                err = w.load(e)
                got = fsharness.decisions(e, [new_name] + (['new:q'] if multi else []), creds)
                # the statement of C11
                defaults_of = {new_name: new_s, 'new:q': 'role:r2'}

                def governs(name, default_s):
                    if name in file_rules:
                        return lambda roles: value_of(file_rules[name], roles)
                    if old_name != name and old_name in file_rules and file_rules[old_name] != 'rule:' + name:
                        ov = file_rules[old_name]
                        if ov.startswith('rule:'):       # an alias to *another* successor governs like any override
                            other = ov[5:]
                            return governs(other, defaults_of[other])
                        return lambda roles: value_of(ov, roles)
                    if (not flag) and old_s != default_s:
                        return lambda roles: value_of(default_s, roles) or value_of(old_s, roles)
                    return lambda roles: value_of(default_s, roles)
                want = []
                for name, ds in [(new_name, new_s)] + ([('new:q', 'role:r2')] if multi else []):
                    g = governs(name, ds)
                    want += ['allow' if g(c['roles']) else 'deny' for c in creds]
                key = 'c11:%s|%s|%s|%s|%s|%s|%r|%r' % (renamed, flag, new_ovr, old_ovr, loc, multi, new_s, old_s)
                if err or got != want:
                    rep.fail(key, 'deprecation merge: renamed=%s enforce_new_defaults=%s new override=%s old override=%s (%s) '
                             'several successors=%s, new default %r, old default %r, file rules %r: decisions %r, expected %r'
                             % (renamed, flag, new_ovr, old_ovr, loc, multi, new_s, old_s, file_rules, err or got, want),
                             {'regs': regs, 'file_rules': file_rules, 'flag': flag, 'loc': loc})
                pend.append((key, fsharness.observe(e), w.model_request(), regs, file_rules))
                rep.stat('row:%s|%s' % ('renamed' if renamed else 'same', old_ovr))
                rep.case(key=key, nontrivial=len(set(got)) > 1, n=len(got),
                         sample={'regs': regs, 'file_rules': file_rules, 'enforce_new_defaults': flag} if multi and old_ovr == 'arbitrary' else None)
            finally:
                w.close()
    for (key, obs, rq, regs, fr), ans in zip(pend, driver.call([p[2] for p in pend])):
        mr = {a: b for a, b in ans['loads'][0]['rules']}
        if mr != obs:
            rep.disagree('loader-deprecation', {'regs': regs, 'file_rules': fr}, mr, obs)
    rep.rules.append('%d rows of the override table (renamed or same-name x enforce_new_defaults x new-name override x old-name '
                     'override absent/arbitrary/alias x override in the main file, in policy.d, or in both with different values x one or two successors of the '
                     'deprecated name) x %d pairs of check strings from the expression generator, all 8 role subsets; old-name '
                     'overrides textually equal to the deprecated default are not generated' % (len(rows), len(pairs)))


def replay(ctx, rep, data):
    run(ctx, rep)
