"""C15 — printing a rule and parsing it back is the identity on meaning and on text."""
import json

from oslo_policy import _parser, policy

from .. import driver, gen, impl
from . import common

META = {'assumptions': ['jsonutils.dumps / loads (Rules.__str__ / Rules.load) are library behaviour']}

LEAVES = ['role:r0', 'role:r1', 'role:R2', 'rule:other', 'rule:n:x', "'v0':%(k0)s", 'True:%(k2)s', 'k3:%(k3)s',
          'user_id:%(user.id)s', 'http://h/%(k0)s', 'https://h:8/p', '@', '!', 'is_admin:True', "k:'lit'", 'a.b.c:x',
          'project_id:%(project_id)s', 'x:y:z', 'x:', ':y', 'role:%%', 'r:(a', 'r:a)b', '"Member":%(k0)s', 'k:"v"', 'a\\b:%(k0)s',
          "'it''s':%(k0)s"]
ROLESETS = [[], ['r0'], ['r1'], ['r0', 'r1', 'r2']]
TARGET = {'k0': 'v0', 'k2': 'True', 'k3': 'tv', 'user.id': 'u', 'project_id': 'p'}


def decisions(enf, name='p'):
    return [enf.decide(name, dict(TARGET), {'roles': r, 'k3': 'tv', 'user_id': 'u', 'project_id': 'p', 'is_admin': True})
            for r in ROLESETS]


def run(ctx, rep):
    enf = impl.Enf()
    local = [l for l in LEAVES if not l.startswith('http')]
    values = []
    N = ctx.n(1200, 60000)
    for _ in range(N):
        e = gen.gen_e0(ctx.rng, ctx.rng.choice([1, 2, 3, 4]), lambda r: r.choice(local))
        values.append(gen.layout(ctx.rng, gen.render(e), plain=ctx.rng.random() < 0.5))
    for _ in range(ctx.n(400, 20000)):
        outer = []
        for _ in range(ctx.rng.randint(0, 3)):
            if ctx.rng.random() < 0.3:
                outer.append(ctx.rng.choice(local))
            else:
                outer.append([ctx.rng.choice(local) for _ in range(ctx.rng.randint(0, 3))])
        values.append(outer)
    # remote leaves: printed form only (never evaluated)
    for _ in range(ctx.n(100, 2000)):
        e = gen.gen_e0(ctx.rng, 2, lambda r: r.choice(LEAVES))
        values.append(gen.layout(ctx.rng, gen.render(e), plain=True))
    rep.rules.append('%d rules: text expressions (random layout) and list-of-lists over %d leaves of every built-in kind '
                     '(role, rule, generic with quoted literals/placeholders/dotted paths, http(s), @, !, odd colons and '
                     'inner parentheses), all without embedded whitespace' % (len(values), len(LEAVES)))
    ans = driver.call([{'op': 'parse', 'v': driver.enc(v)} for v in values])
    by_print = {}
    for v, a in zip(values, ans):
        p1 = impl.parse_str(v)
        if p1 != a['tree']:
            rep.disagree('print', {'value': v}, a['tree'], p1)
        p2 = impl.parse_str(p1)
        key = 'c15:%r' % (v,)
        if p2 != p1:
            rep.fail(key, 'rule %r prints as %r, which parses and prints as %r' % (v, p1, p2), {'value': v})
        remote = 'http' in p1
        if not remote:
            enf.set_rules({'p': v})
            d1 = decisions(enf)
            enf.set_rules({'p': p1})
            d2 = decisions(enf)
            if d1 != d2:
                rep.fail(key, 'rule %r and its printed form %r decide differently: %r vs %r' % (v, p1, d1, d2), {'value': v})
            # equal printed form => equal decisions
            if p1 in by_print and by_print[p1][1] != d1:
                rep.fail(key, 'rules %r and %r print identically (%r) but decide differently' % (by_print[p1][0], v, p1),
                         {'a': by_print[p1][0], 'b': v})
            by_print.setdefault(p1, (v, d1))
            rep.stat('nonconstant' if len(set(d1)) > 1 else 'constant')
        rep.stat('text' if isinstance(v, str) else 'list')
        rep.case(key=p1, nontrivial=True, sample={'value': v, 'printed': p1} if len(p1) > 30 else None)
    # a rule that is one leaf prints as itself, and its printed form parses to a check of the same class (a remote check
    # must not come back as an attribute check, or the two would decide differently)
    for l in LEAVES:
        t1 = _parser.parse_rule(l)
        p1 = str(t1)
        t2 = _parser.parse_rule(p1)
        if p1 != l or type(t1) is not type(t2) or str(t2) != p1:
            rep.fail('c15leaf:%r' % (l,), 'leaf %r parses to %s printing %r, which parses to %s printing %r'
                     % (l, type(t1).__name__, p1, type(t2).__name__, str(t2)), {'leaf': l})
        rep.case(key='leaf' + l, nontrivial=True)
    _rule_sets(ctx, rep, enf, values)
    _rule_default_eq(ctx, rep, values)


def _rule_sets(ctx, rep, enf, values):
    n = ctx.n(200, 8000)
    for _ in range(n):
        k = ctx.rng.randint(0, 6)
        rules = {'n%d' % i: ctx.rng.choice(values + ['', '@', []]) for i in range(k)}
        rs = policy.Rules.from_dict(rules, 'n0')
        key = 'c15set:%r' % (sorted(rules.items(), key=lambda kv: kv[0]),)
        try:
            dumped = str(rs)
            rs2 = policy.Rules.load(dumped, 'n0')
        except Exception as e:      # noqa
            rep.fail(key, 'dumping the rule set %r and loading the dump fails: %s: %s' % (rules, type(e).__name__, str(e)[:120]),
                     {'rules': rules})
            continue
        if set(rs2) != set(rs):
            rep.fail(key, 'dump/load changes the names: %r -> %r' % (sorted(rs), sorted(rs2)), {'rules': rules})
            continue
        for name in rs:
            if str(rs[name]) != str(rs2[name]):
                rep.fail(key, 'after dump/load rule %s prints %r instead of %r' % (name, str(rs2[name]), str(rs[name])),
                         {'rules': rules})
        if str(rs2) != dumped:
            rep.fail(key, 'dump(load(dump)) differs from dump', {'rules': rules})
        if 'http' not in dumped:         # remote leaves are compared by printed form only (never evaluated here)
            enf.e.set_rules(rs, use_conf=False)
            d1 = [decisions(enf, nm) for nm in sorted(rs)]
            enf.e.set_rules(rs2, use_conf=False)
            d2 = [decisions(enf, nm) for nm in sorted(rs)]
            if d1 != d2:
                rep.fail(key, 'dump/load changes decisions', {'rules': rules})
        else:
            rep.stat('rule_set_with_remote_leaf')
        rep.stat('rule_set')
        rep.case(key=key, nontrivial=k > 0)
    rep.rules.append('%d rule sets of 0..6 such rules (with and without always-allow entries) through str(Rules) and '
                     'Rules.load' % n)


def _rule_default_eq(ctx, rep, values):
    """RuleDefault.__eq__ / redundancy detection: equal only if printed forms are equal."""
    texts = [v for v in values if isinstance(v, str) and 'http' not in v][:ctx.n(300, 5000)]
    for i in range(0, len(texts) - 1, 2):
        a, b = texts[i], texts[i + 1]
        ra, rb = policy.RuleDefault('p', a), policy.RuleDefault('p', b)
        ra2 = policy.RuleDefault('p', impl.parse_str(a))
        if not (ra == ra2):
            rep.fail('c15eq:%r' % (a,), 'RuleDefault(%r) != RuleDefault(its printed form)' % (a,), {'a': a})
        if (ra == rb) != (impl.parse_str(a) == impl.parse_str(b)):
            rep.fail('c15eq:%r|%r' % (a, b), 'RuleDefault equality disagrees with printed-form equality', {'a': a, 'b': b})
        rep.case(key='eq%r%r' % (a, b), nontrivial=True)
    # near misses: two rules that differ in the letter case of one leaf (or of a keyword, which must NOT matter)
    enf = impl.Enf()
    n_near = 0
    for a in texts[:ctx.n(200, 3000)]:
        words = a.split()
        idx = [i for i, w in enumerate(words) if any(c.isalpha() for c in w)]
        if not idx:
            continue
        i = ctx.rng.choice(idx)
        w = words[i]
        w2 = w.swapcase() if ctx.rng.random() < 0.5 else ''.join(c.upper() if j % 2 else c.lower() for j, c in enumerate(w))
        b = ' '.join(words[:i] + [w2] + words[i + 1:])
        pa, pb = impl.parse_str(a), impl.parse_str(b)
        try:
            eq = policy.RuleDefault('p', a) == policy.RuleDefault('p', b)
        except Exception as ex:     # noqa
            eq = 'raise:' + type(ex).__name__
        if eq != (pa == pb):
            rep.fail('c15eqcase:%r|%r' % (a, b), 'RuleDefault(p, %r) == RuleDefault(p, %r) is %s although they print as %r and %r'
                     % (a, b, eq, pa, pb), {'a': a, 'b': b})
        if eq is True:
            enf.set_rules({'p': a, 'other': 'role:r0', 'n:x': 'role:r1'})
            da = decisions(enf)
            enf.set_rules({'p': b, 'other': 'role:r0', 'n:x': 'role:r1'})
            db = decisions(enf)
            if da != db:
                rep.fail('c15eqdec:%r|%r' % (a, b), 'rule defaults %r and %r compare equal but decide differently (%r vs %r)'
                         % (a, b, da, db), {'a': a, 'b': b})
        n_near += 1
        rep.stat('eq_case_variant:' + ('same_print' if pa == pb else 'different_print'))
        rep.case(key='eqc%r%r' % (a, b), nontrivial=True)
    rep.rules.append('%d pairs of rule defaults differing only in the letter case of one word (keyword: same rule; leaf: different '
                     'rule): equality must follow the printed form, and equal defaults must decide alike' % n_near)


def replay(ctx, rep, data):
    run(ctx, rep)
