"""C07 — enforce either returns the decision or raises the requested exception."""
import copy
import logging

from oslo_policy import _parser, policy

from .. import gen, impl, scenario
from . import common
from .c06 import gen_rules

META = {'assumptions': ["that the debug dump (strutils.mask_dict_password / jsonutils.dumps) neither fails nor mutates is "
                        "library behaviour: exercised (deep comparison before/after), not modelled"]}

ROLES = ['r0', 'r1', 'r2']


class _Null(logging.Handler):
    def emit(self, record):
        try:
            record.getMessage()
        except Exception:      # a failing debug dump must not be hidden
            raise


def run(ctx, rep):
    scs = []
    N = ctx.n(300, 10000)
    for _ in range(N):
        names, rules = gen_rules(ctx.rng, ctx.rng.randint(1, 4))
        for n in names:
            if ctx.rng.random() < 0.3:      # substitution syntax inside the rule text (the text is echoed in messages)
                rules[n] = ctx.rng.choice(["(%s) and not 'w':%%(k)s", "(%s) or k:%%(missing)s", "(%s) and not role:100%%%%",
                                           "(%s) and 'v':%%(k)s", "(%s) or 'v':%%(k)s"]) % rules[n]
        default = ctx.rng.choice([None, None, 'dflt'])
        if default:
            rules['dflt'] = ctx.rng.choice(['role:r0', '@', '!', 'not role:r1'])
        reg = [(n, ctx.rng.choice([None, None, ['project'], ['system'], ['system', 'project']]))
               for n in names if ctx.rng.random() < 0.6]
        es = ctx.rng.random() < 0.8
        queries = []
        for _ in range(6):
            roles = ctx.rng.choice(list(gen.subsets(ROLES)))
            creds = {'roles': roles, 'project_id': 'p'}
            if ctx.rng.random() < 0.2:
                creds = {'roles': roles, 'system_scope': 'all'}
            if ctx.rng.random() < 0.03:
                creds = ctx.rng.choice([None, 'creds', 5, ['roles']])
            rk = ctx.rng.random()
            if rk < 0.6:
                rule = ctx.rng.choice(names + ['u0'])
            elif rk < 0.8:
                rule = 'unregistered_' + ctx.rng.choice(names)
            else:
                rule = {'check': ctx.rng.choice(['role:r0', 'role:r1 and not role:r2', '@', '!', 'rule:n0', "'v':%(k)s",
                                                 "role:r0 and 'w':%(k)s", 'role:r1 or not role:50%%']),
                        'scope': ctx.rng.choice([None, None, ['project'], ['system']])}
            exc = ctx.rng.random() < 0.5
            base = {'rule': rule, 'target': {'k': 'v', 'nested': {'a': [1, 2]}}, 'creds': creds, 'exc': exc,
                    'exc_args': ('a1', 2) if exc else (), 'exc_kwargs': {'kw': 'x'} if exc else {}}
            auth = isinstance(rule, str) and ctx.rng.random() < 0.4
            for dr in (False, True):
                queries.append(dict(base, do_raise=dr, authorize=auth))
        scs.append({'rules': rules, 'default': default, 'registered': reg, 'enforce_scope': es, 'queries': queries})
    rep.rules.append('%d scenarios x 6 requests x do_raise off/on: acyclic rule graphs from the C06 generator, rule by name '
                     '(defined, undefined, unregistered) or as a check object (with/without scope types), registered scope types, '
                     'enforce_scope on/off, custom exception class with positional and keyword arguments or none, authorize vs '
                     'enforce, non-mapping credentials; repeated with debug logging on' % N)

    def check(sc, outs):
        for i in range(0, len(outs), 2):
            off, on = outs[i], outs[i + 1]
            q = sc['queries'][i]
            key = 'c07:%r|%r|%r' % (sorted(sc['rules'].items()), q['rule'], q['creds'])
            rep.stat('off:' + off.split(':')[0] + (':' + off.split(':')[1] if off.startswith('raise') else ''))
            ok = True
            if off == 'allow':
                ok = on == 'allow'
            elif off == 'deny':
                if q['exc']:
                    ok = on in ('raise:Custom', 'raise:InvalidScope')
                else:
                    name = q['rule'] if isinstance(q['rule'], str) else None
                    ok = on == 'raise:InvalidScope' or (on.startswith('raise:PolicyNotAuthorized') and
                                                      (name is None or on == 'raise:PolicyNotAuthorized:' + name))
            else:
                ok = on == off            # PolicyNotRegistered / InvalidContextObject in both modes
            # a scope mismatch is reported as InvalidScope whatever exception class the caller asked for
            st = None
            if isinstance(q['rule'], dict):
                st = q['rule'].get('scope')
            elif q['rule'] in sc['rules']:
                st = dict((n, s_) for n, s_ in sc['registered']).get(q['rule'])
            if st and isinstance(q['creds'], dict) and sc['enforce_scope']:
                tscope = 'system' if (q['creds'].get('system') or q['creds'].get('system_scope')) else (
                    'domain' if q['creds'].get('domain_id') else 'project')
                if tscope not in st and not (off == 'deny' and on == 'raise:InvalidScope'):
                    ok = False
            if on == 'deny':
                ok = False
            if off.split(':')[:2] in (['raise', 'PolicyNotAuthorized'], ['raise', 'Custom'], ['raise', 'InvalidScope']):
                ok = False          # with do_raise off (also when the argument is left out) a denial is returned, not raised
            if not ok:
                rep.fail(key, 'do_raise off gives %s but do_raise on gives %s (rule %r, creds %r, exc %r)'
                         % (off, on, q['rule'], q['creds'], q['exc']), {'scenario': sc, 'query': q})
            if q['authorize'] and q['rule'] not in [n for n, _ in sc['registered']]:
                if off != 'raise:PolicyNotRegistered:' + q['rule']:
                    rep.fail(key + '|auth', 'authorize of unregistered %r gives %s' % (q['rule'], off), {'scenario': sc, 'query': q})
        rep.case(key=repr((sorted(sc['rules'].items()), sc['registered'], sc['enforce_scope'])),
                 nontrivial=len(set(outs)) > 2, n=len(outs),
                 sample={'rules': sc['rules'], 'registered': sc['registered'], 'first_query': sc['queries'][0], 'outcomes': outs[:4]})
    first = scenario.run_all(rep, scs, 'enforce', check)
    _exc_args(ctx, rep)
    _authorize_same(ctx, rep)
    # debug logging on: same outcomes, nothing but creds['system'] may change
    h = _Null()
    logging.disable(logging.NOTSET)
    policy.LOG.addHandler(h)
    old = policy.LOG.level
    policy.LOG.setLevel(logging.DEBUG)
    try:
        sub = scs[:ctx.n(120, 3000)]
        for sc, base in zip(sub, first):
            outs = scenario.impl_run(sc)
            if outs != base:
                i = [k for k in range(len(outs)) if outs[k] != base[k]][0]
                rep.fail('debuglog:%r' % (sc['queries'][i],), 'with debug logging on the outcome changes: %s -> %s'
                         % (base[i], outs[i]), {'scenario': sc, 'query': sc['queries'][i]})
            rep.stat('debug_logging_on')
            rep.case(n=len(outs))
        _mutation(ctx, rep)
    finally:
        policy.LOG.setLevel(old)
        policy.LOG.removeHandler(h)
        logging.disable(logging.CRITICAL)


def _exc_args(ctx, rep):
    """The caller's exception is built from exactly the caller's extra arguments."""
    enf = impl.Enf()
    enf.set_rules({'deny': '!', 'allow': '@'})
    enf.e.register_default(policy.RuleDefault('deny', '!'))
    enf.e.register_default(policy.RuleDefault('allow', '@'))
    for args, kw in [((), {}), (('a',), {}), (('a', 2, None), {'x': 1}), ((), {'x': [1, 2], 'y': {'z': 1}})]:
        for fname in ('enforce', 'authorize'):
            fn = getattr(enf.e, fname)
            try:
                fn('deny', {}, {}, True, impl.CustomExc, *args, **kw)
                rep.fail('excargs:noraise:' + fname, '%s with do_raise and a custom class did not raise' % fname, {'args': args, 'kw': kw})
            except impl.CustomExc as e:
                if e.args != args or e.kw != kw:
                    rep.fail('excargs:%s:%r' % (fname, args), '%s: custom exception built from %r/%r, caller passed %r/%r'
                             % (fname, e.args, e.kw, args, kw), {'args': args, 'kw': kw, 'call': fname})
            except Exception as e:     # noqa
                rep.fail('excargs:%s:%r' % (fname, args), '%s with a custom class raised %s instead' % (fname, type(e).__name__),
                         {'args': args, 'kw': kw, 'call': fname})
            r = fn('allow', {}, {}, True, impl.CustomExc, *args, **kw)
            if not r:
                rep.fail('excargs:allow:' + fname, 'allowed request returned falsy under do_raise (%s)' % fname, {})
            rep.case(key='excargs%s%r%r' % (fname, args, kw), nontrivial=True)


def _authorize_same(ctx, rep):
    """authorize behaves identically to enforce for registered names: same target, same credentials, same arguments."""
    enf = impl.Enf()
    rules = {'own': 'user_id:%(user_id)s', 'lit': "'v':%(k)s", 'mix': "role:r0 and project_id:%(project_id)s", 'neg': "not 'v':%(k)s"}
    enf.set_rules(rules)
    for n in rules:
        enf.e.register_default(policy.RuleDefault(n, rules[n]))
    targets = [{'user_id': 'u1', 'k': 'v', 'project_id': 'p1'}, {'user_id': 'u2', 'k': 'w', 'project_id': 'p2'}, {}]
    credss = [{'user_id': 'u1', 'roles': ['r0'], 'project_id': 'p1', 'k': 'w'}, {'user_id': 'u2', 'roles': [], 'project_id': 'p2', 'k': 'v'}]
    for n in rules:
        for t in targets:
            for c in credss:
                for dr in (False, True):
                    a = impl.outcome(lambda: enf.e.authorize(n, dict(t), dict(c), do_raise=dr))
                    b = impl.outcome(lambda: enf.e.enforce(n, dict(t), dict(c), do_raise=dr))
                    if a != b:
                        rep.fail('authsame:%s|%r|%r|%s' % (n, sorted(t), c.get('user_id'), dr),
                                 'authorize(%s, target=%r, creds=%r, do_raise=%s) gives %s, enforce gives %s (rule %r)'
                                 % (n, t, c, dr, a, b, rules[n]), {'rule': n, 'target': t, 'creds': c, 'do_raise': dr})
                    rep.case(key='authsame%s%r%r%s' % (n, sorted(t.items()), c['user_id'], dr), nontrivial=True)
    rep.stat('authorize_vs_enforce', len(rules) * len(targets) * len(credss) * 2)


def _mutation(ctx, rep):
    enf = impl.Enf()
    enf.set_rules({'p': 'role:r0 or k:%(k)s'})
    for creds in [{'roles': ['r0'], 'password': 's3cret', 'nested': {'token': 't', 'l': [1, {'password': 'x'}]}},
                  {'roles': [], 'system_scope': 'all', 'auth_token': 'zzz'},
                  {'roles': ['r1'], 'system': 'all', 'obj': object()}]:
        for target in [{'k': 'v', 'password': 'p', 'deep': {'a': {'b': [1, 2, {'secret': 1}]}}}, {'k': object()}, {}]:
            c0 = copy.deepcopy({k: v for k, v in creds.items() if k != 'obj'})
            t0 = {k: v for k, v in target.items()}
            enf.decide('p', target, creds)
            c1 = {k: v for k, v in creds.items() if k != 'obj'}
            if c0.get('system_scope'):
                c0['system'] = c0['system_scope']
            if c1 != c0 or {k: v for k, v in target.items()} != t0:
                rep.fail('mutate:%r' % (sorted(c0),), 'enforce (debug logging on) changed the caller\'s credentials or target: '
                         '%r -> %r' % (c0, c1), {'creds': repr(creds), 'target': repr(target)})
            rep.stat('mutation_probe')
            rep.case(key='mut%r%r' % (sorted(c0), sorted(t0)), nontrivial=True)
    # targets and credentials the debug dump (mask + JSON, sorted keys) may choke on: the dump is diagnostics only, so the
    # outcome with debug logging on must be the outcome with it off
    hostile = [{'k': 'v', 1: 'int key'}, {'k': 'v', ('t', 1): 'tuple key'}, {'k': 'v', 's': {1, 2}}, {'k': 'v', 'b': b'bytes'},
               {'k': 'w', None: 0, 2.5: 1}, {'k': float('nan')}]
    for target in hostile:
        for creds in ({'roles': ['r0']}, {'roles': [], 3: 'x', 'y': 1}, {'roles': ['r1'], 'u': {1: 2, 'a': 3}}):
            for dr in (False, True):
                logging.disable(logging.CRITICAL)
                off = impl.outcome(lambda: enf.e.enforce('p', dict(target), dict(creds), do_raise=dr))
                logging.disable(logging.NOTSET)
                on = impl.outcome(lambda: enf.e.enforce('p', dict(target), dict(creds), do_raise=dr))
                if on != off:
                    rep.fail('debugdump:%r|%r|%s' % (sorted(map(repr, target)), sorted(map(repr, creds)), dr),
                             'enforce(p, target=%r, creds=%r, do_raise=%s) gives %s with debug logging off and %s with it on'
                             % (target, creds, dr, off, on), {'target': repr(target), 'creds': repr(creds), 'do_raise': dr})
                rep.stat('hostile_dump_probe')
                rep.case(key='dump%r%r%s' % (sorted(map(repr, target)), sorted(map(repr, creds)), dr), nontrivial=True)


def replay(ctx, rep, data):
    run(ctx, rep)
