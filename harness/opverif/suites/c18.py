"""C18 — policy-file rewriting tools and advice preserve every decision."""
import contextlib
import io
import json
import os
import shutil
import warnings

import yaml
from oslo_config import cfg
from oslo_policy import generator, opts, policy

from .. import driver, fsharness, gen, impl

META = {'assumptions': ['the emitted text is turned back into a mapping by the YAML/JSON parsers; stevedore lookups are replaced '
                        'by the harness (the tools are entered below their entry-point resolution)']}

ROLES = ['r0', 'r1', 'r2']
CREDS = [{'roles': s, 'project_id': 'p'} for s in gen.subsets(ROLES)]
LONG_A = 'role:r0 or (role:r1 and role:r2) or (role:r2 and not role:r0 and role:r1) or rule:helper or role:r1 or role:r2 or role:r0'
LONG_B = "(role:r0 and role:r1) or (role:r1 and 'x':%(k)s and not role:r2) or (role:r2 and role:r0 and role:r1 and role:r2)"
STR_VALUES = [LONG_A, LONG_B, 'role:r0', 'role:r1 or role:r2', 'not role:r0', '@', '!', '', 'role:r0 and (role:r1 or role:r2)', "role:r2 or 'x':%(k)s",
              'role:r1 or "dq":%(k)s', 'role:r0 or a\\b:%(k)s', 'rule:helper', 'role:r1 and rule:helper']
LIST_VALUES = [[['role:r0']], [['role:r0', 'role:r1'], ['role:r2']], [], ['role:r1'], [['role:r0'], 'role:r2'], [[]], [[], []], [''],
               [[], ['role:r1']], [['@', 'role:r0']], ['!', ['role:r2']]]


def default_sets(rng):
    """(registered defaults as specs)"""
    kind = rng.choice(['plain', 'renamed', 'split', 'changed', 'mixed'])
    regs = [{'name': 'helper', 'check_str': 'role:r2'}]
    if kind in ('plain', 'mixed'):
        regs += [{'name': 'svc:a', 'check_str': rng.choice(STR_VALUES[:9])}, {'name': 'svc:b', 'check_str': rng.choice(STR_VALUES[:9])}]
    if kind in ('renamed', 'mixed'):
        regs.append({'name': 'svc:new1', 'check_str': rng.choice(STR_VALUES[:9]), 'deprecated': ('svc:old1', rng.choice(STR_VALUES[:9]))})
    if kind in ('split', 'mixed'):
        oldc = rng.choice(STR_VALUES[:9])
        for i in range(rng.randint(2, 3)):
            regs.append({'name': 'svc:part%d' % i, 'check_str': rng.choice(STR_VALUES[:9]), 'deprecated': ('svc:whole', oldc)})
    if kind in ('changed', 'mixed'):
        regs.append({'name': 'svc:same', 'check_str': rng.choice(STR_VALUES[:9]), 'deprecated': ('svc:same', rng.choice(STR_VALUES[:9]))})
    if kind == 'split' and rng.random() < 0.5:
        # another renamed policy registered in the middle of the split's successors
        regs.insert(2, {'name': 'svc:new1', 'check_str': rng.choice(STR_VALUES[:9]), 'deprecated': ('svc:old1', rng.choice(STR_VALUES[:9]))})
    if rng.random() < 0.4:
        # services register their defaults in no particular order
        head, tail = regs[:1], regs[1:]
        rng.shuffle(tail)
        regs = head + tail
    return kind, regs


def mk_defaults(regs):
    out = []
    with warnings.catch_warnings():
        warnings.simplefilter('ignore')
        for r in regs:
            dep = None
            if r.get('deprecated'):
                dep = policy.DeprecatedRule(r['deprecated'][0], r['deprecated'][1], deprecated_reason='r', deprecated_since='s')
            out.append(policy.RuleDefault(r['name'], r['check_str'], description='d', deprecated_rule=dep))
    return out


def policy_file(rng, regs, allow_lists=True):
    """An operator's policy file: registered, deprecated or unknown names; never a deprecated name together with one of its
    successors, never a rule: reference to a deprecated name."""
    new_names = [r['name'] for r in regs]
    old_names = sorted({r['deprecated'][0] for r in regs if r.get('deprecated') and r['deprecated'][0] != r['name']})
    f = {}
    for o in old_names:
        succ = [r['name'] for r in regs if r.get('deprecated') and r['deprecated'][0] == o]
        mode = rng.choice(['old', 'new', 'none', 'none'])
        if mode == 'old':
            f[o] = rng.choice(STR_VALUES[:8] + (LIST_VALUES if allow_lists else []) + ['rule:' + succ[0]])
        elif mode == 'new':
            for s in succ:
                if rng.random() < 0.6:
                    f[s] = rng.choice(STR_VALUES + (LIST_VALUES if allow_lists else []))
    for n in new_names:
        if n == 'helper':
            continue
        if n in f or any(r['name'] == n and r.get('deprecated') and r['deprecated'][0] in f for r in regs):
            continue
        if rng.random() < 0.4:
            f[n] = rng.choice(STR_VALUES + (LIST_VALUES if allow_lists else []))
    if rng.random() < 0.3:
        f['unknown:x'] = rng.choice(STR_VALUES[:6])
    items = list(f.items())
    rng.shuffle(items)
    return dict(items)


def decisions_under(tmp, regs, file_map, names, dir_files=None):
    """decisions of a real enforcer (default configuration) whose policy file holds file_map"""
    d = os.path.join(tmp, 'enf')
    shutil.rmtree(d, ignore_errors=True)
    os.makedirs(os.path.join(d, 'policy.d'))
    with open(os.path.join(d, 'policy.yaml'), 'w') as fh:
        fh.write(json.dumps(file_map))
    for fn, m in (dir_files or {}).items():
        with open(os.path.join(d, 'policy.d', fn), 'w') as fh:
            fh.write(json.dumps(m))
    conf = cfg.ConfigOpts()
    conf(args=['--config-dir', d], project='opverif18', default_config_files=[])
    opts._register(conf)
    e = policy.Enforcer(conf)
    e.suppress_deprecation_warnings = True
    e.register_defaults(mk_defaults(regs))
    return fsharness.decisions(e, names, CREDS), e, conf


_DEFER = []


def _flush(rep):
    if not _DEFER:
        return
    for (rq, suite, case, real), ans in zip(_DEFER, driver.call([d[0] for d in _DEFER])):
        model = sorted(ans['names']) if 'names' in ans else {k: v for k, v in ans['out']}
        if model != real:
            rep.disagree(suite, case, model, real)
    del _DEFER[:]


def run(ctx, rep):
    tmp = fsharness.scratch('opverif-c18-')
    saved = (generator.get_policies_dict, generator._get_enforcer)
    try:
        _upgrade(ctx, rep, tmp)
        _convert(ctx, rep, tmp)
        _generate_and_redundant(ctx, rep, tmp)
        _flush(rep)
    finally:
        del _DEFER[:]
        generator.get_policies_dict, generator._get_enforcer = saved
        shutil.rmtree(tmp, ignore_errors=True)


def _mregs(regs):
    return [{'name': r['name'], 'check_str': r['check_str'], 'deprecated': list(r['deprecated']) if r.get('deprecated') else None}
            for r in regs]


def _surviving(regs, file_map):
    old_names = {r['deprecated'][0] for r in regs if r.get('deprecated') and r['deprecated'][0] != r['name']}
    return [r['name'] for r in regs] + [n for n in file_map if n not in old_names and n not in [r['name'] for r in regs]]


def _upgrade(ctx, rep, tmp):
    N = ctx.n(300, 10000)
    pend = []
    for _ in range(N):
        kind, regs = default_sets(ctx.rng)
        fm = policy_file(ctx.rng, regs)
        names = _surviving(regs, fm)
        before, _, _ = decisions_under(tmp, regs, fm, names)
        generator.get_policies_dict = lambda ns, regs=regs: {'ns': mk_defaults(regs)}
        src = os.path.join(tmp, 'in.yaml')
        out = os.path.join(tmp, 'out.yaml')
        fmt = ctx.rng.choice(['yaml', 'json'])
        with open(src, 'w') as fh:
            fh.write(yaml.safe_dump(fm) if ctx.rng.random() < 0.5 else json.dumps(fm))
        key = 'c18upgrade:%s|%r|%r' % (kind, sorted(fm.items(), key=lambda kv: kv[0]), [(r['name'], r.get('deprecated')) for r in regs])
        conf = cfg.ConfigOpts()
        try:
            with warnings.catch_warnings():
                warnings.simplefilter('ignore')
                generator.upgrade_policy(args=['--policy', src, '--namespace', 'ns', '--output-file', out, '--format', fmt], conf=conf)
            with open(out) as fh:
                res = policy.parse_file_contents(fh.read())
        except (Exception, SystemExit) as e:     # noqa
            rep.fail(key, 'oslopolicy-policy-upgrade does not complete on policy file %r with defaults %r: %s: %s'
                     % (fm, regs, type(e).__name__, e), {'file': fm, 'regs': regs})
            continue
        after, _, _ = decisions_under(tmp, regs, res, names)
        if after != before:
            i = [k for k in range(len(after)) if after[k] != before[k]][0]
            rep.fail(key, 'oslopolicy-policy-upgrade changes a decision: policy %r -> %r (defaults %r): %s decides %s before and '
                     '%s after for roles %r' % (fm, res, regs, names[i // len(CREDS)], before[i], after[i], CREDS[i % len(CREDS)]['roles']),
                     {'file': fm, 'output': res, 'regs': regs})
        pend.append((key, fm, regs, res))
        rep.stat('upgrade:' + kind)
        rep.case(key=key, nontrivial=any(r.get('deprecated') and r['deprecated'][0] in fm for r in regs), n=len(before),
                 sample={'file': fm, 'output': res} if kind == 'split' else None)
    # model
    reqs = [{'op': 'tool_upgrade', 'file': [[k, driver.enc(v)] for k, v in fm.items()], 'regs': _mregs(regs)}
            for _, fm, regs, _ in pend]
    for (key, fm, regs, res), ans in zip(pend, driver.call(reqs)):
        mo = {k: v for k, v in ans['out']}
        ro = {k: str(v) for k, v in res.items()}
        if mo != ro:
            rep.disagree('tool-upgrade', {'file': fm, 'regs': regs}, mo, ro)
    rep.rules.append('%d policy files (string and list-of-lists values; registered, deprecated or unknown names; a deprecated name '
                     'never together with a successor and never referenced through rule:) x default sets (plain, renamed one-to-one, '
                     'one deprecated name split into 2-3, changed default under the same name, mixed) through the real '
                     'upgrade_policy entry point (YAML or JSON in/out): decisions of real enforcers on input vs output for every '
                     'surviving name x 8 role sets' % N)


def _convert(ctx, rep, tmp):
    N = ctx.n(250, 8000)
    for _ in range(N):
        kind, regs = default_sets(ctx.rng)
        fm = policy_file(ctx.rng, regs)
        names = _surviving(regs, fm) + [n for n in fm]
        names = sorted(set(names))
        before, _, _ = decisions_under(tmp, regs, fm, names)
        generator.get_policies_dict = lambda ns, regs=regs: {'ns': mk_defaults(regs)}
        src = os.path.join(tmp, 'in.json')
        out = os.path.join(tmp, 'out.yaml')
        with open(src, 'w') as fh:
            fh.write(json.dumps(fm))
        key = 'c18convert:%s|%r' % (kind, sorted(fm.items(), key=lambda kv: kv[0]))
        try:
            with warnings.catch_warnings():
                warnings.simplefilter('ignore')
                # the command as an operator runs it (every other case: the function behind it)
                if (len(fm) + len(regs)) % 2 == 0:
                    generator.convert_policy_json_to_yaml(
                        args=['--namespace', 'ns', '--policy-file', src, '--output-file', out], conf=cfg.ConfigOpts())
                    rep.stat('convert_via_cli_entry')
                else:
                    generator._convert_policy_json_to_yaml(['ns'], src, out)
            with open(out) as fh:
                res = policy.parse_file_contents(fh.read())
        except (Exception, SystemExit) as e:     # noqa
            rep.fail(key, 'oslopolicy-convert-json-to-yaml output for %r is not a loadable policy file: %s: %s'
                     % (fm, type(e).__name__, str(e)[:200]), {'file': fm, 'regs': regs})
            continue
        _DEFER.append(({'op': 'tool_convert', 'file': [[k, driver.enc(v)] for k, v in fm.items()], 'regs': _mregs(regs)},
                       'tool-convert', {'file': fm, 'regs': regs}, {k: str(v) for k, v in res.items()}))
        after, _, _ = decisions_under(tmp, regs, res, names)
        if after != before:
            i = [k for k in range(len(after)) if after[k] != before[k]][0]
            rep.fail(key, 'oslopolicy-convert-json-to-yaml changes a decision: policy %r -> %r: %s decides %s before, %s after '
                     '(roles %r)' % (fm, res, names[i // len(CREDS)], before[i], after[i], CREDS[i % len(CREDS)]['roles']),
                     {'file': fm, 'output': res, 'regs': regs})
        rep.stat('convert:' + kind)
        rep.case(key=key, nontrivial=bool(fm), n=len(before), sample={'file': fm, 'output': res} if len(fm) >= 3 else None)
    rep.rules.append('%d such files through _convert_policy_json_to_yaml: same comparison for every name' % N)


def _generate_and_redundant(ctx, rep, tmp):
    N = ctx.n(200, 6000)
    for _ in range(N):
        kind, regs = default_sets(ctx.rng)
        regs = [r for r in regs]
        # main file and directory overrides: each name in at most one file; no override under a deprecated name
        names = [r['name'] for r in regs] + ['extra:x']
        main, dfile = {}, {}
        for n in names:
            if n == 'helper':
                continue
            r = ctx.rng.random()
            reg = next((x for x in regs if x['name'] == n), None)
            variant = None
            if reg and ctx.rng.random() < 0.4:
                # a textual variant of the default: same rule, different spelling
                variant = ctx.rng.choice(['( %s )' % reg['check_str'] if reg['check_str'] else '@',
                                          reg['check_str'].replace(' and ', ' AND ').replace(' or ', '  or '), reg['check_str']])
            val = variant if variant is not None else ctx.rng.choice(STR_VALUES + LIST_VALUES)
            if r < 0.3:
                main[n] = val
            elif r < 0.5:
                dfile[n] = val
        all_names = sorted(set(names))
        before, enf, conf = decisions_under(tmp, regs, main, all_names, {'o.yaml': dfile} if dfile else None)
        generator._get_enforcer = lambda ns, enf=enf: enf
        key = 'c18gen:%s|%r|%r' % (kind, sorted(main.items(), key=str), sorted(dfile.items(), key=str))
        out = os.path.join(tmp, 'gen.yaml')
        try:
            with warnings.catch_warnings():
                warnings.simplefilter('ignore')
                if (len(main) + len(dfile)) % 2 == 0:
                    cfg.CONF.reset()
                    generator.generate_policy(args=['--namespace', 'ns', '--output-file', out])
                    rep.stat('generate_via_cli_entry')
                else:
                    generator._generate_policy('ns', out)
            with open(out) as fh:
                res = policy.parse_file_contents(fh.read())
        except (Exception, SystemExit) as e:     # noqa
            rep.fail(key, 'oslopolicy-policy-generator output for main file %r / policy.d %r is not a loadable policy file: %s: %s'
                     % (main, dfile, type(e).__name__, str(e)[:200]), {'main': main, 'dir': dfile, 'regs': regs})
            res = None
        merged = dict(main)
        merged.update(dfile)
        if res is not None:
            _DEFER.append(({'op': 'tool_generate', 'file': [[k, driver.enc(v)] for k, v in merged.items()], 'regs': _mregs(regs)},
                           'tool-generate', {'main': main, 'dir': dfile, 'regs': regs}, {k: str(v) for k, v in res.items()}))
            after, _, _ = decisions_under(tmp, regs, res, all_names)
            if after != before:
                i = [k for k in range(len(after)) if after[k] != before[k]][0]
                rep.fail(key, 'the policy file written by oslopolicy-policy-generator decides differently: %s is %s under the '
                         'operator\'s files (%r + %r) and %s under the generated file %r (roles %r)'
                         % (all_names[i // len(CREDS)], before[i], main, dfile, after[i], res, CREDS[i % len(CREDS)]['roles']),
                         {'main': main, 'dir': dfile, 'regs': regs, 'output': res})
        # redundancy list: every reported rule can be deleted without changing a decision
        before2, enf2, _ = decisions_under(tmp, regs, main, all_names, {'o.yaml': dfile} if dfile else None)
        generator._get_enforcer = lambda ns, enf2=enf2: enf2
        buf = io.StringIO()
        try:
            with contextlib.redirect_stdout(buf), warnings.catch_warnings():
                warnings.simplefilter('ignore')
                if (len(main) + len(dfile)) % 2 == 0:
                    cfg.CONF.reset()
                    generator.list_redundant(args=['--namespace', 'ns'])
                    rep.stat('redundant_via_cli_entry')
                else:
                    generator._list_redundant('ns')
        except (Exception, SystemExit) as e:     # noqa
            rep.fail(key + '|redundant', 'oslopolicy-list-redundant fails for files %r + %r: %s: %s'
                     % (main, dfile, type(e).__name__, str(e)[:200]), {'main': main, 'dir': dfile, 'regs': regs})
            continue
        reported = []
        for ln in buf.getvalue().splitlines():
            if ln.startswith('"'):
                reported.append(ln.split('"')[1])
        _DEFER.append(({'op': 'tool_redundant', 'file': [[k, driver.enc(v)] for k, v in merged.items()], 'regs': _mregs(regs)},
                       'tool-redundant', {'main': main, 'dir': dfile, 'regs': regs}, sorted(reported)))
        for n in reported:
            m2 = {k: v for k, v in main.items() if k != n}
            d2 = {k: v for k, v in dfile.items() if k != n}
            after2, _, _ = decisions_under(tmp, regs, m2, all_names, {'o.yaml': d2} if dfile else None)
            if after2 != before2:
                rep.fail(key + '|redundant:' + n, 'oslopolicy-list-redundant reports %s, but deleting it changes a decision '
                         '(files %r + %r)' % (n, main, dfile), {'main': main, 'dir': dfile, 'regs': regs, 'reported': n})
        # model of the redundancy list
        rep.extra.setdefault('redundant_reported', 0)
        rep.extra['redundant_reported'] += len(reported)
        rep.stat('generate:' + kind)
        rep.case(key=key, nontrivial=bool(main or dfile), n=len(before), sample={'main': main, 'dir': dfile, 'redundant': reported}
                 if reported else None)
    rep.rules.append('%d enforcers with a main file and a policy.d override (each name in at most one file; values spelled as textual '
                     'variants of the default or as different rules, strings and list-of-lists; no override under a deprecated name) '
                     'through _generate_policy (decisions under the generated file vs the operator\'s files) and _list_redundant '
                     '(each reported rule deleted, decisions compared)' % N)


def replay(ctx, rep, data):
    run(ctx, rep)
