"""C08 — scope types gate a policy independently of its check string."""
import itertools

from oslo_context import context as oslo_context
from oslo_policy import _parser, policy

from .. import driver, impl, scenario

META = {'assumptions': ["RequestContext.to_policy_values() (oslo.context) supplies the credential mapping: the three "
                        "representations are compared on the real code only"]}

SCOPES = ['system', 'domain', 'project']


def scope_lists():
    out = [None, []]
    for n in (1, 2, 3):
        out.extend(list(p) for p in itertools.permutations(SCOPES, n))
    return out


def creds_variants():
    """(label, dict creds, RequestContext kwargs) for the 8 presence combinations x system spelling."""
    out = []
    for sysv, dom, proj in itertools.product([False, True], repeat=3):
        for spelling in (('system', 'system_scope', 'system_scope+None', 'system_scope+empty') if sysv else ('-',)):
            d = {'roles': ['r0'], 'user_id': 'u'}
            kw = {'roles': ['r0'], 'user_id': 'u'}
            if sysv:
                d[spelling.split('+')[0]] = 'all'
                if '+' in spelling:
                    # a `system` key that is present but empty next to `system_scope` (seeded change C08-A8: setdefault)
                    d['system'] = None if spelling.endswith('None') else ''
                kw['system_scope'] = 'all'
            if dom:
                d['domain_id'] = 'dom'
                kw['domain_id'] = 'dom'
            if proj:
                d['project_id'] = 'proj'
                kw['project_id'] = 'proj'
            out.append(('%s%s%s/%s' % ('S' if sysv else '-', 'D' if dom else '-', 'P' if proj else '-', spelling), d, kw))
    return out


def expected_scope(d):
    if d.get('system') or d.get('system_scope'):
        return 'system'
    if d.get('domain_id'):
        return 'domain'
    return 'project'


def run(ctx, rep):
    rows = 0
    scs = []
    meta = []
    for st in scope_lists():
        for label, d, kw in creds_variants():
            for es in (True, False):
                for allow in (True, False):
                    for overridden in (False, True):
                        for by_name in (True, False):
                            # registered default p carries the scope types; the rule store holds either the default's
                            # check or an operator override that says the opposite of nothing relevant
                            body = ('role:r0' if allow else 'role:zz')
                            if overridden:
                                body = '(%s) and @' % body     # a different check string, same decision
                            rule = 'p' if by_name else {'check': body, 'scope': st}
                            qs = [{'rule': rule, 'target': {}, 'creds': d, 'do_raise': dr} for dr in (False, True)]
                            scs.append({'rules': {'p': body, 'other': '@'}, 'registered': [('p', st)] if by_name else [],
                                        'enforce_scope': es, 'queries': qs})
                            meta.append((st, label, d, kw, es, allow, overridden, by_name))
    rep.rules.append('the complete table: %d scope-type lists (none, empty, every non-empty subset in every order) x 12 '
                     'credential combinations (system/domain/project presence, both spellings of the system scope) x '
                     'enforce_scope x check allows/denies x policy-file override or not x rule by name or check object x '
                     'do_raise; each row also through a RequestContext and its policy-values mapping (%d rows)' % (len(scope_lists()), len(scs) * 2))
    idx = [0]

    def check(sc, outs):
        st, label, d, kw, es, allow, overridden, by_name = meta[idx[0]]
        idx[0] += 1
        ts = expected_scope(d)
        mismatch = bool(st) and ts not in st and es
        for dr, got in zip((False, True), outs):
            if mismatch:
                want = 'raise:InvalidScope' if dr else 'deny'
            elif allow:
                want = 'allow'
            else:
                want = ('raise:PolicyNotAuthorized' if dr else 'deny')
            ok = got == want or (want == 'raise:PolicyNotAuthorized' and got.startswith(want))
            if not ok:
                rep.fail('c08:%r|%s|es=%s|allow=%s|ovr=%s|name=%s|dr=%s' % (st, label, es, allow, overridden, by_name, dr),
                         'scope types %r, credentials %r (token scope %s), enforce_scope=%s, check %s, do_raise=%s: got %s, '
                         'expected %s' % (st, d, ts, es, 'allows' if allow else 'denies', dr, got, want),
                         {'scenario': sc, 'creds': d})
        # other representations of the same credentials (real code only)
        ctxobj = oslo_context.RequestContext(**kw)
        reps = [('context', ctxobj), ('policy_values', ctxobj.to_policy_values())]
        if d.get('system'):
            # the legacy spelling on a policy-values mapping: built without a system scope, `system` assigned afterwards
            kw2 = {k: v for k, v in kw.items() if k != 'system_scope'}
            pv = oslo_context.RequestContext(**kw2).to_policy_values()
            pv['system'] = d['system']
            reps.append(('policy_values+system', pv))
        for rep_name, creds in reps:
            sc2 = dict(sc, queries=[dict(q, creds=creds) for q in sc['queries']])
            outs2 = _impl_with_creds(sc2)
            if outs2 != outs:
                rep.fail('c08rep:%s|%r|%s' % (rep_name, st, label),
                         'credentials as %s decide %r, the equivalent dict decides %r (scope types %r, %s)'
                         % (rep_name, outs2, outs, st, label), {'scenario': sc, 'ctx_kwargs': kw})
        rep.stat('mismatch' if mismatch else 'gate_open')
        rep.case(key=repr(meta[idx[0] - 1][:2] + meta[idx[0] - 1][4:]), nontrivial=True, n=6,
                 sample={'scope_types': st, 'creds': d, 'enforce_scope': es, 'outcomes': outs} if mismatch and by_name else None)
    scenario.run_all(rep, scs, 'scope', check)
    rep.extra['exhaustive'] = True
    _from_files(ctx, rep)


def _from_files(ctx, rep):
    """The same gate when the override really comes from the policy file or a policy directory (a file rule carries no
    scope types: they always come from the registered default)."""
    from .. import fsharness
    n = 0
    for st in (['system'], ['project'], ['domain', 'project'], ['system', 'domain']):
        for where in ('none', 'main', 'dir', 'both'):
            for override in ('@', 'role:r0'):
                regs = [{'name': 'p', 'check_str': 'role:r0', 'scope_types': st}, {'name': 'q', 'check_str': '@', 'scope_types': None}]
                w = fsharness.World(regs=regs)
                try:
                    main = {'unrelated': '!'}
                    if where in ('main', 'both'):
                        main['p'] = override
                    w.write((None, None), main, 2, record=False)
                    if where in ('dir', 'both'):
                        w.write((0, 'o.yaml'), {'p': override}, 3, record=False)
                    e = w.new_enforcer()
                    for label, d, kw in creds_variants():
                        ts = expected_scope(d)
                        for dr in (False, True):
                            got = impl.outcome(lambda: e.enforce('p', {}, dict(d), do_raise=dr))
                            if ts not in st:
                                want = 'raise:InvalidScope' if dr else 'deny'
                            else:
                                want = 'allow'        # the credentials hold r0; '@' allows anyway
                            if got != want:
                                rep.fail('c08file:%r|%s|%s|%s|dr=%s' % (st, where, override, label, dr),
                                         'registered scope types %r, policy overridden (%s) with %r, credentials %r (token scope %s), '
                                         'do_raise=%s: got %s, expected %s' % (st, where, override, d, ts, dr, got, want),
                                         {'scope_types': st, 'override_in': where, 'override': override, 'creds': d})
                            n += 1
                    rep.stat('file_override:' + where)
                    rep.case(key='file%r%s%s' % (st, where, override), nontrivial=True)
                finally:
                    w.close()
    rep.rules.append('%d enforce calls on enforcers that load a real policy file / policy.d file overriding (or not) a registered '
                     'default with scope types' % n)


def _impl_with_creds(sc):
    """scenario.impl_run deep-copies credentials; a RequestContext / policy-values mapping is passed as is."""
    conf = scenario._conf(sc.get('enforce_scope', True), None)
    e = policy.Enforcer(conf, use_conf=False)
    impl.install_rules(e, sc['rules'])
    for name, st in sc.get('registered', []):
        e.register_default(policy.RuleDefault(name, '!', scope_types=st))
    outs = []
    for q in sc['queries']:
        rule = q['rule']
        if isinstance(rule, dict):
            chk = _parser.parse_rule(rule['check'])
            if rule.get('scope') is not None:
                chk.scope_types = rule['scope']
            rule = chk
        outs.append(impl.outcome(lambda: e.enforce(rule, {}, q['creds'], do_raise=bool(q.get('do_raise')))))
    return outs


def replay(ctx, rep, data):
    run(ctx, rep)
