"""C16 — a remote http(s) check allows only on an explicit True from the server."""
import copy
import json
import os

import requests
from oslo_policy import _external, policy

from .. import driver, fsharness, gen, impl, scenario
from . import common

META = {'assumptions': ['transport, TLS and the JSON/form encoders are requests / oslo.serialization: requests.post is replaced '
                        'by a recording stub; the model takes its result as a value']}

BODIES = ['"\\u0054rue"', ' "True"', '"True"\n', '\t"True" ', 'true\n', ' true', 'True', 'true', 'TRUE', 'False', '"True"', '""True""', '"True', 'True"', "'True'", ' True', 'True ', 'True\n',
          '\tTrue', '"True"\n', '', '"', '""', 'Truee', 'TTrue', 'Tru', 'true"', '"true"', '1', 'yes', 'null', '{"result": true}',
          '[true]', 'True True', '"Tr"ue"', 'T' * 5000, '\x00True', 'Trué', '"""True"""', '"True""""']


class FakeResp:
    def __init__(self, text, status):
        self.text = text
        self.status_code = status

    def close(self):
        pass


class Stub:
    def __init__(self):
        self.calls = []
        self.plan = {}

    def __call__(self, url, **kw):
        self.calls.append((url, kw))
        p = self.plan.get(url, ('body', '', 200))
        if p[0] == 'timeout':
            raise requests.exceptions.Timeout('t')
        if p[0] == 'transport':
            raise requests.exceptions.ConnectionError('c')
        return FakeResp(p[1], p[2])


def run(ctx, rep):
    stub = Stub()
    orig = _external.requests.post
    _external.requests.post = stub
    tmp = fsharness.scratch('opverif-c16-')
    try:
        _replies(ctx, rep, stub)
        _payload(ctx, rep, stub)
        _tls(ctx, rep, stub, tmp)
    finally:
        _external.requests.post = orig
        import shutil
        shutil.rmtree(tmp, ignore_errors=True)


def _replies(ctx, rep, stub):
    scs, metas = [], []
    bodies = list(BODIES)
    # one extra character in front of / behind the accepted form (what is stripped is double quotes, nothing else)
    for ch in 'xTe\'1{[-':
        bodies += [ch + 'True', 'True' + ch, ch + '"True"', '"True"' + ch, '"' + ch + 'True"']
    for _ in range(ctx.n(300, 20000)):
        n = ctx.rng.randint(0, 8)
        bodies.append(''.join(ctx.rng.choice('"True\' \n\ttrueTRUE1') for _ in range(n)))
        q1, q2 = '"' * ctx.rng.randint(0, 3), '"' * ctx.rng.randint(0, 3)
        bodies.append(q1 + ctx.rng.choice(['True', 'True', 'true', 'Tru e']) + q2)
    statuses = [200, 201, 204, 301, 400, 401, 403, 404, 500, 503]
    for body in bodies:
        for kind in ('http', 'https'):
            status = ctx.rng.choice(statuses)
            url_rule = '%s://h.example/%%(tk)s/check' % kind
            url = '%s://h.example/tv/check' % kind
            # the check at some depth of an expression, under some policy name
            wrap = ctx.rng.choice(['%s', 'role:nobody or %s', 'not not %s', '(role:r0 and %s)', 'rule:inner'])
            rules = {'outer': wrap % url_rule if wrap != 'rule:inner' else 'rule:inner', 'inner': url_rule}
            for ctype in ('application/x-www-form-urlencoded', 'application/json'):
                scs.append({'rules': rules, 'queries': [{'rule': 'outer', 'target': {'tk': 'tv'},
                                                         'creds': {'roles': ['r0'], 'tk': 'from-the-credentials'}}],
                            'remote': {url: {'body': body, 'status': status}}, 'content_type': ctype})
                metas.append((body, status, url, 'body'))
    for fault in ('timeout', 'transport'):
        for kind in ('http', 'https'):
            url = '%s://h.example/tv/check' % kind
            scs.append({'rules': {'outer': '%s://h.example/%%(tk)s/check' % kind},
                        'queries': [{'rule': 'outer', 'target': {'tk': 'tv'}, 'creds': {'roles': []}}],
                        'remote': {url: fault}})
            metas.append(('', 0, url, fault))
    # a fault below a rule: reference (alone, under not, inside and), then a normal reply through the same reference: the
    # fault raises, and the next evaluation must look at the new reply
    for fault in ('timeout', 'transport'):
        for kind in ('http', 'https'):
            for wrap in ('rule:inner', 'not rule:inner', 'role:r0 and rule:inner', 'rule:mid'):
                url = '%s://h.example/tv/check' % kind
                rules = {'outer': wrap, 'mid': 'rule:inner or role:nobody', 'inner': '%s://h.example/%%(tk)s/check' % kind}
                q = [{'rule': 'outer', 'target': {'tk': 'tv'}, 'creds': {'roles': ['r0']}}]
                scs.append({'rules': rules, 'queries': q, 'remote': {url: fault}})
                metas.append(('', 0, url, fault))
                for body in ('True', 'False'):
                    scs.append({'rules': rules, 'queries': q, 'remote': {url: {'body': body, 'status': 200}}})
                    metas.append((body, 200, url, 'body-neg' if wrap.startswith('not') else 'body'))
    it = iter(metas)

    def check(sc, outs):
        body, status, url, mode = next(it)
        stripped = body.lstrip('"').rstrip('"')
        if mode == 'body':
            want = 'allow' if stripped == 'True' else 'deny'
        elif mode == 'body-neg':
            want = 'deny' if stripped == 'True' else 'allow'
        elif mode == 'timeout':
            want = 'raise:RuntimeError'
        else:
            want = 'raise:ConnectionError'
        got = outs[0]
        if got != want:
            rep.fail('c16:%s:%r' % (mode, body[:40]), 'remote reply %r (status %s, %s): decision %s, expected %s'
                     % (body[:60], status, mode, got, want), {'body': body, 'status': status, 'mode': mode})
        rep.stat('reply:' + want)
        rep.case(key=(body, url[:5], mode), nontrivial=True, sample={'body': body[:40], 'status': status, 'decision': got}
                 if want == 'allow' and body != 'True' else None)

    # the stub's plan must be in place while the implementation runs: wrap impl_run
    real_impl_run = scenario.impl_run

    def impl_run(sc):
        stub.plan = {u: (('body', v['body'], v['status']) if isinstance(v, dict) else (v,)) for u, v in sc['remote'].items()}
        return real_impl_run(sc)
    scenario.impl_run = impl_run
    try:
        answers = driver.call([scenario.model_request(sc) for sc in scs])
        for sc, ans in zip(scs, answers):
            io = scenario.impl_run(sc)
            mo = [o if o != 'raise:Transport' else 'raise:ConnectionError' for o in ans['out']]
            if io != mo:
                rep.disagree('http', {'rules': sc['rules'], 'remote': {k: (str(v)[:80]) for k, v in sc['remote'].items()}}, mo, io)
            check(sc, io)
    finally:
        scenario.impl_run = real_impl_run
    rep.rules.append('%d reply bodies around the accepted form (True/true/TRUE, quotes on either side, whitespace, JSON true, '
                     'empty, long, binary-ish, JSON spellings, random strings over that alphabet) x http/https x both content types x random status codes, the '
                     'check placed plain, under or/not/and and behind an alias; injected Timeout and ConnectionError' % len(bodies))


def _snap(v):
    """Deep structural snapshot of a target value; opaque objects by identity."""
    if isinstance(v, dict):
        return ('dict', id(v), sorted((repr(k), _snap(x)) for k, x in v.items()))
    if isinstance(v, (list, tuple, set, frozenset)):
        return (type(v).__name__, id(v), [_snap(x) for x in (v if isinstance(v, (list, tuple)) else sorted(v, key=repr))])
    if type(v) is object:
        return ('opaque', id(v))
    return (type(v).__name__, repr(v))


def _payload(ctx, rep, stub):
    """What is sent: URL with placeholders filled, enforced policy name, complete target, credentials, encoding; and the
    caller's target is left unmodified."""
    n = 0
    for ctype in ('application/x-www-form-urlencoded', 'application/json'):
        for depth_rule in ('http://h/%(tk)s', 'role:zz or http://h/%(tk)s', 'rule:deep'):
            for target in ({'tk': 'tv'}, {'tk': 'tv', 'nested': {'a': [1, {'b': None}]}, 'n': 5},
                           {'tk': 'tv', 'obj': object(), 'lst': [object.__new__(object)]},
                           # an opaque object below the top level (seeded change C16-A7: shallow copy + in-place blanking)
                           {'tk': 'tv', 'meta': {'handle': object(), 'n': 1, 'more': {'h2': object()}}, 'top': object()},
                           {'tk': 'tv', 'ids': ('p1', 'p2'), 'flag': True, 'ratio': 1.5, 'none': None, 'empty': [], 'u': 'é'}):
                if any(isinstance(x, list) and x and type(x[0]) is object for x in target.values()):
                    target = {k: v for k, v in target.items() if k != 'lst'}
                conf = impl.new_conf()
                conf.set_override('remote_content_type', ctype, group='oslo_policy')
                e = policy.Enforcer(conf, use_conf=False)
                e.set_rules(policy.Rules.from_dict({'p:name': depth_rule, 'deep': 'not not http://h/%(tk)s'}), use_conf=False)
                creds = {'roles': ['r'], 'user_id': 'u', 'nested': {'x': [1, 2]}, 'tk': 'value-from-the-credentials'}
                stub.calls = []
                stub.plan = {'http://h/tv': ('body', 'True', 200)}
                before = dict(target)
                before_ids = {k: id(v) for k, v in target.items()}
                before_deep = _snap(target)
                nested_opaque = 'meta' in target
                out = impl.outcome(lambda: e.enforce('p:name', target, creds))
                key = 'c16pay:%s|%s|%s' % (ctype, depth_rule, sorted(before))
                if target != before or {k: id(v) for k, v in target.items()} != before_ids or _snap(target) != before_deep:
                    rep.fail(key, 'the caller\'s target was modified by the http check: %r -> %r' % (before, target), {})
                if nested_opaque and out == 'raise:ValueError' and not stub.calls and ctype.endswith('urlencoded'):
                    # unchanged tree: only top-level opaque objects are blanked; one inside a nested container cannot be
                    # serialised for the form encoding, no request is sent and enforce raises (never an allow) — observed,
                    # see DESIGN section 14 round 7.  The target must still be unmodified (checked above).
                    rep.stat('payload:nested-opaque-not-serialisable')
                elif out != 'allow' or len(stub.calls) != 1:
                    rep.fail(key, 'http check: outcome %s, %d request(s) sent' % (out, len(stub.calls)), {})
                else:
                    url, kw = stub.calls[0]
                    exp_target = {k: ({} if type(v) is object else v) for k, v in before.items()}
                    if ctype == 'application/json':
                        sent = kw.get('json') or {}
                        ok = (kw.get('data') is None and sent.get('rule') == 'p:name' and sent.get('target') == exp_target
                              and sent.get('credentials') == creds)
                    else:
                        sent = kw.get('data') or {}
                        try:
                            ok = (kw.get('json') is None and json.loads(sent['rule']) == 'p:name' and
                                  json.loads(sent['target']) == json.loads(json.dumps(exp_target)) and
                                  json.loads(sent['credentials']) == creds)
                        except Exception:
                            ok = False
                    if nested_opaque:
                        # how a nested opaque object is serialised is not part of the property; the top-level one is blanked
                        tsent = sent.get('target')
                        tsent = json.loads(tsent) if isinstance(tsent, str) else (tsent or {})
                        ok = tsent.get('top') == {} and tsent.get('tk') == 'tv' and 'meta' in tsent
                    if url != 'http://h/tv' or not ok:
                        rep.fail(key, 'request to %r carries %r; expected URL http://h/tv with rule p:name, the complete target '
                                 'and the credentials (%s)' % (url, {k: str(v)[:120] for k, v in kw.items()}, ctype), {})
                    if kw.get('timeout') != conf.oslo_policy.remote_timeout:
                        rep.fail(key + '|timeout', 'request timeout %r, configured %r' % (kw.get('timeout'), conf.oslo_policy.remote_timeout), {})
                rep.stat('payload:' + ctype.split('/')[1])
                rep.case(key=key, nontrivial=True)
                n += 1
    rep.rules.append('%d payload probes: both content types x check plain / under or / behind an alias under a policy name '
                     'containing a colon x targets with nested values and opaque objects (deep-compared before/after)' % n)


def _tls(ctx, rep, stub, tmp):
    good = os.path.join(tmp, 'ok.pem')
    with open(good, 'w') as fh:
        fh.write('x')
    missing = os.path.join(tmp, 'missing.pem')
    n = 0
    for cert in (None, good, missing):
        for key in (None, good, missing):
            for verify in (False, True):
                for ca in (None, good, missing):
                    conf = impl.new_conf()
                    for opt, v in (('remote_ssl_client_crt_file', cert), ('remote_ssl_client_key_file', key),
                                   ('remote_ssl_ca_crt_file', ca)):
                        if v:
                            conf.set_override(opt, v, group='oslo_policy')
                    conf.set_override('remote_ssl_verify_server_crt', verify, group='oslo_policy')
                    e = policy.Enforcer(conf, use_conf=False)
                    e.set_rules(policy.Rules.from_dict({'p': 'https://h/x'}), use_conf=False)
                    stub.calls = []
                    stub.plan = {'https://h/x': ('body', 'True', 200)}
                    out = impl.outcome(lambda: e.enforce('p', {}, {}))
                    bad = cert == missing or key == missing or (verify and ca == missing)
                    want = 'raise:RuntimeError' if bad else 'allow'
                    k = 'c16tls:%s|%s|%s|%s' % (cert and os.path.basename(cert), key and os.path.basename(key), verify,
                                                ca and os.path.basename(ca))
                    if out != want or (bad and stub.calls):
                        rep.fail(k, 'https check with TLS files %s: outcome %s, expected %s; %d request(s) sent'
                                 % (k, out, want, len(stub.calls)), {})
                    elif not bad:
                        kw = stub.calls[0][1]
                        if kw.get('cert') != (cert, key) or kw.get('verify') != (ca if (verify and ca) else verify):
                            rep.fail(k, 'https request uses cert=%r verify=%r' % (kw.get('cert'), kw.get('verify')), {})
                        if kw.get('timeout') != conf.oslo_policy.remote_timeout:
                            rep.fail(k + '|timeout', 'https request timeout %r, configured %r' % (kw.get('timeout'), conf.oslo_policy.remote_timeout), {})
                    m = driver.call([dict(scenario.model_request({'rules': {'p': 'https://h/x'}, 'queries': [
                        {'rule': 'p', 'target': {}, 'creds': {}}], 'remote': {'https://h/x': {'body': 'True', 'status': 200}}}),
                        cert_ok=cert != missing, key_ok=key != missing, ca_ok=not (verify and ca == missing))])[0]['out'][0]
                    if m != out:
                        rep.disagree('https-tls', {'case': k}, m, out)
                    rep.stat('tls:' + want)
                    rep.case(key=k, nontrivial=True)
                    n += 1
    rep.rules.append('%d TLS-file configurations (client cert / key / CA file unset, present, missing x verify on/off)' % n)
    # a TLS file that comes and goes under the same path: every call must look at the file system as it is now
    m = 0
    for opt in ('remote_ssl_client_crt_file', 'remote_ssl_client_key_file', 'remote_ssl_ca_crt_file'):
        flap = os.path.join(tmp, 'flap-%s.pem' % opt)
        conf = impl.new_conf()
        conf.set_override(opt, flap, group='oslo_policy')
        conf.set_override('remote_ssl_verify_server_crt', True, group='oslo_policy')
        e = policy.Enforcer(conf, use_conf=False)
        e.set_rules(policy.Rules.from_dict({'p': 'https://h/x'}), use_conf=False)
        hist = []
        for present in (False, True, True, False, True, False, False):
            if present:
                with open(flap, 'w') as fh:
                    fh.write('x')
            elif os.path.exists(flap):
                os.unlink(flap)
            hist.append('present' if present else 'missing')
            for enf in (e, None):
                if enf is None:       # an enforcer created after the change
                    enf = policy.Enforcer(conf, use_conf=False)
                    enf.set_rules(policy.Rules.from_dict({'p': 'https://h/x'}), use_conf=False)
                stub.calls = []
                stub.plan = {'https://h/x': ('body', 'True', 200)}
                out = impl.outcome(lambda: enf.enforce('p', {}, {}))
                want = 'allow' if present else 'raise:RuntimeError'
                if out != want or (not present and stub.calls):
                    rep.fail('c16flap:%s|%s' % (opt, ','.join(hist)),
                             'https check, %s at one path over time [%s]: outcome %s, expected %s; %d request(s) sent'
                             % (opt, ', '.join(hist), out, want, len(stub.calls)), {'option': opt, 'history': list(hist)})
                m += 1
                rep.case(key='flap:%s:%d:%s' % (opt, len(hist), enf is e), nontrivial=True)
        if os.path.exists(flap):
            os.unlink(flap)
    rep.stat('tls_flapping_file_calls', m)
    rep.rules.append('%d https calls while the configured client cert / key / CA file appears and disappears under one path' % m)


def replay(ctx, rep, data):
    run(ctx, rep)
