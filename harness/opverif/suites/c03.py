"""C03 — unknown policy names fail closed; the default rule is the only fallback."""
import itertools

from .. import gen, scenario

META = {'assumptions': ['oslo.config resolves policy_default_rule (option default re-extracted every run)']}

NAMES = ['a', 'b', 'd']
BODIES = [None, '@', '!', 'role:r0', 'ref']       # 'ref' -> rule:<next name>
QUERY = ['a', 'b', 'd', 'zz', 'default']
CREDS = [{'roles': []}, {'roles': ['r0']}]


def oracle(rules, default, name, roles, depth=0):
    """The statement of C03, read literally. default: None | name | {'check': value}."""
    def ev(body, d):
        if d > 20:
            return None
        if body == '@':
            return True
        if body == '!':
            return False
        if body.startswith('not '):
            r = ev(body[4:], d)
            return None if r is None else (not r)
        if body.startswith('role:'):
            return body[5:] in roles
        if body.startswith('rule:'):
            return look(body[5:], d + 1)
        raise ValueError(body)

    def look(n, d):
        if n in rules:
            return ev(rules[n], d)
        if isinstance(default, dict):
            return ev(default['check'], d)
        if default and default in rules:
            return ev(rules[default], d)
        return False
    if not rules:
        return False
    return look(name, depth)


def acyclic(rules, default):
    def refs(n, seen):
        body = rules.get(n)
        if body is None:
            if isinstance(default, dict):
                body = default['check']
            elif default and default in rules:
                n, body = default, rules[default]
            else:
                return True
        if n in seen:
            return False
        if isinstance(body, str) and body.startswith('rule:'):
            return refs(body[5:], seen | {n})
        return True
    return all(refs(n, frozenset()) for n in list(rules) + QUERY)


def run(ctx, rep):
    scs = []
    defaults = [(None, None), ('d', None), ('zz', None), ({'check': '@'}, None), ({'check': 'role:r0'}, None),
                ({'check': '!'}, None), ('', None), (None, 'd'), (None, 'zz'), ('', 'd'), ('a', 'd'),
                (None, ''), ('', ''), ({'check': 'not role:r0'}, '')]
    for combo in itertools.product(range(len(BODIES)), repeat=len(NAMES)):
        rules = {}
        for i, (n, bi) in enumerate(zip(NAMES, combo)):
            b = BODIES[bi]
            if b is None:
                continue
            rules[n] = 'rule:' + NAMES[(i + 1) % len(NAMES)] if b == 'ref' else b
        for extra_default in (False, True):
            r2 = dict(rules)
            if extra_default:
                r2['default'] = 'role:r0'
            for d, dopt in defaults:
                sc = {'rules': r2, 'default': d, 'default_opt': dopt,
                      'queries': [{'rule': q, 'target': {}, 'creds': c} for q in QUERY for c in CREDS]}
                eff = scenario.effective_default(sc)
                if not acyclic(r2, eff):
                    rep.stat('cyclic_skipped')
                    continue
                sc['_eff'] = eff
                scs.append(sc)
    rep.rules.append('rule sets over names {a,b,d,default} x bodies {absent,@,!,role:r0,rule:<next>} (acyclic ones) x 14 ways '
                     'of configuring the default rule (unset, defined/undefined name, check object, empty string, via constructor '
                     'or policy_default_rule option) x 5 queried names x 2 role sets; %d scenarios (complete table)' % len(scs))

    def check(sc, outs):
        it = iter(outs)
        decs = []
        for q in QUERY:
            for c in CREDS:
                got = next(it)
                want = oracle(sc['rules'], sc['_eff'], q, c['roles'])
                decs.append(got)
                if got != ('allow' if want else 'deny'):
                    rep.fail('c03:%r|%r|%s' % (sorted(sc['rules'].items()), sc['_eff'], q),
                             'rules %r default %r: enforcing %r with roles %r gives %s, expected %s'
                             % (sc['rules'], sc['_eff'], q, c['roles'], got, 'allow' if want else 'deny'),
                             {'rules': sc['rules'], 'default': sc['default'], 'default_opt': sc['default_opt'],
                              'query': q, 'creds': c})
        rep.stat('default:%s' % ('check' if isinstance(sc['_eff'], dict) else
                                 ('defined' if sc['_eff'] in sc['rules'] else 'undefined')))
        rep.stat('empty_rules' if not sc['rules'] else 'nonempty_rules')
        rep.case(key=repr((sorted(sc['rules'].items()), repr(sc['default']), sc['default_opt'])),
                 nontrivial=len(set(decs)) > 1, n=len(outs),
                 sample={'rules': sc['rules'], 'default': sc['default'], 'default_opt': sc['default_opt']})
    scenario.run_all(rep, scs, 'store', check)


def replay(ctx, rep, data):
    run(ctx, rep)
