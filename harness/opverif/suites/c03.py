"""C03 — unknown policy names fail closed; the default rule is the only fallback."""
import itertools

from .. import gen, scenario

META = {'assumptions': ['oslo.config resolves policy_default_rule (option default re-extracted every run)']}

NAMES = ['a', 'b', 'd']
BODIES = [None, '@', '!', 'role:r0', 'ref']       # 'ref' -> rule:<next name>
QUERY = ['a', 'b', 'd', 'zz', 'default']
CREDS = [{'roles': []}, {'roles': ['r0']}]


def oracle(rules, default, name, roles, depth=0):
    """The statement of C03, read literally. default: None | name | {'check': value}."""
    def ev(body, d):
        if d > 20:
            return None
        if body == '@':
            return True
        if body == '!':
            return False
        if body.startswith('not '):
            r = ev(body[4:], d)
            return None if r is None else (not r)
        if body.startswith('role:'):
            return body[5:] in roles
        if body.startswith('rule:'):
            return look(body[5:], d + 1)
        raise ValueError(body)

    def look(n, d):
        if n in rules:
            return ev(rules[n], d)
        if isinstance(default, dict):
            return ev(default['check'], d)
        if default and default in rules:
            return ev(rules[default], d)
        return False
    if not rules:
        return False
    return look(name, depth)


def acyclic(rules, default):
    def refs(n, seen):
        body = rules.get(n)
        if body is None:
            if isinstance(default, dict):
                body = default['check']
            elif default and default in rules:
                n, body = default, rules[default]
            else:
                return True
        if n in seen:
            return False
        if isinstance(body, str) and body.startswith('rule:'):
            return refs(body[5:], seen | {n})
        return True
    return all(refs(n, frozenset()) for n in list(rules) + QUERY)


def run(ctx, rep):
    scs = []
    defaults = [(None, None), ('d', None), ('zz', None), ({'check': '@'}, None), ({'check': 'role:r0'}, None),
                ({'check': '!'}, None), ('', None), (None, 'd'), (None, 'zz'), ('', 'd'), ('a', 'd'),
                (None, ''), ('', ''), ({'check': 'not role:r0'}, '')]
    for combo in itertools.product(range(len(BODIES)), repeat=len(NAMES)):
        rules = {}
        for i, (n, bi) in enumerate(zip(NAMES, combo)):
            b = BODIES[bi]
            if b is None:
                continue
            rules[n] = 'rule:' + NAMES[(i + 1) % len(NAMES)] if b == 'ref' else b
        for extra_default in (False, True):
            r2 = dict(rules)
            if extra_default:
                r2['default'] = 'role:r0'
            for d, dopt in defaults:
                sc = {'rules': r2, 'default': d, 'default_opt': dopt,
                      'queries': [{'rule': q, 'target': {}, 'creds': c} for q in QUERY for c in CREDS]}
                eff = scenario.effective_default(sc)
                if not acyclic(r2, eff):
                    rep.stat('cyclic_skipped')
                    continue
                sc['_eff'] = eff
                scs.append(sc)
    rep.rules.append('rule sets over names {a,b,d,default} x bodies {absent,@,!,role:r0,rule:<next>} (acyclic ones) x 14 ways '
                     'of configuring the default rule (unset, defined/undefined name, check object, empty string, via constructor '
                     'or policy_default_rule option) x 5 queried names x 2 role sets; %d scenarios (complete table)' % len(scs))

    def check(sc, outs):
        it = iter(outs)
        decs = []
        for q in QUERY:
            for c in CREDS:
                got = next(it)
                want = oracle(sc['rules'], sc['_eff'], q, c['roles'])
                decs.append(got)
                if got != ('allow' if want else 'deny'):
                    rep.fail('c03:%r|%r|%s' % (sorted(sc['rules'].items()), sc['_eff'], q),
                             'rules %r default %r: enforcing %r with roles %r gives %s, expected %s'
                             % (sc['rules'], sc['_eff'], q, c['roles'], got, 'allow' if want else 'deny'),
                             {'rules': sc['rules'], 'default': sc['default'], 'default_opt': sc['default_opt'],
                              'query': q, 'creds': c})
        rep.stat('default:%s' % ('check' if isinstance(sc['_eff'], dict) else
                                 ('defined' if sc['_eff'] in sc['rules'] else 'undefined')))
        rep.stat('empty_rules' if not sc['rules'] else 'nonempty_rules')
        rep.case(key=repr((sorted(sc['rules'].items()), repr(sc['default']), sc['default_opt'])),
                 nontrivial=len(set(decs)) > 1, n=len(outs),
                 sample={'rules': sc['rules'], 'default': sc['default'], 'default_opt': sc['default_opt']})
    scenario.run_all(rep, scs, 'store', check)
    _registered_names(ctx, rep)


def _registered_names(ctx, rep):
    """A name defined by *registration* (plain, renamed from a deprecated name, or with a deprecated older check) is decided
    by its own definition, never by the default rule the policy file defines (seeded change C03-A8: the old name of a renamed
    policy looked up through the rule store, whose missing-key hook answered with the default rule)."""
    import os
    import shutil
    import tempfile
    import warnings
    from oslo_policy import policy
    from .. import impl
    tmp = tempfile.mkdtemp(prefix='c03reg')
    n = 0
    try:
        for dbody in ('@', '!', 'role:r0', '', 'not role:r1'):
            for extra in ({}, {'other': 'role:r2'}, {'old_q': 'role:r0'}):
                for enforce_new in (False, True):
                    path = os.path.join(tmp, 'policy.yaml')
                    file_rules = dict(extra, default=dbody)
                    with open(path, 'w') as fh:
                        fh.write(__import__('json').dumps(file_rules))
                    os.utime(path, (1000 + n, 1000 + n))
                    conf = impl.new_conf(enforce_new_defaults=enforce_new)
                    with warnings.catch_warnings():
                        warnings.simplefilter('ignore')
                        e = policy.Enforcer(conf, policy_file=path)
                        e.register_default(policy.RuleDefault('p', 'role:r1'))
                        e.register_default(policy.RuleDefault('q', 'role:r1', deprecated_rule=policy.DeprecatedRule(
                            'old_q', 'role:r2', deprecated_reason='renamed', deprecated_since='1')))
                        e.register_default(policy.RuleDefault('r', 'role:r1', deprecated_rule=policy.DeprecatedRule(
                            'r', 'role:r2', deprecated_reason='changed', deprecated_since='1')))
                    for roles in ([], ['r0'], ['r1'], ['r2'], ['r0', 'r2']):
                        for name in ('p', 'q', 'r', 'undefined-name'):
                            got = impl.outcome(lambda: e.enforce(name, {}, {'roles': roles}))
                            if name == 'undefined-name':
                                want = {'@': True, '!': False, 'role:r0': 'r0' in roles, '': True,
                                        'not role:r1': 'r1' not in roles}[dbody]
                            elif name == 'p':
                                want = 'r1' in roles
                            elif name == 'q' and 'old_q' in extra:
                                want = 'r0' in roles          # the operator's override of the old name governs (C11)
                            else:
                                want = 'r1' in roles or (not enforce_new and 'r2' in roles)
                            if got != ('allow' if want else 'deny'):
                                rep.fail('c03reg:%s|%s|%s|%s|%s' % (dbody, sorted(extra), enforce_new, name, roles),
                                         'policy file %r, registered p / q (renamed from old_q) / r (older check), '
                                         'enforce_new_defaults=%s: enforcing %r with roles %r gives %s, expected %s (a registered '
                                         'name is decided by its own definition, an unknown one by the default rule)'
                                         % (file_rules, enforce_new, name, roles, got, 'allow' if want else 'deny'),
                                         {'file': file_rules, 'enforce_new_defaults': enforce_new, 'name': name, 'roles': roles})
                            n += 1
                    rep.case(key='reg:%s|%s|%s' % (dbody, sorted(extra), enforce_new), nontrivial=True, n=20)
    finally:
        shutil.rmtree(tmp, ignore_errors=True)
    rep.rules.append('%d decisions on enforcers with REGISTERED defaults (plain, renamed from a deprecated name, deprecated older '
                     'check) whose policy file defines the default rule (5 bodies) and optionally an unrelated rule or the old '
                     'name, enforce_new_defaults on/off: registered names by their own definition, an unknown name by the '
                     'default rule' % n)


def replay(ctx, rep, data):
    run(ctx, rep)
