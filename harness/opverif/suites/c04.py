"""C04 — role:X passes exactly when the credentials hold role X, ignoring case."""
from .. import gen, scenario

META = {'assumptions': ["str.lower() is CPython's: the model is proved for every lower; the driver uses the table extracted "
                        "from the running interpreter (letters with a one-to-one case mapping)"]}

ASCII = 'abcxyzABCXYZ019_-.:/+*=@!,;$&#~^|<>[]{}()\'"'
UNI = 'éÉßäÄöÖñÑçÇωΩжЖдДøØåÅ'      # one-to-one case mapping (no final sigma, no dotted I)


def name(rng):
    n = rng.randint(1, 8)
    alpha = ASCII + (UNI if rng.random() < 0.4 else '')
    s = ''.join(rng.choice(alpha) for _ in range(n))
    if rng.random() < 0.15:
        # a per-cent sign in the role name: written `%%` in the check, one `%` in X (seeded change C04-A7)
        for _ in range(rng.choice([1, 1, 2])):
            k = rng.randrange(len(s) + 1)
            s = s[:k] + rng.choice(['%', '%', '%%']) + s[k:]
    return s


def variant(rng, s):
    r = rng.random()
    if r < 0.3:
        return s
    if r < 0.5:
        return s.upper() if len(s.upper()) == len(s) else s
    if r < 0.7:
        return s.lower() if len(s.lower()) == len(s) else s
    return ''.join((c.upper() if rng.random() < 0.5 else c.lower()) if len(c.upper()) == 1 and len(c.lower()) == 1 else c
                   for c in s)


def run(ctx, rep):
    scs = []
    N = ctx.n(2500, 100000)
    for _ in range(N):
        x = name(ctx.rng)
        roles = [name(ctx.rng) for _ in range(ctx.rng.choice([0, 1, 2, 3]))]
        if ctx.rng.random() < 0.6:
            roles.insert(ctx.rng.randrange(len(roles) + 1), variant(ctx.rng, x))
        elif ctx.rng.random() < 0.3 and x:
            roles.append(x[:-1] if len(x) > 1 else x + 'q')      # near miss
        if '%' in x and ctx.rng.random() < 0.5:
            roles.append(variant(ctx.rng, x.replace('%', '%%')))  # decoy: the escaped spelling is a different role name
        placeholder = ctx.rng.random() < 0.4
        target = {'other': 'zz'}
        two = False
        if placeholder:
            m = '%(rK)s'
            if ctx.rng.random() < 0.8:
                target['rK'] = x
            r = ctx.rng.random()
            if r < 0.15:
                m = 'pre-%(rK)s'
            elif r < 0.3:
                m = '%(rK)s-suf'
            elif r < 0.5 and len(x) >= 2:
                # X assembled from two placeholders, the second under a key with unusual but legal characters
                m = '%(rK)s%(Net:tenant-ID/2)s'
                two = True
                if 'rK' in target:
                    target['rK'] = x[:len(x) // 2]
                    if ctx.rng.random() < 0.9:
                        target['Net:tenant-ID/2'] = x[len(x) // 2:]
        else:
            m = x.replace('%', '%%')
        if placeholder and ctx.rng.random() < 0.5:
            # decoys under the lower-cased spellings of the keys (seeded change C04-A8: the check text lower-cased as a
            # whole before substitution, so `%(rK)s` read target['rk'])
            decoy = name(ctx.rng)
            target['rk'] = decoy
            target['net:tenant-id/2'] = ''
            if ctx.rng.random() < 0.7:
                roles.append(variant(ctx.rng, decoy))
        ckind = ctx.rng.random()
        if ckind < 0.8:
            creds = {'roles': roles, 'user_id': 'u'}
        elif ckind < 0.9:
            creds = {'user_id': 'u'}
        else:
            creds = {'roles': []}
        rule = [['role:' + m]]
        leaf = 'role:' + m
        if ctx.rng.random() < 0.6 and not any(c.isspace() for c in leaf) and not leaf.endswith(')'):
            rule = leaf            # the same check written as rule text: through the tokenizer ('(' / quotes inside a name stay)
        scs.append({'rules': {'p': rule}, 'queries': [{'rule': 'p', 'target': target, 'creds': creds}],
                    '_x': x, '_m': m, '_ph': placeholder})
    rep.rules.append('%d role checks: names over mixed-case ASCII letters, digits, punctuation and non-ASCII letters with '
                     'one-to-one case mapping; X literal or %%(key)s placeholder (sometimes with a literal prefix); target '
                     'with/without the key; credentials with a role list (with a case variant of X, a near miss, or unrelated), '
                     'without roles, or with an empty list' % N)

    def check(sc, outs):
        q = sc['queries'][0]
        tgt, creds = q['target'], q['creds']
        m = sc['_m']
        if ('%(rK)s' in m and 'rK' not in tgt) or ('%(Net:tenant-ID/2)s' in m and 'Net:tenant-ID/2' not in tgt):
            want = False
            rep.stat('missing_key')
        else:
            # `%%` in the check text is one per-cent sign; substituted values are taken as they are
            xs = m.replace('%%', '\0').replace('%(rK)s', str(tgt.get('rK'))).replace('%(Net:tenant-ID/2)s', str(tgt.get('Net:tenant-ID/2'))).replace('\0', '%')
            if 'roles' not in creds:
                want = False
                rep.stat('no_roles')
            else:
                want = any(r.lower() == xs.lower() for r in creds['roles'])
        rep.stat('placeholder' if sc['_ph'] else 'literal')
        rep.stat('want_allow' if want else 'want_deny')
        if outs[0] != ('allow' if want else 'deny'):
            rep.fail('c04:%r|%r' % (m, creds.get('roles')), 'role:%s with target %r and credentials %r gives %s, expected %s'
                     % (m, tgt, creds, outs[0], 'allow' if want else 'deny'), {'match': m, 'target': tgt, 'creds': creds})
        rep.case(key=(m, repr(creds.get('roles')), repr(sorted(tgt))), nontrivial=True,
                 sample={'rule': 'role:' + m, 'target': tgt, 'creds': creds, 'decision': outs[0]})
    scenario.run_all(rep, scs, 'leaf-role', check)
    _live_credentials(ctx, rep)


def _live_credentials(ctx, rep):
    """The credentials a service passes are live objects: the same dict and the same role list, changed in place between
    calls (a role granted, revoked, the list emptied or refilled), must be read afresh by every check."""
    from .. import impl
    n = ctx.n(60, 1500)
    steps = 0
    for i in range(n):
        names = [name(ctx.rng) for _ in range(3)]
        enf = impl.Enf()
        enf.set_rules(dict(('p%d' % j, [['role:' + nm.replace('%', '%%')]]) for j, nm in enumerate(names)))
        roles = []
        creds = {'roles': roles, 'user_id': 'u'}
        hist = []
        for _ in range(ctx.rng.randint(4, 10)):
            op = ctx.rng.random()
            nm = ctx.rng.choice(names)
            if op < 0.45:
                roles.append(variant(ctx.rng, nm))
                hist.append('append')
            elif op < 0.7 and roles:
                roles.pop(ctx.rng.randrange(len(roles)))
                hist.append('pop')
            elif op < 0.8:
                del roles[:]
                hist.append('clear')
            elif op < 0.9 and roles:
                roles[ctx.rng.randrange(len(roles))] = variant(ctx.rng, nm)
                hist.append('replace')
            else:
                hist.append('none')
            j = ctx.rng.randrange(3)
            got = enf.decide('p%d' % j, {}, creds)
            want = 'allow' if any(r.lower() == names[j].lower() for r in roles) else 'deny'
            steps += 1
            if got != want:
                rep.fail('c04live:%r|%r' % (names[j], list(roles)),
                         'role:%s with the live role list %r (changed in place: %s) gives %s, expected %s'
                         % (names[j], roles, ','.join(hist), got, want),
                         {'role': names[j], 'roles_now': list(roles), 'in_place_changes': list(hist)})
        rep.case(key='live%d' % i, nontrivial=True, n=1)
    rep.stat('live_credential_steps', steps)
    rep.rules.append('%d histories (%d checks) on one enforcer with one credentials dict whose role list is changed in place '
                     'between checks' % (n, steps))


def replay(ctx, rep, data):
    run(ctx, rep)
