"""C04 — role:X passes exactly when the credentials hold role X, ignoring case."""
from .. import gen, scenario

META = {'assumptions': ["str.lower() is CPython's: the model is proved for every lower; the driver uses the table extracted "
                        "from the running interpreter (letters with a one-to-one case mapping)"]}

ASCII = 'abcxyzABCXYZ019_-.:/+*=@!,;$&#~^|<>[]{}'
UNI = 'éÉßäÄöÖñÑçÇωΩжЖдДøØåÅ'      # one-to-one case mapping (no final sigma, no dotted I)


def name(rng):
    n = rng.randint(1, 8)
    alpha = ASCII + (UNI if rng.random() < 0.4 else '')
    return ''.join(rng.choice(alpha) for _ in range(n))


def variant(rng, s):
    r = rng.random()
    if r < 0.3:
        return s
    if r < 0.5:
        return s.upper() if len(s.upper()) == len(s) else s
    if r < 0.7:
        return s.lower() if len(s.lower()) == len(s) else s
    return ''.join((c.upper() if rng.random() < 0.5 else c.lower()) if len(c.upper()) == 1 and len(c.lower()) == 1 else c
                   for c in s)


def run(ctx, rep):
    scs = []
    N = ctx.n(2500, 100000)
    for _ in range(N):
        x = name(ctx.rng)
        roles = [name(ctx.rng) for _ in range(ctx.rng.choice([0, 1, 2, 3]))]
        if ctx.rng.random() < 0.6:
            roles.insert(ctx.rng.randrange(len(roles) + 1), variant(ctx.rng, x))
        elif ctx.rng.random() < 0.3 and x:
            roles.append(x[:-1] if len(x) > 1 else x + 'q')      # near miss
        placeholder = ctx.rng.random() < 0.4
        target = {'other': 'zz'}
        two = False
        if placeholder:
            m = '%(rk)s'
            if ctx.rng.random() < 0.8:
                target['rk'] = x
            r = ctx.rng.random()
            if r < 0.15:
                m = 'pre-%(rk)s'
            elif r < 0.3:
                m = '%(rk)s-suf'
            elif r < 0.5 and len(x) >= 2:
                # X assembled from two placeholders, the second under a key with unusual but legal characters
                m = '%(rk)s%(net:tenant-id/2)s'
                two = True
                if 'rk' in target:
                    target['rk'] = x[:len(x) // 2]
                    if ctx.rng.random() < 0.9:
                        target['net:tenant-id/2'] = x[len(x) // 2:]
        else:
            m = x.replace('%', '%%')
        ckind = ctx.rng.random()
        if ckind < 0.8:
            creds = {'roles': roles, 'user_id': 'u'}
        elif ckind < 0.9:
            creds = {'user_id': 'u'}
        else:
            creds = {'roles': []}
        rule = [['role:' + m]]
        scs.append({'rules': {'p': rule}, 'queries': [{'rule': 'p', 'target': target, 'creds': creds}],
                    '_x': x, '_m': m, '_ph': placeholder})
    rep.rules.append('%d role checks: names over mixed-case ASCII letters, digits, punctuation and non-ASCII letters with '
                     'one-to-one case mapping; X literal or %%(key)s placeholder (sometimes with a literal prefix); target '
                     'with/without the key; credentials with a role list (with a case variant of X, a near miss, or unrelated), '
                     'without roles, or with an empty list' % N)

    def check(sc, outs):
        q = sc['queries'][0]
        tgt, creds = q['target'], q['creds']
        m = sc['_m']
        if ('%(rk)s' in m and 'rk' not in tgt) or ('%(net:tenant-id/2)s' in m and 'net:tenant-id/2' not in tgt):
            want = False
            rep.stat('missing_key')
        else:
            xs = m.replace('%(rk)s', str(tgt.get('rk'))).replace('%(net:tenant-id/2)s', str(tgt.get('net:tenant-id/2'))).replace('%%', '%')
            if 'roles' not in creds:
                want = False
                rep.stat('no_roles')
            else:
                want = any(r.lower() == xs.lower() for r in creds['roles'])
        rep.stat('placeholder' if sc['_ph'] else 'literal')
        rep.stat('want_allow' if want else 'want_deny')
        if outs[0] != ('allow' if want else 'deny'):
            rep.fail('c04:%r|%r' % (m, creds.get('roles')), 'role:%s with target %r and credentials %r gives %s, expected %s'
                     % (m, tgt, creds, outs[0], 'allow' if want else 'deny'), {'match': m, 'target': tgt, 'creds': creds})
        rep.case(key=(m, repr(creds.get('roles')), repr(sorted(tgt))), nontrivial=True,
                 sample={'rule': 'role:' + m, 'target': tgt, 'creds': creds, 'decision': outs[0]})
    scenario.run_all(rep, scs, 'leaf-role', check)


def replay(ctx, rep, data):
    run(ctx, rep)
