"""C19 — oslopolicy-checker reports what the library would decide."""
import contextlib
import copy
import io
import json
import os
import sys
import shutil

from oslo_policy import policy, shell

from .. import driver, fsharness, gen, impl
from . import common

META = {'assumptions': ['jsonutils.loads of the token / target / policy files is library behaviour']}

SAMPLE_DIR = '/repo/sample_data'
LEAVES = ['role:admin', 'role:member', 'role:reader', 'role:role1', 'is_admin:True', 'user_id:%(user_id)s', 'project_id:%(project_id)s',
          'system_scope:all', 'system.all:True', 'system:all', 'name:%(bad', 'domain_id:%(domain_id)s', 'project.id:%(project_id)s',
          'user.domain.id:default', "'x':%(nested.key)s", 'True:%(flag)s', '@', '!', 'rule:admin_required', 'rule:owner', 'rule:nope']


def _flat(d, prefix=''):
    out = {}
    for k, v in d.items():
        kk = prefix + '.' + k if prefix else k
        if isinstance(v, dict):
            out.update(_flat(v, kk))
        else:
            out[kk] = v
    return out


def gen_token(rng):
    scope = rng.choice(['project', 'domain', 'system', 'unscoped'])
    tok = {'methods': ['password'], 'roles': [{'id': 'i%d' % i, 'name': n} for i, n in
                                             enumerate(rng.sample(['admin', 'member', 'reader', 'role1'], rng.randint(0, 3)))],
           'user': {'id': rng.choice(['u1', 'u2']), 'name': 'n', 'domain': {'id': 'default', 'name': 'Default'}},
           'expires_at': 'x', 'issued_at': 'y'}
    if scope == 'project':
        tok['project'] = {'id': rng.choice(['p1', 'p2']), 'name': 'pn', 'domain': {'id': 'default', 'name': 'Default'}}
    elif scope == 'domain':
        tok['domain'] = {'id': 'd1', 'name': 'dn'}
        tok['domain_id'] = 'd1'
    elif scope == 'system':
        tok['system'] = rng.choice([{'all': True}, {'all': True}, {}])
    return tok


def run(ctx, rep):
    tmp = fsharness.scratch('opverif-c19-')
    orig_try = shell._try_rule
    try:
        tokens = []
        for f in sorted(os.listdir(SAMPLE_DIR)):
            if f.startswith('auth_v3_token'):
                with open(os.path.join(SAMPLE_DIR, f)) as fh:
                    tokens.append(json.load(fh)['token'])
        N = ctx.n(400, 15000)
        reqs, meta = [], []
        for case in range(N):
            tok = copy.deepcopy(ctx.rng.choice(tokens)) if ctx.rng.random() < 0.4 else gen_token(ctx.rng)
            names = ['svc:' + n for n in ctx.rng.sample(['get', 'list', 'create', 'delete', 'update'], ctx.rng.randint(1, 4))]
            if ctx.rng.random() < 0.4:
                # services whose names extend one another with a character that sorts before ':' (digits, '-', '.', '/')
                names += ctx.rng.sample(['svc2:get', 'svc-legacy:list', 'svc.v2:get', 'svc/x:delete', 'sv:update', 'svc:get:all',
                                         'Svc:get', 'svc :odd'.replace(' ', '_')], ctx.rng.randint(1, 3))
            rules = {}
            for n in names:
                e = gen.gen_e0(ctx.rng, ctx.rng.choice([0, 1, 2]), lambda r: r.choice(LEAVES))
                rules[n] = gen.layout(ctx.rng, gen.render(e), plain=True)
            rules['admin_required'] = ctx.rng.choice(['role:admin', 'role:admin or is_admin:True', 'rule:owner and role:member'])
            rules['owner'] = 'user_id:%(user_id)s'
            if ctx.rng.random() < 0.5:
                rules['default'] = ctx.rng.choice(['rule:admin_required', '!', '@', 'role:member'])
            if ctx.rng.random() < 0.2:
                rules['nocolon'] = '@'
            is_admin = ctx.rng.random() < 0.3
            tfile = None
            if ctx.rng.random() < 0.4:
                tfile = {'user_id': ctx.rng.choice(['u1', 'u2']), 'project_id': ctx.rng.choice(['p1', 'p2', 'tenant']),
                         'nested': {'key': ctx.rng.choice(['x', 'y']), 'deep': {'er': 1}}, 'flag': ctx.rng.choice([True, False, 'True']),
                         'domain_id': ctx.rng.choice(['d1', 'default'])}
                r = ctx.rng.random()
                if r < 0.12:
                    tfile = {}                                   # a target file that says: nothing is known about the target
                elif r < 0.2:
                    tfile = {'nested': {'deep': {}}, 'meta': {}}  # flattens to nothing
                elif r < 0.3:
                    tfile = {'nested': {'key': 'x'}}             # no user_id / project_id
            requested = None
            if ctx.rng.random() < 0.3:
                requested = ctx.rng.choice(names + ['admin_required'] + (['svc:undefined'] if 'default' in rules else []))
            pf, af, tf = (os.path.join(tmp, x) for x in ('policy.json', 'access.json', 'target.json'))
            with open(pf, 'w') as fh:
                json.dump(rules, fh)
            with open(af, 'w') as fh:
                json.dump({'token': tok}, fh)
            if tfile is not None:
                with open(tf, 'w') as fh:
                    json.dump(tfile, fh)
            calls = []

            def spy(key, rule, target, access_data, o, calls=calls):
                calls.append((key, copy.deepcopy(target), copy.deepcopy(access_data)))
                return orig_try(key, rule, target, access_data, o)
            shell._try_rule = spy
            buf = io.StringIO()
            with contextlib.redirect_stdout(buf):
                try:
                    if case % 3 == 0:
                        # the command as it is run: oslopolicy-checker --policy … --access … [--rule …] [--is_admin] [--target …]
                        argv = ['oslopolicy-checker', '--policy', pf, '--access', af]
                        if requested:
                            argv += ['--rule', requested]
                        if is_admin:
                            argv += ['--is_admin']
                        if tfile is not None:
                            argv += ['--target', tf]
                        saved_argv = sys.argv
                        sys.argv = argv
                        try:
                            shell.main()
                        finally:
                            sys.argv = saved_argv
                        rep.stat('via_cli_entry')
                    else:
                        shell.tool(pf, af, requested, is_admin, tf if tfile is not None else None)
                    crashed = None
                except Exception as e:    # noqa
                    crashed = type(e).__name__
            shell._try_rule = orig_try
            lines = [l for l in buf.getvalue().splitlines() if l.startswith(('passed: ', 'failed: ', 'exception: '))]
            verdicts = []
            for l in buf.getvalue().splitlines():
                if l.startswith('passed: '):
                    verdicts.append((l[8:], 'passed'))
                elif l.startswith('failed: '):
                    verdicts.append((l[8:], 'failed'))
                elif l.startswith('exception: '):
                    verdicts.append((verdicts and None or None, 'exception'))
            key = 'c19:%r|%r|%s|%r|%r' % (sorted(rules.items()), sorted(tok), is_admin, tfile is not None, requested)
            if crashed:
                rep.fail(key, 'oslopolicy-checker crashes with %s (policy %r, requested rule %r)' % (crashed, rules, requested),
                         {'rules': rules, 'token': tok, 'requested': requested})
                continue
            # which names: one verdict per policy name containing a colon, in sorted order, or only the requested rule
            want_names = [requested] if requested else sorted(k for k in rules if ':' in k)
            got_names = [c[0] for c in calls]
            if got_names != want_names:
                rep.fail(key, 'oslopolicy-checker evaluated %r, expected %r' % (got_names, want_names), {'rules': rules})
            if any(not isinstance(t_, dict) or not isinstance(c_, dict) for _, t_, c_ in calls):
                rep.fail(key + '|shape', 'oslopolicy-checker evaluates rules against a target / credentials that are not mappings: %r'
                         % ([(type(t_).__name__, type(c_).__name__) for _, t_, c_ in calls][:3],), {'rules': rules, 'token': tok})
                rep.case(key=key, nontrivial=True)
                continue
            # the target derived from the files: the flattened target file when one is given, else the caller's own ids
            if tfile is not None:
                want_tgt = _flat(tfile)
            else:
                want_tgt = {'user_id': tok['user']['id']}
                if tok.get('project'):
                    want_tgt['project_id'] = tok['project']['id']
            for (k, tgt, creds) in calls[:1]:
                if tgt != want_tgt:
                    rep.fail(key + '|target', 'oslopolicy-checker evaluates against target %r; the files say %r (target file %r)'
                             % (tgt, want_tgt, tfile), {'rules': rules, 'token': tok, 'target_file': tfile})
            # the credentials derived from the token file and the command line
            for (k, tgt, creds) in calls[:1]:
                want_creds = {'roles': [r['name'] for r in tok['roles']], 'user_id': tok['user']['id'], 'is_admin': is_admin}
                if tok.get('project'):
                    want_creds['project_id'] = tok['project']['id']
                if tok.get('system'):
                    want_creds['system_scope'] = 'all'
                got_creds = {f: creds.get(f) for f in want_creds}
                if got_creds != want_creds:
                    rep.fail(key + '|creds', 'oslopolicy-checker evaluates with credentials %r; the token and options say %r'
                             % (got_creds, want_creds), {'rules': rules, 'token': tok, 'is_admin': is_admin})
            rep.stat('target_file:' + ('none' if tfile is None else 'empty' if not _flat(tfile) else 'given'))
            # what the library would decide for the credentials and target the tool derived
            enf = policy.Enforcer(impl.new_conf(), use_conf=False, default_rule='default')
            enf.set_rules(policy.Rules.load(json.dumps(rules), 'default'), use_conf=False)
            for (k, tgt, creds), v in zip(calls, verdicts):
                lib = impl.outcome(lambda: enf.enforce(k, copy.deepcopy(tgt), copy.deepcopy(creds)))
                expect = {'allow': 'passed', 'deny': 'failed'}.get(lib, 'exception')
                if v[1] != expect or (v[1] != 'exception' and v[0] != k):
                    rep.fail(key + '|' + k, 'oslopolicy-checker prints %r for %s; the library decides %s for the same credentials and '
                             'target (rule %r, roles %r, system %r)' % (v, k, lib, rules.get(k), creds.get('roles'), creds.get('system')),
                             {'rules': rules, 'token': tok, 'target': tgt, 'name': k})
                rep.stat('verdict:' + v[1])
            reqs.append({'op': 'checker', 'rules': [[k, v] for k, v in rules.items()], 'default': None,
                         'token': driver.enc(tok), 'is_admin': is_admin, 'target_file': driver.enc(tfile) if tfile is not None else None,
                         'requested': requested, 'lit': common.lit_table([w.strip('()') for v in rules.values() for w in v.split()])})
            meta.append((key, rules, tok, [(c[0], v[1]) for c, v in zip(calls, verdicts)], calls[0][1] if calls else None))
            rep.stat('scope:' + ('system' if tok.get('system') else 'domain' if tok.get('domain') else 'project' if tok.get('project') else 'none'))
            rep.case(key=key, nontrivial=len(set(v[1] for v in verdicts)) > 1, n=len(calls),
                     sample={'rules': rules, 'roles': [r['name'] for r in tok['roles']], 'verdicts': verdicts} if case % 60 == 0 else None)
        for (key, rules, tok, got, tgt), ans in zip(meta, driver.call(reqs)):
            ml = [(a, b) for a, b in ans['lines']]
            if ml != got:
                rep.disagree('checker', {'rules': rules, 'token_keys': sorted(tok)}, ml, got)
            elif tgt is not None and {a: b for a, b in ans['target']} != {k: str(v) for k, v in tgt.items()}:
                rep.disagree('checker-target', {'rules': rules}, ans['target'], tgt)
        rep.rules.append('%d runs of shell.tool: policy files from the expression generator over %d leaves (roles, user/project/'
                         'domain matching, is_admin, system_scope and system.<key> attributes, dotted paths into the token, nested '
                         'target keys, constants, aliases incl. an undefined one), with and without a default rule and a colon-free '
                         'name; the three sample tokens and generated project/domain/system/unscoped tokens; is_admin on/off; with '
                         'and without a nested target file; with and without a requested rule; verdicts compared with a real '
                         'Enforcer.enforce on the credentials and target the tool derived' % (N, len(LEAVES)))
    finally:
        shell._try_rule = orig_try
        shutil.rmtree(tmp, ignore_errors=True)


def replay(ctx, rep, data):
    run(ctx, rep)
