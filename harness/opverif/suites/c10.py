"""C10 — a long-lived enforcer always decides as a freshly started one would."""
import itertools
import os

from .. import driver, fsharness, gen

META = {'assumptions': ['os.path.getmtime / os.listdir / os.walk and the JSON/YAML parsers are library behaviour; the model '
                        'takes parsed file contents and integer mtimes (set by the harness with os.utime)']}

FILES = [(None, None), (0, 'a.yaml'), (0, 'z.yaml'), (1, 'b.yaml')]     # two files share directory 0
CONTENTS = [{'p': 'role:r0'}, {'oldp': 'role:r0 and role:r1'}, {'q': '@', 'p': 'role:r1'}, {}, {'q': 'role:r0 or role:r1'}, {'d': '!'},
            {'oldp': '!', 'q': 'role:r1'}, {'p': '!'}]
ROLES = ['r0', 'r1']
NAMES = ['p', 'q', 'd', 'oldp', 'nope', 'late']
LATE = {'name': 'late', 'check_str': 'role:r0 and role:r1'}      # a default registered in the middle of a history
REGSETS = [
    [{'name': 'p', 'check_str': 'role:r1'}, {'name': 'd', 'check_str': '@'}],
    [{'name': 'p', 'check_str': 'role:r1', 'deprecated': ('oldp', 'role:r0')}, {'name': 'd', 'check_str': '@'}],
]


def ops_alphabet(nfiles, ncontents):
    ops = []
    for f in FILES[:nfiles]:
        for ci in range(ncontents):
            ops.append(('write', f, ci))
        ops.append(('touch', f))
        ops.append(('delete', f))
    ops.append(('load',))
    return ops


def reset(w):
    for root, dirs, files in os.walk(w.tmp, topdown=False):
        for f in files:
            os.unlink(os.path.join(root, f))
        for d in dirs:
            p = os.path.join(root, d)
            if os.path.relpath(p, w.tmp) not in w.dirs:
                os.rmdir(p)
    for d in w.dirs:
        os.utime(os.path.join(w.tmp, d), (1, 1))
    w.content = {}
    w.steps = []


def run_history(w, hist, start_main, regs_i, enf_new):
    """Returns (impl observations per load, final long-lived decisions, fresh decisions)."""
    reset(w)
    w.regs = REGSETS[regs_i]
    w.enforce_new_defaults = enf_new
    w.conf.set_override('enforce_new_defaults', enf_new, group='oslo_policy')
    t = 2
    if start_main:
        w.write((None, None), CONTENTS[0], t, record=False)
    w.write((0, 'a.yaml'), CONTENTS[1], t, record=False) if start_main == 2 else None
    w.fs0 = w.snapshot()
    e = w.new_enforcer()
    obs = []
    err = w.load(e)
    obs.append(err or fsharness.observe(e))
    for op in hist:
        t += 1
        if op[0] == 'write':
            w.write(op[1], CONTENTS[op[2]], t, fmt='json' if (t + op[2]) % 3 == 0 else 'yaml')
        elif op[0] == 'touch':
            w.touch(op[1], t)
        elif op[0] == 'delete':
            w.delete(op[1], t)
        elif op[0] == 'load':
            err = w.load(e)
            obs.append(err or fsharness.observe(e))
        elif op[0] == 'force':
            err = w.load(e, force=True)
            obs.append(err or fsharness.observe(e))
        elif op[0] == 'register':
            if LATE not in w.regs:
                w.regs = list(w.regs) + [LATE]
                w.register(e, [LATE])
    # the next decision: enforce() on the long-lived enforcer vs a newly constructed one
    creds = [{'roles': s} for s in gen.subsets(ROLES)]
    w.steps.append({'op': 'load', 'force': False, 'fs': w.snapshot()})
    d_long = fsharness.decisions(e, NAMES, creds)
    obs.append(fsharness.observe(e))
    fresh = w.new_enforcer()
    d_fresh = fsharness.decisions(fresh, NAMES, creds)
    return obs, d_long, d_fresh, fsharness.observe(fresh)


def run(ctx, rep):
    w = fsharness.World()
    try:
        hists = []
        L = ctx.bound(3, 4)
        # contents 0..2: a new-name override, an old-name override, a two-rule file
        alpha4 = ops_alphabet(4, 3)     # main file, two files in one directory, one in another
        alpha3 = ops_alphabet(3, 3)     # main file and the two files sharing a directory
        for n in range(0, L + 1):
            for h in itertools.product(alpha4 if n <= 3 else alpha3, repeat=n):
                hists.append(list(h))
        # directed: several files in one directory, one of them removed / replaced / touched between loads
        directed = []
        for first, second in (((0, 'a.yaml'), (0, 'z.yaml')), ((0, 'z.yaml'), (0, 'a.yaml'))):
            for c1, c2 in ((0, 2), (2, 0), (1, 2), (0, 0)):
                for last in (('delete', first), ('delete', second), ('touch', first), ('write', second, 1)):
                    directed.append([('write', first, c1), ('write', second, c2), ('load',), last])
                    directed.append([('write', first, c1), ('write', second, c2), ('write', (1, 'b.yaml'), 1), ('load',), last,
                                     ('load',), ('delete', (1, 'b.yaml'))])
        total = len(hists)
        if not ctx.thorough:
            # all histories up to length 2 plus a random sample of the length-3 ones
            short = [h for h in hists if len(h) <= 2]
            long_ = [h for h in hists if len(h) > 2]
            ctx.rng.shuffle(long_)
            hists = short + long_[:ctx.n(1200, 0)]
        else:
            # all histories up to length 3 plus 15 000 of the length-4 ones
            short = [h for h in hists if len(h) <= 3]
            long_ = [h for h in hists if len(h) > 3]
            ctx.rng.shuffle(long_)
            hists = short + long_[:15000]
        directed += [[('register',)], [('load',), ('register',)], [('load',), ('register',), ('load',)],
                     [('write', (None, None), 0), ('load',), ('register',), ('touch', (None, None))],
                     [('write', (0, 'a.yaml'), 2), ('load',), ('register',), ('delete', (0, 'a.yaml')), ('load',)]]
        # the VALUE of an override changes between loads (same names before and after), incl. under a deprecated name
        for f in ((None, None), (0, 'a.yaml'), (1, 'b.yaml')):
            for c1, c2 in ((1, 6), (6, 1), (0, 7), (7, 0), (2, 4)):
                directed.append([('write', f, c1), ('load',), ('write', f, c2)])
                directed.append([('write', f, c1), ('load',), ('write', f, c2), ('load',), ('write', f, c1)])
        # the main file disappears and the deployment goes on changing while it is gone (directory edits, forced loads, the
        # file coming back)
        M = (None, None)
        for c in (0, 1, 2):
            for then in ([('write', (0, 'a.yaml'), 2)], [('write', (0, 'a.yaml'), 1), ('load',), ('delete', (0, 'a.yaml'))],
                         [('force',)], [('write', (1, 'b.yaml'), 0), ('load',), ('write', (1, 'b.yaml'), 2)],
                         [('write', M, 2)], [('touch', (0, 'a.yaml'))]):
                directed.append([('write', M, c), ('load',), ('delete', M), ('load',)] + then)
                directed.append([('write', M, c), ('write', (0, 'a.yaml'), 0), ('load',), ('delete', M), ('load',)] + then + [('load',), ('force',)])
        # the main file flaps: gone, back with other content, gone again (seeded change C10-A7: a "missing" marker that is not
        # cleared when the file reappears)
        for c1, c2 in ((1, 2), (2, 1), (0, 1), (1, 6), (6, 0)):
            flap = [('write', M, c1), ('load',), ('delete', M), ('load',), ('write', M, c2), ('load',), ('delete', M), ('load',)]
            directed.append(flap)
            directed.append(flap + [('load',), ('write', M, c1), ('load',), ('delete', M)])
            directed.append([('write', (0, 'a.yaml'), 0)] + flap)
        hists = directed + hists
        rnd = []
        big = ops_alphabet(4, len(CONTENTS)) + [('force',), ('register',)]
        for _ in range(ctx.n(120, 1500)):
            rnd.append([ctx.rng.choice(big) for _ in range(ctx.rng.randint(4, 40))])
        rep.rules.append('operation histories over {write x3 contents, touch, delete} x {main file, policy.d/a.yaml, policy.d/z.yaml, '
                         'extra.d/b.yaml} + load: %d of the %d histories of length<=%d (all of length<=2, directed ones with several '
                         'files in one directory); %d random histories of 4..40 steps over 4 '
                         'files, 6 contents, forced loads; x start with/without a main file (and with a directory override) x plain/'
                         'deprecated registered defaults; after every load the model is compared, at the end the long-lived '
                         "enforcer's next decisions (5 names x 4 role sets) with a brand-new enforcer's"
                         % (len(hists), total, L, len(rnd)))
        k = 0
        pending = []
        for h in hists + rnd:
            k += 1
            start_main = k % 3
            regs_i = (k // 3) % 2
            enf_new = (k // 6) % 2 == 0
            obs, d_long, d_fresh, o_fresh = run_history(w, h, start_main, regs_i, enf_new)
            pending.append((h, start_main, regs_i, enf_new, obs, d_long, d_fresh, o_fresh,
                            w.model_request(initial_regs=REGSETS[regs_i])))
        answers = driver.call([p[-1] for p in pending])
        for (h, start_main, regs_i, enf_new, obs, d_long, d_fresh, o_fresh, _), ans in zip(pending, answers):
            key = 'c10:%r|%d|%d|%s' % (h, start_main, regs_i, enf_new)
            m = ans['loads']
            for i, (o, mo) in enumerate(zip(obs, m)):
                mr = {a: b for a, b in mo['rules']}
                if not mo['fs_model_agrees']:
                    rep.disagree('fs-ops', {'history': h, 'load_index': i}, 'model fsStep state', 'observed snapshot differs')
                if o != mr:
                    rep.disagree('loader', {'history': h, 'start_main': start_main, 'regs': regs_i, 'load_index': i}, mr, o)
            mf = {a: b for a, b in m[-1]['fresh']}
            if o_fresh != mf:
                rep.disagree('loader-fresh', {'history': h, 'start_main': start_main, 'regs': regs_i}, mf, o_fresh)
            if d_long != d_fresh:
                i = [j for j in range(len(d_long)) if d_long[j] != d_fresh[j]][0]
                rep.fail(key, 'after history %r (start_main=%d, regs=%d) the long-lived enforcer decides %s for %s where a '
                         'fresh one decides %s' % (h, start_main, regs_i, d_long[i], NAMES[i // 4], d_fresh[i]),
                         {'history': h, 'start_main': start_main, 'regs': regs_i, 'enforce_new_defaults': enf_new})
            for op in h:
                rep.stat('op:' + op[0])
            rep.stat('len:%d' % min(len(h), 10))
            rep.case(key=key, nontrivial=any(o[0] in ('write', 'delete', 'touch') for o in h), n=len(obs),
                     sample={'history': h, 'final': obs[-1]} if len(h) == 3 else None)
    finally:
        w.close()


def replay(ctx, rep, data):
    run(ctx, rep)
