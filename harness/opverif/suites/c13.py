"""C13 — validation flags every undefined or cyclic rule reference, and only those."""
import ast
import itertools
import os
import re
import shutil
import tempfile

from oslo_config import cfg
from oslo_policy import generator, opts, policy

from .. import driver, gen, impl

META = {'assumptions': ['yaml.safe_load of the policy file (validator) is library behaviour']}
ROLES = ['r0', 'r1']


def refs_of(text):
    return [w.strip('()')[5:] for w in text.split() if w.strip('()').startswith('rule:')]


def analyse(rules):
    """Independent graph analysis: (names with an undefined reference, names that can reach a cycle)."""
    g = {n: refs_of(t) for n, t in rules.items()}
    undefined = [n for n in rules if any(m not in rules for m in g[n])]
    # nodes on a cycle: m reaches itself
    def reach(a):
        seen, todo = set(), list(g.get(a, []))
        while todo:
            x = todo.pop()
            if x in seen:
                continue
            seen.add(x)
            todo.extend(g.get(x, []))
        return seen
    R = {n: reach(n) for n in rules}
    on_cycle = {n for n in rules if n in R[n]}
    cyclic = [n for n in rules if R[n] & on_cycle or n in on_cycle]
    return undefined, cyclic


def check_impl(rules, skip=False):
    e = policy.Enforcer(impl.new_conf(), use_conf=False)
    e.skip_undefined_check = skip
    impl.install_rules(e, rules)
    try:
        ok = e.check_rules()
    except Exception as ex:      # noqa: validation itself may not fail
        return 'raise:' + type(ex).__name__, [], e
    names = []
    try:
        e.check_rules(raise_on_violation=True)
    except policy.InvalidDefinitionError as ex:
        m = re.search(r'Policies (\[.*\]) are not well defined', str(ex))
        names = ast.literal_eval(m.group(1)) if m else ['?']
    except Exception as ex:      # noqa
        return 'raise:' + type(ex).__name__, [], e
    return ok, names, e


def gen_graph(rng, names, undefined_p=0.1):
    rules = {}
    for n in names:
        def leaf(r):
            x = r.random()
            if x < 0.5:
                return 'rule:' + r.choice(names)
            if x < 0.5 + undefined_p:
                return 'rule:' + r.choice(['zz', 'yy'])
            return r.choice(['role:r0', 'role:r1', '@', '!'])
        e = gen.gen_e0(rng, rng.choice([0, 1, 2]), leaf)
        rules[n] = gen.layout(rng, gen.render(e), plain=True)
    return rules


def run(ctx, rep):
    cases = []
    # exhaustive: all graphs over <= K names with bodies from a small expression set
    K = ctx.bound(3, 4)
    for k in range(1, K + 1):
        names = ['n%d' % i for i in range(k)]
        atoms = ['role:r0'] + ['rule:' + n for n in names] + ['rule:zz']
        bodies = list(atoms) + ['not ' + a for a in atoms if a.startswith('rule')]
        if k <= 2:
            bodies += ['%s %s %s' % (a, op, b) for a in atoms for b in atoms for op in ('and', 'or')
                       if a.startswith('rule') or b.startswith('rule')]
            bodies += ['role:r0 and not (%s or role:r1)' % a for a in atoms if a.startswith('rule')]
        for combo in itertools.product(bodies, repeat=k):
            cases.append(dict(zip(names, combo)))
    n_ex = len(cases)
    if not ctx.thorough and n_ex > 4000:
        ctx.rng.shuffle(cases)
        cases = cases[:4000]
    rep.rules.append('rule graphs over <=%d names with bodies from a small set (references plain, under not, in and/or, '
                     'nested under not(or), self-loops, undefined): %d of %d enumerated; plus random graphs over <=6 names with '
                     'bodies from the expression generator (long cycles, diamonds, references at any depth)' % (K, len(cases), n_ex))
    for _ in range(ctx.n(1500, 60000)):
        names = ['n%d' % i for i in range(ctx.rng.randint(1, 6))]
        if ctx.rng.random() < 0.3:
            names[ctx.rng.randrange(len(names))] = 'default'      # the stock default-rule name is an ordinary rule name here
        cases.append(gen_graph(ctx.rng, names, ctx.rng.choice([0.0, 0.0, 0.1, 0.3])))
    cases.append({'default': 'role:r0', 'a': 'rule:nope'})
    cases.append({'default': 'rule:nope or role:r0 and role:r1'})
    cases.append({'default': '@', 'a': 'not rule:nope', 'b': 'role:r0 and (rule:a or rule:zz)'})
    # diamonds must not be reported
    cases.append({'a': 'rule:b and rule:c', 'b': 'rule:d', 'c': 'rule:d', 'd': 'role:r0'})
    cases.append({'a': 'rule:b and rule:b', 'b': 'role:r0'})
    cases.append({'a': 'not rule:b or not rule:b', 'b': 'rule:c and rule:c', 'c': '@'})
    ans = driver.call([{'op': 'check_rules', 'rules': [[k, v] for k, v in c.items()], 'default': None} for c in cases])
    ans_skip = driver.call([{'op': 'check_rules', 'rules': [[k, v] for k, v in c.items()], 'default': None, 'skip': True}
                            for c in cases[:500]])
    creds = [{'roles': s} for s in gen.subsets(ROLES)]
    for i, (rules, a) in enumerate(zip(cases, ans)):
        ok, names, enf = check_impl(rules)
        und, cyc = analyse(rules)
        want_ok = not und and not cyc
        key = 'c13:%r' % (sorted(rules.items()),)
        if ok != a['ok'] or names != a['undefined'] + a['cyclic']:
            rep.disagree('validate', {'rules': rules}, {'ok': a['ok'], 'names': a['undefined'] + a['cyclic']},
                         {'ok': ok, 'names': names})
        if ok != want_ok:
            rep.fail(key, 'check_rules() returns %s for %r; independent analysis: undefined references in %r, cycle reachable '
                     'from %r' % (ok, rules, und, cyc), {'rules': rules})
        elif names != und + cyc:
            rep.fail(key, 'check_rules names %r, expected undefined %r + cyclic %r for %r' % (names, und, cyc, rules),
                     {'rules': rules})
        if i < len(ans_skip):
            ok_s, _, _ = check_impl(rules, skip=True)
            if ok_s != ans_skip[i]['ok']:
                rep.disagree('validate-skip', {'rules': rules}, ans_skip[i]['ok'], ok_s)
            if ok_s != (not cyc):
                rep.fail(key + '|skip', 'with skip_undefined_check check_rules() returns %s, cycle analysis says %r'
                         % (ok_s, cyc), {'rules': rules})
        rep.stat('clean' if want_ok else ('cyclic' if cyc else 'undefined_only'))
        if ok:
            # nothing reported: every rule must evaluate (terminate)
            for n in rules:
                for c in creds:
                    out = impl.outcome(lambda: enf.enforce(n, {}, dict(c)))
                    if out not in ('allow', 'deny'):
                        rep.fail(key + '|eval', 'rule set reported clean but enforcing %s gives %s' % (n, out),
                                 {'rules': rules, 'name': n})
        rep.case(key=key, nontrivial=bool(und or cyc) or any('rule:' in t for t in rules.values()),
                 sample={'rules': rules, 'ok': ok, 'names': names} if len(rules) >= 3 and not ok else None)
    _grown(ctx, rep)
    _validator(ctx, rep)


def _grown(ctx, rep):
    """The rule set an enforcer validates may have grown since the last validation: rules from a policy file first,
    registered defaults merged in by a later load_rules().  check_rules() must judge the rule set as it is now."""
    from .. import fsharness
    n = 0
    for _ in range(ctx.n(60, 2000)):
        names = ['n%d' % i for i in range(ctx.rng.randint(2, 5))]
        g = gen_graph(ctx.rng, names, ctx.rng.choice([0.0, 0.1]))
        k = ctx.rng.randint(1, len(names) - 1)
        file_part = {n_: g[n_] for n_ in names[:k]}
        reg_part = [{'name': n_, 'check_str': g[n_]} for n_ in names[k:]]
        w = fsharness.World(regs=[])
        try:
            w.write((None, None), file_part, 2, record=False)
            e = w.new_enforcer(defaults=[])
            first = None
            try:
                e.load_rules()
                first = e.check_rules()
                for r in reg_part:
                    e.register_default(policy.RuleDefault(r['name'], r['check_str']))
                e.load_rules()
                got = e.check_rules()
            except Exception as ex:     # noqa: loading and validating may report, never fail
                got = 'raise:' + type(ex).__name__
            und, cyc = analyse(g)
            want = not und and not cyc
            if got != want:
                rep.fail('c13grown:%r|%d' % (sorted(g.items()), k),
                         'rules %r loaded from a file (check_rules: %s), then %r registered and merged by load_rules(): check_rules() '
                         'returns %s; the rule set now has undefined references in %r and cycles reachable from %r'
                         % (file_part, first, [r['name'] for r in reg_part], got, und, cyc), {'file': file_part, 'registered': reg_part})
            rep.stat('grown:%s' % ('clean' if want else 'dirty'))
            rep.case(key='grown%r%d' % (sorted(g.items()), k), nontrivial=True)
            n += 1
        finally:
            w.close()
    rep.rules.append('%d rule sets that grow between two validations (part from a policy file, the rest registered afterwards and '
                     'merged by load_rules)' % n)


def _validator(ctx, rep):
    """Exit status of oslopolicy-validator through the real _validate_policy."""
    tmp = tempfile.mkdtemp(prefix='opverif-c13-', dir='/dev/shm' if os.path.isdir('/dev/shm') else None)
    orig = generator._get_enforcer
    CONF = cfg.CONF
    n = 0
    try:
        table = [
            ({'foo': 'rule:bar'}, False, 0), ({'foo': 'rule:bar', 'bar': 'rule:foo'}, False, 1),
            ({'foo': '(bar))'}, False, 1), ({'foo': '!'}, False, 0), ({'foo': 'rule:baz'}, False, 1),
            ({'baz': 'rule:foo'}, False, 1), ({}, True, 1), ({'foo': 'not rule:baz'}, False, 1),
            ({'foo': 'not rule:foo'}, False, 1), ({'foo': 'role:a and not (rule:bar or rule:foo)'}, False, 1),
            ({'foo': 'rule:bar and rule:bar'}, False, 0), ({'foo': 'and'}, False, 1), ({'foo': '"quoted"'}, False, 1),
            ({'foo': 'role:a or'}, False, 1), ({'foo': '@', 'bar': 'role:x'}, False, 0), ({'foo': [['role:a'], ['rule:bar']]}, False, 0),
        ]
        for _ in range(ctx.n(40, 1500)):
            names = ctx.rng.sample(['foo', 'bar', 'baz'], ctx.rng.randint(1, 3))
            rules = {}
            for nm in names:
                rules[nm] = ctx.rng.choice(['rule:foo', 'rule:bar', 'not rule:bar', 'role:x', '!', '(bar))', 'role:x and',
                                            'rule:nope', '@', 'not rule:foo or role:y', 'rule:bar and rule:bar'])
            table.append((rules, False, None))
        for rules, missing, want in table:
            pf = os.path.join(tmp, 'test.yaml')
            import yaml
            with open(pf, 'w') as fh:
                fh.write(yaml.safe_dump(rules) if rules else '')
            path = os.path.join(tmp, 'bogus.yaml') if missing else pf
            with open(os.path.join(tmp, 'test.conf'), 'w') as fh:
                fh.write('[oslo_policy]\npolicy_file=%s\n' % path)
            CONF.reset()
            opts._register(CONF)
            CONF(args=['--config-dir', tmp], project='opverif13', default_config_files=[])
            enforcer = policy.Enforcer(CONF)
            enforcer.register_defaults([policy.RuleDefault('foo', 'foo:bar=baz'), policy.RuleDefault('bar', 'bar:foo=baz')])
            generator._get_enforcer = lambda ns: enforcer
            import io
            import contextlib
            buf = io.StringIO()
            with contextlib.redirect_stdout(buf):
                try:
                    if n % 2 == 0:
                        # the command as it is run (oslopolicy-validator exits with the status)
                        cfg.CONF.reset()
                        try:
                            generator.validate_policy(args=['--config-dir', tmp, '--namespace', 'test'])
                            got = 'returned'
                        except SystemExit as ex:
                            got = ex.code
                    else:
                        got = generator._validate_policy('test')
                except Exception as e:     # noqa
                    got = 'raise:' + type(e).__name__
            # oracle from the statement
            eff = dict(rules)
            for d, body in (('foo', 'foo:bar=baz'), ('bar', 'bar:foo=baz')):
                eff.setdefault(d, body)
            texts = {k: (v if isinstance(v, str) else ' or '.join(' and '.join(x) if isinstance(x, list) else x for x in v))
                     for k, v in eff.items()}
            und, cyc = analyse(texts)
            unparse = any(isinstance(v, str) and v != '!' and impl.parse_str(v) == '!' for v in rules.values())
            unknown = any(k not in ('foo', 'bar') for k in rules)
            exp = 1 if (missing or und or cyc or unknown or unparse) else 0
            if want is not None:
                # hand-written expectation for this file: the oracle (its "unparseable" part consults the parser under
                # test) must not drift with the library
                exp = want
            # model
            m = driver.call([{'op': 'validator', 'rules': [[k, v if isinstance(v, str) else driver.enc(v)] for k, v in eff.items()],
                              'default': None, 'file_missing': missing,
                              'file_rules': [[k, v == '!' or v is None] for k, v in rules.items()],
                              'registered_names': ['foo', 'bar']}])[0]['status']
            if got != m:
                rep.disagree('validator', {'rules': rules, 'missing': missing}, m, got)
            if got != exp:
                rep.fail('c13val:%r|%s' % (sorted(rules.items(), key=str), missing),
                         'oslopolicy-validator returns %r for policy file %r (missing=%s); expected %d (undefined %r, cyclic %r, '
                         'unknown name %s, unparseable %s)' % (got, rules, missing, exp, und, cyc, unknown, unparse),
                         {'rules': rules, 'missing': missing})
            rep.stat('validator:%s' % exp)
            rep.case(key='val%r%s' % (sorted(rules.items(), key=str), missing), nontrivial=True)
            n += 1
        rep.rules.append('%d policy files through the real generator._validate_policy (missing file, unknown names, '
                         'unparseable rules, undefined/cyclic references incl. under not, diamonds)' % n)
    finally:
        generator._get_enforcer = orig
        CONF.reset()
        import logging
        logging.disable(logging.CRITICAL)
        shutil.rmtree(tmp, ignore_errors=True)


def replay(ctx, rep, data):
    run(ctx, rep)
