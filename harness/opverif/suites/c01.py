"""C01 — rule expressions decide exactly as the documented Boolean language says."""
import itertools

from .. import driver, gen, impl
from . import common

META = {
    'rule': 'see coverage.rule',
    'assumptions': [
        "str.lower() / str.isspace() / re \\s are CPython's; their tables are re-extracted on every run "
        "and compared with the model's constants by the Tie obligations",
        "leaf checks are evaluated by the real RoleCheck/GenericCheck; their semantics are C04/C05",
    ],
}
ALPHA = ['(', ')', 'and', 'or', 'not', 'check']


def _seq_tokens(seq):
    toks, i = [], 0
    for k in seq:
        if k == 'check':
            toks.append(('check', 'role:' + gen.ROLES[i % len(gen.ROLES)]))
            i += 1
        else:
            toks.append((k,))
    return toks


def run(ctx, rep):
    enf = impl.Enf()
    cases = []   # dicts: text, e (or None), leaves, kind
    # (i) every token sequence up to a length bound
    L = ctx.bound(5, 7)
    for n in range(1, L + 1):
        for seq in itertools.product(ALPHA, repeat=n):
            toks = _seq_tokens(seq)
            cases.append({'kind': 'seq', 'text': gen.layout(ctx.rng, toks, plain=True), 'e': gen.recognise(toks),
                          'toks': toks})
    rep.rules.append('all %d token sequences over {(,),and,or,not,check} of length<=%d (distinct role leaves); '
                     'accepted ones evaluated under all 2^k assignments' % (len(cases), L))
    # (ii) random sentences with lexical variants
    pool = common.leaf_pool()
    n_rand = ctx.n(400, 4000)
    for _ in range(n_rand):
        e = gen.gen_e0(ctx.rng, ctx.rng.choice([1, 2, 3, 4]), lambda r: r.choice(pool))
        toks = gen.render(e)
        if len(toks) > 60 or len(common.variable_leaves(gen.leaves(e))) > 6:
            continue
        plain = gen.layout(ctx.rng, toks, plain=True)
        cases.append({'kind': 'rand', 'text': plain, 'e': e, 'toks': toks})
        for _ in range(ctx.rng.choice([2, 3, 4])):
            cases.append({'kind': 'layout', 'text': gen.layout(ctx.rng, toks), 'e': e, 'toks': toks, 'plain': plain})
        # extra grouping: wrap the whole sentence, or a random atom, in parentheses
        e2 = ('up0', ('up1', ('paren', e)))
        cases.append({'kind': 'parens', 'text': gen.layout(ctx.rng, gen.render(e2)), 'e': e2, 'toks': gen.render(e2)})
    rep.rules.append('%d random sentences (<=60 tokens, <=6 distinct leaves: role / literal-vs-target / @ / !) each in '
                     'plain form, 2-4 random layouts (whitespace set of str.isspace, keyword case, glued parentheses) '
                     'and with one extra grouping' % n_rand)
    # (ii') sentences in which one operand is a quote-delimited token: such a token is a string,
    # never a check, so the rule is not a sentence whether or not parentheses are glued to it
    qpool = ["'a':'b'", '"x:y"', "'role:r0'", '"@"', "'k':'%(k0)s'", '""', "''"]
    n_q = ctx.n(150, 1000)
    for _ in range(n_q):
        e = gen.gen_e0(ctx.rng, ctx.rng.choice([1, 2, 3]), lambda r: r.choice(pool + qpool * 2))
        if not any(l in qpool for l in gen.leaves(e)):
            continue
        toks = gen.render(e)
        plain = gen.layout(ctx.rng, toks, plain=True)
        cases.append({'kind': 'quoted', 'text': plain, 'e': None, 'toks': toks})
        for _ in range(3):
            cases.append({'kind': 'layout', 'text': gen.layout(ctx.rng, toks), 'e': None, 'toks': toks, 'plain': plain})
    rep.rules.append('%d sentences with a quote-delimited operand, each in plain form and 3 layouts (parentheses glued '
                     'to the quoted token): all spellings must parse alike' % n_q)
    # build requests
    reqs, plan = [], []
    for c in cases:
        reqs.append({'op': 'parse', 'v': c['text']})
        plan.append(('parse', c))
        if c['e'] is not None:
            lv = common.variable_leaves(gen.leaves(c['e']))
            assigns = list(gen.subsets(lv))
            c['assigns'] = assigns
            c['lv'] = lv
            qs = []
            for a in assigns:
                tgt, creds = common.world(lv, set(a))
                qs.append({'rule': 'p', 'target': tgt, 'creds': creds})
            c['qs'] = qs
            reqs.append(common.enforce_request({'p': c['text']}, qs, lit=common.lit_table(lv)))
            plan.append(('enforce', c))
            reqs.append({'op': 'spec_den', 'e': gen.ejson(c['e']), 'assign': assigns})
            plan.append(('spec', c))
    answers = driver.call(reqs)
    for (what, c), a in zip(plan, answers):
        c[what] = a
    # compare
    for c in cases:
        text = c['text']
        ip = impl.parse_str(text)
        mp = c['parse']['tree']
        rep.stat('kind:' + c['kind'])
        if ip != mp:
            rep.disagree('parse', {'text': text}, mp, ip)
        if c['kind'] == 'layout':
            # lexical variants must not change the parse
            pp = impl.parse_str(c['plain'])
            if ip != pp:
                rep.fail('layout:' + text, 'layout variant parses differently from the plain spelling: %r -> %s, %r -> %s'
                         % (text, ip, c['plain'], pp), {'text': text, 'plain': c['plain']})
        if c['e'] is None:
            rep.case()
            rep.stat('rejected')
            continue
        rep.stat('accepted')
        rep.stat('tokens:%d' % (len(c['toks']) // 10 * 10))
        enf.set_rules({'p': text})
        decs = []
        for a, q, mo, sd in zip(c['assigns'], c['qs'], c['enforce']['out'], c['spec']['den']):
            got = enf.decide('p', dict(q['target']), dict(q['creds']))
            want = gen.den(c['e'], lambda t: common.leaf_value(t, set(a)))
            decs.append(got)
            if sd != want:
                raise driver.DriverError('Lean Spec.den and the Python oracle disagree on %r / %r' % (text, a))
            if got != mo:
                rep.disagree('eval', {'text': text, 'true_leaves': a}, mo, got)
            if got != ('allow' if want else 'deny'):
                rep.fail('den:' + text, 'rule %r with true leaves %r decides %s, the documented language says %s'
                         % (text, a, got, 'allow' if want else 'deny'),
                         {'text': text, 'true_leaves': a, 'target': q['target'], 'creds': q['creds']})
        nontrivial = len(set(decs)) > 1
        if not nontrivial:
            rep.stat('constant_sentence')
        rep.case(key=text, nontrivial=nontrivial, n=len(decs),
                 sample={'rule': text, 'printed': ip, 'assignments': len(decs)} if c['kind'] != 'seq' or len(c['toks']) >= 5 else None)
    _list_rules(ctx, rep, enf)


def _list_rules(ctx, rep, enf):
    """(iii) list-of-lists: OR of ANDs; empty inner lists skipped; bare strings; all-empty denies; [] allows."""
    leaves = ['role:r0', 'role:r1', 'role:r2']
    pool = leaves + ['@', '!']
    inner_opts = ([[]] + [list(c) for n in (1, 2, 3) for c in itertools.permutations(leaves, n)] + leaves + [''] +
                  [list(c) for n in (2, 3) for c in itertools.permutations(pool, n) if '@' in c or '!' in c] + ['@', '!', ['@'], ['!']])
    shapes = [[]]
    for n in (1, 2, 3):
        for combo in itertools.product(range(len(inner_opts)), repeat=n):
            shapes.append([inner_opts[i] for i in combo])
    if not ctx.thorough:
        ctx.rng.shuffle(shapes)
        shapes = [[]] + shapes[:1500]
    else:
        # all shapes with <= 2 outer entries, 40 000 of the ~780 000 with three
        small = [sh for sh in shapes if len(sh) <= 2]
        big = [sh for sh in shapes if len(sh) == 3]
        ctx.rng.shuffle(big)
        shapes = small + big[:40000]
    rep.rules.append('%d list-of-lists shapes (<=3 outer x <=3 inner entries over 3 leaves, empties, bare strings) '
                     'under all 8 role subsets' % len(shapes))
    assigns = list(gen.subsets(['r0', 'r1', 'r2']))
    reqs = []
    for sh in shapes:
        qs = [{'rule': 'p', 'target': {}, 'creds': {'roles': a}} for a in assigns]
        reqs.append(common.enforce_request({'p': sh}, qs))
    answers = driver.call(reqs)
    for sh, ans in zip(shapes, answers):
        enf.set_rules({'p': sh})
        decs = []
        for a, mo in zip(assigns, ans['out']):
            got = enf.decide('p', {}, {'roles': list(a)})
            decs.append(got)
            if sh == []:
                want = True
            else:
                want = False
                for inner in sh:
                    if not inner:
                        continue
                    items = [inner] if isinstance(inner, str) else inner
                    if all((it == '@') or (it != '!' and ':' in it and it.split(':', 1)[1] in a) for it in items):
                        want = True
            if got != mo:
                rep.disagree('eval-list', {'rule': sh, 'roles': a}, mo, got)
            if got != ('allow' if want else 'deny'):
                rep.fail('list:%r' % (sh,), 'list rule %r with roles %r decides %s, OR-of-ANDs says %s' % (
                    sh, a, got, 'allow' if want else 'deny'), {'rule': sh, 'roles': a})
        rep.stat('kind:list')
        rep.case(key='list:%r' % (sh,), nontrivial=len(set(decs)) > 1, n=len(decs),
                 sample={'rule': sh} if len(sh) == 3 else None)


def replay(ctx, rep, data):
    enf = impl.Enf()
    c = data.get('case', {})
    if 'text' in c and 'true_leaves' in c:
        enf.set_rules({'p': c['text']})
        got = enf.decide('p', dict(c.get('target', {})), dict(c.get('creds', {})))
        print('replay: rule %r -> %s' % (c['text'], got))
    run(ctx, rep)
