"""C06 — rule:NAME is a transparent alias for NAME's current definition."""
from oslo_policy import _checks, policy

from .. import gen, impl, scenario

META = {'assumptions': ["the 3-/4-argument adaptation in _checks._check uses inspect.getfullargspec (Python reflection): "
                        "exercised with recording custom checks, not modelled"]}

ROLES = ['r0', 'r1', 'r2']


def gen_rules(rng, n_names, chain=False):
    names = ['n%d' % i for i in range(n_names)]
    rules = {}
    for i, n in enumerate(names):
        later = names[i + 1:]

        def leaf(r, later=later, i=i):
            x = r.random()
            if chain and later and x < 0.6:
                return 'rule:' + later[0]
            if later and x < 0.45:
                return 'rule:' + r.choice(later)
            if x < 0.55:
                return 'rule:' + r.choice(['u0', 'u1'])       # undefined
            if x < 0.6:
                return r.choice(['@', '!'])
            return 'role:' + r.choice(ROLES)
        e = gen.gen_e0(rng, rng.choice([0, 1, 2]) if not chain else 0, leaf)
        rules[n] = gen.layout(rng, gen.render(e), plain=True)
    return names, rules


def run(ctx, rep):
    scs = []
    N = ctx.n(250, 2000)
    creds_list = [{'roles': s} for s in gen.subsets(ROLES)]
    for k in range(N):
        chain = ctx.rng.random() < 0.2
        names, rules = gen_rules(ctx.rng, 9 if chain else ctx.rng.randint(2, 6), chain)
        dmode = ctx.rng.choice(['none', 'defined', 'undefined', 'check', 'check'])
        default = None
        if dmode == 'check':
            default = {'check': ctx.rng.choice(['@', 'role:r0', 'not role:r1', 'role:r1 or role:r2', '!'])}
        if dmode == 'defined':
            rules['dflt'] = ctx.rng.choice(['role:r0', 'role:r1 or role:r2', '@', '!', 'not role:r0'])
            default = 'dflt'
        elif dmode == 'undefined':
            default = 'nope'
        targets = names + ['u0', 'u1'] + (['dflt'] if dmode == 'defined' else [])
        # aliases
        r_alias = dict(rules)
        for t in targets:
            r_alias['alias_' + t] = 'rule:' + t
        qn = targets + ['alias_' + t for t in targets]
        scs.append({'rules': r_alias, 'default': default, '_kind': 'alias', '_targets': targets,
                    'queries': [{'rule': q, 'target': {}, 'creds': c} for q in qn for c in creds_list]})
        # inlining
        cands = [(n, w.strip('()')) for n in names for w in rules[n].split() if w.strip('()').startswith('rule:')
                 and w.strip('()')[5:] in rules]
        if cands:
            n, ref = ctx.rng.choice(cands)
            m = ref[5:]
            body = rules[n]
            idx = body.index(ref)
            # the reference must be a whole token
            new_body = body[:idx] + '(' + rules[m] + ')' + body[idx + len(ref):]
            r_in = dict(rules)
            r_in[n] = new_body
            qs = [{'rule': q, 'target': {}, 'creds': c} for q in names for c in creds_list]
            scs.append({'rules': rules, 'default': default, '_kind': 'orig', 'queries': qs})
            scs.append({'rules': r_in, 'default': default, '_kind': 'inlined', '_what': (n, m), 'queries': qs})
    rep.rules.append('%d acyclic rule graphs over 2..6 names (20%%: alias chains through 9 names) with bodies from the '
                     'expression generator mixing role checks, rule: references to later names, undefined references and '
                     'constants; default rule unset / defined / undefined / given as a check object; for each: every name and undefined name through an '
                     'alias, and one reference replaced by the parenthesised text of its definition; all 8 role subsets' % N)
    state = {}

    def check(sc, outs):
        kind = sc['_kind']
        rep.stat('kind:' + kind)
        if kind == 'alias':
            t = sc['_targets']
            nc = len(creds_list)
            direct = outs[:len(t) * nc]
            via = outs[len(t) * nc:]
            for i, name in enumerate(t):
                for j in range(nc):
                    a, b = direct[i * nc + j], via[i * nc + j]
                    if a != b:
                        rep.fail('alias:%r:%s' % (sorted(sc['rules'].items()), name),
                                 'rule:%s decides %s but enforcing %s decides %s (roles %r; rules %r, default %r)'
                                 % (name, b, name, a, creds_list[j]['roles'], sc['rules'], sc['default']),
                                 {'rules': sc['rules'], 'default': sc['default'], 'name': name, 'creds': creds_list[j]})
            # a reference to an undefined name: the default rule if usable, otherwise deny
            if sc['default'] is None or isinstance(sc['default'], str):
                for u in ('u0', 'u1'):
                    for j in range(nc):
                        got = via[t.index(u) * nc + j]
                        want = direct[t.index('dflt') * nc + j] if sc['default'] == 'dflt' else 'deny'
                        if got != want:
                            rep.fail('undef:%r:%s' % (sorted(sc['rules'].items()), u),
                                     'rule:%s (undefined) decides %s; the default rule %r decides %s (roles %r; rules %r)'
                                     % (u, got, sc['default'], want, creds_list[j]['roles'], sc['rules']),
                                     {'rules': sc['rules'], 'default': sc['default'], 'name': u, 'creds': creds_list[j]})
            rep.case(key=repr(sorted(sc['rules'].items())), nontrivial=len(set(outs)) > 1, n=len(outs),
                     sample={'rules': sc['rules'], 'default': sc['default']})
        elif kind == 'orig':
            state['orig'] = (sc, outs)
        else:
            osc, oouts = state['orig']
            if oouts != outs:
                i = [k for k in range(len(outs)) if outs[k] != oouts[k]][0]
                rep.fail('inline:%r:%r' % (sorted(osc['rules'].items()), sc['_what']),
                         'inlining rule:%s into %s changes a decision: %r -> %r for query %r'
                         % (sc['_what'][1], sc['_what'][0], oouts[i], outs[i], sc['queries'][i]),
                         {'rules': osc['rules'], 'inlined_rules': sc['rules'], 'default': sc['default'],
                          'query': sc['queries'][i]})
            rep.case(key='inl' + repr(sorted(sc['rules'].items())), nontrivial=len(set(outs)) > 1, n=len(outs))
    scenario.run_all(rep, scs, 'eval-refs', check)
    _current_rule(ctx, rep)


class Rec3(_checks.Check):
    seen = []

    def __call__(self, target, creds, enforcer):
        Rec3.seen.append(('rec3', self.match, 'n/a'))
        return self.match in creds.get('roles', [])


class Rec4(_checks.Check):
    def __call__(self, target, creds, enforcer, current_rule=None):
        Rec3.seen.append(('rec4', self.match, current_rule))
        return self.match in creds.get('roles', [])


class Rec4of3(Rec3):
    """accepts the current rule although its base class does not"""
    def __call__(self, target, creds, enforcer, current_rule=None):
        Rec3.seen.append(('rec4', self.match, current_rule))
        return self.match in creds.get('roles', [])


class Rec3of4(Rec4):
    """does not accept the current rule although its base class does"""
    def __call__(self, target, creds, enforcer):
        Rec3.seen.append(('rec3', self.match, 'n/a'))
        return self.match in creds.get('roles', [])


def _current_rule(ctx, rep):
    """Nested checks are told the name of the policy being enforced, not the alias."""
    saved = dict(_checks.registered_checks)
    _checks.registered_checks['rec3'] = Rec3
    _checks.registered_checks['rec4'] = Rec4
    _checks.registered_checks['rec43'] = Rec4of3
    _checks.registered_checks['rec34'] = Rec3of4
    try:
        n = ctx.n(150, 4000)
        for _ in range(n):
            depth = ctx.rng.randint(1, 8)
            rules = {}
            for i in range(depth):
                inner = 'rule:c%d' % (i + 1)
                rules['c%d' % i] = ctx.rng.choice([inner, 'not not ' + inner, '(%s and rec4:r1) or %s' % (inner, inner),
                                                   'rec3:r0 and ' + inner, '%s or rec4:zz' % inner,
                                                   'rec34:r0 and ' + inner, '(%s and rec43:r1) or %s' % (inner, inner)])
            rules['c%d' % depth] = ctx.rng.choice(['rec4:r0', 'rec4:r0 and rec3:r0', 'not rec4:zz',
                                                   'rec3:r0 and rec43:r0 and rec4:r0', 'rec4:r0 and rec34:r0 and rec43:r0'])
            enf = impl.Enf()
            enf.set_rules(rules)
            start = 'c%d' % ctx.rng.randrange(depth + 1)
            Rec3.seen = []
            out = enf.decide(start, {}, {'roles': ['r0', 'r1']})
            bad = [s for s in Rec3.seen if s[0] == 'rec4' and s[2] != start]
            if out.startswith('raise') or bad or not any(s[0] == 'rec4' for s in Rec3.seen):
                rep.fail('cur:%r:%s' % (sorted(rules.items()), start),
                         'enforcing %s: nested checks were told current_rule %r (outcome %s)' % (start, bad[:3], out),
                         {'rules': rules, 'start': start, 'seen': Rec3.seen[:10]})
            rep.stat('kind:current_rule')
            rep.case(key='cur' + repr(sorted(rules.items())) + start, nontrivial=True)
        rep.rules.append('%d alias chains (depth 1..8) ending in recording custom checks with 3- and 4-parameter call '
                         'signatures (also subclasses whose signature differs from their base class): every recorded current_rule must be the enforced name' % n)
    finally:
        _checks.registered_checks.clear()
        _checks.registered_checks.update(saved)


def replay(ctx, rep, data):
    run(ctx, rep)
