"""C09 — effective policy is defaults, then policy file, then policy.d in sorted order."""
import itertools
import json
import os
import shutil

import yaml
from oslo_config import cfg
from oslo_policy import opts, policy

from .. import driver, fsharness, gen, impl

META = {'assumptions': ['JSON/YAML equivalence of a file and oslo.config find_file / option-location tracking are library '
                        'behaviour: exercised on the real code, the model takes parsed contents and a resolved choice']}

NAMES = ['p0', 'p1', 'p2', 'p3', 'default']      # 'default' is the stock default-rule name
FILE_NAMES = ['b.yaml', 'a.yaml', 'B.yaml', '10.yaml', '9.yaml', 'a.json', 'z', '~x.yaml', 'ab.yaml', 'a-site.yaml', 'a.b.yaml',
              'a+x.yaml', 'a', 'a.yaml.bak', '50-base.yaml', '50-base-site.yaml', 'A.yaml', 'a b.yaml']


def run(ctx, rep):
    _layers(ctx, rep)
    _pick(ctx, rep)


def _layers(ctx, rep):
    N = ctx.n(400, 12000)
    pend = []
    late = []
    for case in range(N):
        dirs = ['d1', 'd2', 'd3'][:ctx.rng.randint(1, 3)]
        conf_dirs = list(dirs)
        ctx.rng.shuffle(conf_dirs)
        missing = ctx.rng.random() < 0.3
        if missing:
            conf_dirs.insert(ctx.rng.randrange(len(conf_dirs) + 1), 'missing.d')
        regs = [{'name': n, 'check_str': 'role:default_%s' % n, 'scope_types': None}
                for n in NAMES if ctx.rng.random() < 0.6]
        w = fsharness.World(dirs=conf_dirs, regs=regs, make_dirs=False)
        try:
            layers = []          # (label, mapping) in expected precedence order (later wins)
            for d in dirs:
                os.mkdir(os.path.join(w.tmp, d))
            t = 2
            if ctx.rng.random() < 0.8:
                m = {n: 'role:main_%s' % n for n in NAMES if ctx.rng.random() < 0.5}
                w.write((None, None), m, t, fmt=ctx.rng.choice(['json', 'yaml']), record=False)
                layers.append(('main', m))
            for d in conf_dirs:
                if d == 'missing.d':
                    continue
                di = conf_dirs.index(d)
                fnames = ctx.rng.sample(FILE_NAMES, ctx.rng.randint(0, 4))
                made = {}
                for fn in fnames:
                    t += 1
                    m = {n: 'role:%s_%s_%s' % (d, fn.replace('.', '_dot_').replace('~', 't').replace('+', '_plus_').replace(' ', '_sp_'), n)
                         for n in NAMES if ctx.rng.random() < 0.5}
                    w.write((di, fn), m, t, fmt=ctx.rng.choice(['json', 'yaml']), record=False)
                    made[fn] = m
                if ctx.rng.random() < 0.4:      # dot-file: must be ignored
                    t += 1
                    w.write((di, '.hidden.yaml'), {n: 'role:HIDDEN' for n in NAMES}, t, record=False)
                if ctx.rng.random() < 0.3:      # sub-directory with a file: must be ignored
                    t += 1
                    w.mkdir_entry(di, 'sub', t)
                    with open(os.path.join(w.tmp, d, 'sub', 'x.yaml'), 'w') as fh:
                        fh.write(yaml.safe_dump({n: 'role:SUBDIR' for n in NAMES}))
                for fn in sorted(made):       # lexicographic (code point) order
                    layers.append(('%s/%s' % (d, fn), made[fn]))
            w.fs0 = w.snapshot()
            e = w.new_enforcer()
            err = w.load(e)
            got = err or fsharness.observe(e)
            # the statement: last definition in layer order
            want = {r['name']: r['check_str'] for r in regs}
            for _, m in layers:
                want.update(m)
            key = 'c09:%r|%r' % (conf_dirs, [(l, sorted(m)) for l, m in layers])
            if got != want:
                rep.fail(key, 'effective policy %r, expected (defaults < main file < directories in configured order %r, files '
                         'sorted) %r; layers %r' % (got, conf_dirs, want, layers),
                         {'conf_dirs': conf_dirs, 'layers': layers, 'regs': regs})
            pend.append((key, got, w.model_request(), conf_dirs, layers))
            # names defined nowhere stay undefined: asking for one is decided by the default rule ('default', from whichever
            # layer defines it last) or denied — also in a deployment without a main policy file
            if not err:
                dflt = want.get('default')
                for roles in ([], [dflt[5:]] if dflt else ['nobody']):
                    d_got = impl.outcome(lambda: e.enforce('never:defined', {}, {'roles': roles}))
                    d_want = 'allow' if (dflt and roles == [dflt[5:]]) else 'deny'
                    if d_got != d_want:
                        rep.fail(key + '|undefined', 'an undefined name is %s for roles %r; the effective default rule is %r (layers %r, '
                                 'configured directories %r)' % (d_got, roles, dflt, layers, conf_dirs),
                                 {'conf_dirs': conf_dirs, 'layers': layers, 'regs': regs})
                rep.stat('default_rule:' + ('defined' if dflt else 'undefined'))
            if len(regs) >= 2 and case % 3 == 0:
                # the same configuration observed on an enforcer whose defaults were registered in two batches with a
                # load in between (services register per-module defaults as modules are imported)
                ds = w.rule_defaults()
                cut = ctx.rng.randint(0, len(ds) - 1)
                e2 = w.new_enforcer(defaults=ds[:cut])
                saved_steps, w.steps = w.steps, []
                try:
                    err = w.load(e2)
                    w.register(e2, regs[cut:])
                    err = err or w.load(e2)
                    got2 = err or fsharness.observe(e2)
                except Exception as ex:     # noqa
                    got2 = 'raise:' + type(ex).__name__
                late.append((key, got2, w.model_request(initial_regs=regs[:cut]), conf_dirs, layers, cut))
                w.steps = saved_steps
                if got2 != want:
                    rep.fail(key + '|late', 'effective policy %r after registering %d of %d defaults, loading, registering the rest '
                             'and loading again; expected %r' % (got2, cut, len(ds), want),
                             {'conf_dirs': conf_dirs, 'layers': layers, 'regs': regs, 'registered_before_first_load': cut})
                rep.stat('late_registration')
            rep.stat('dirs:%d' % len(dirs))
            rep.stat('missing_dir' if missing else 'all_dirs_exist')
            rep.case(key=key, nontrivial=len(layers) >= 2, sample={'conf_dirs': conf_dirs, 'layers': [l for l, _ in layers],
                                                                 'effective': got} if len(layers) >= 4 else None)
        finally:
            w.close()
    for (key, got, rq, conf_dirs, layers), ans in zip(pend, driver.call([p[2] for p in pend])):
        mr = {a: b for a, b in ans['loads'][0]['rules']}
        if mr != got:
            rep.disagree('loader-layers', {'conf_dirs': conf_dirs, 'layers': layers}, mr, got)
    for (key, got2, rq, conf_dirs, layers, cut), ans in zip(late, driver.call([p[2] for p in late])):
        mr = {a: b for a, b in ans['loads'][-1]['rules']}
        if mr != got2:
            rep.disagree('loader-late-registration', {'conf_dirs': conf_dirs, 'layers': layers, 'registered_first': cut}, mr, got2)
    rep.rules.append('%d layerings: 4 names assigned to random subsets of layers (registered default, main file present/absent, '
                     '1..3 directories in shuffled configured order each with 0..3 files whose names distinguish sort order from '
                     'creation order, dot-file, sub-directory with a file, configured-but-missing directory), every file '
                     'independently JSON or YAML, distinguishable check strings' % N)


def _pick(ctx, rep):
    """Choice of the policy file: the complete table."""
    hows = ['default', 'set_defaults_without_file', 'set_default_yaml', 'set_default_other', 'config_yaml', 'config_other',
            'override_yaml', 'override_other']
    n = 0
    picks = []
    pf_opt = [o for o in opts._options if o.name == 'policy_file'][0]
    saved_default = pf_opt.default
    saved_location = getattr(pf_opt, '_set_location', None)     # opt_default until somebody calls set_defaults

    def restore_default():
        cfg.set_defaults(opts._options, policy_file=saved_default)
        if saved_location is not None:
            pf_opt._set_location = saved_location
    try:
        for how, exist_bits, fallback_arg, ctor in itertools.product(hows, range(8), (True, False, None), (None, 'ctor.yaml', 'policy.yaml', 'policy.json', 'other.yaml')):
            tmp = fsharness.scratch('opverif-pick-')
            try:
                exists = {'policy.yaml': bool(exist_bits & 1), 'policy.json': bool(exist_bits & 2), 'other.yaml': bool(exist_bits & 4)}
                for fn, ex in exists.items():
                    if ex:
                        with open(os.path.join(tmp, fn), 'w') as fh:
                            fh.write('{}')
                value = 'other.yaml' if how.endswith('other') else 'policy.yaml'
                restore_default()
                conf = cfg.ConfigOpts()
                args = ['--config-dir', tmp]
                if how.startswith('config'):
                    with open(os.path.join(tmp, 'svc.conf'), 'w') as fh:
                        fh.write('[oslo_policy]\npolicy_file = %s\n' % value)
                conf(args=args, project='opverifpick', default_config_files=[])
                if how == 'set_defaults_without_file':
                    opts.set_defaults(conf)              # a service that only registers the options through set_defaults
                elif how.startswith('set_default'):
                    opts.set_defaults(conf, policy_file=value)
                else:
                    opts._register(conf)
                if how.startswith('override'):
                    conf.set_override('policy_file', value, group='oslo_policy')
                # None: the argument is left out (a service that just writes Enforcer(conf)); the fallback is on by default
                fallback = True if fallback_arg is None else fallback_arg
                kw = {} if fallback_arg is None else {'fallback_to_json_file': fallback}
                if ctor:
                    kw['policy_file'] = ctor
                e = policy.Enforcer(conf, **kw)
                got = e.policy_file
                never_configured = how in ('default', 'set_defaults_without_file', 'set_default_yaml', 'set_default_other')
                if ctor:
                    want = ctor
                elif (value == 'policy.yaml' and fallback and never_configured and not exists['policy.yaml']
                      and exists['policy.json']):
                    want = 'policy.json'
                else:
                    want = value
                key = 'c09pick:%s|%d|%s|%s' % (how, exist_bits, fallback_arg, ctor)
                if got != want:
                    rep.fail(key, 'policy file chosen: %r, expected %r (option set via %s to %r, existing files %r, fallback=%s, '
                             'constructor argument %r)' % (got, want, how, value, [k for k, v in exists.items() if v], fallback, ctor),
                             {'how': how, 'exists': exists, 'fallback': fallback_arg, 'ctor': ctor})
                picks.append(({'op': 'pick_file', 'value': value, 'never_configured': never_configured,
                               'yaml_exists': exists['policy.yaml'], 'json_exists': exists['policy.json'],
                               'fallback': fallback, 'ctor': ctor},
                              {'how': how, 'exists': exists, 'fallback': fallback, 'ctor': ctor}, got))
                rep.stat('pick:' + want)
                rep.case(key=key, nontrivial=True)
                n += 1
            finally:
                shutil.rmtree(tmp, ignore_errors=True)
    finally:
        restore_default()
    for (rq, case, got), ans in zip(picks, driver.call([p[0] for p in picks])):
        if ans['file'] != got:
            rep.disagree('pick-file', case, ans['file'], got)
    rep.rules.append('the complete policy-file choice table: %d rows (option left at default / library default changed / config '
                     'file / override, to policy.yaml or another name) x which of policy.yaml, policy.json, other.yaml exist x '
                     'fallback switch x constructor argument' % n)


def replay(ctx, rep, data):
    run(ctx, rep)
