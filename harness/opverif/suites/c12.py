"""C12 — loading is idempotent and never mutates what the service registered."""
import copy

from oslo_policy import policy

from .. import driver, fsharness, gen

META = {'assumptions': ['"never mutates the caller\'s objects" is about copy.deepcopy and Python aliasing: covered by the '
                        'correspondence run (shared real objects vs independent model instances), not by a theorem']}
ROLES = ['r0', 'r1']
NAMES = ['p', 'q', 'd', 'oldp']
CONTENTS = [{'p': 'role:r0'}, {'q': '@'}, {}, {'oldp': 'role:r1'}, {'p': '!', 'q': 'role:r0'}, {'oldp': 'role:r0 and role:r1'},
            {'oldp': '!', 'q': '@'}, {'oldp': 'role:r1', 'd': '!'}]


def snap(objs):
    out = []
    for o in objs:
        d = o.deprecated_rule
        out.append((o.name, o.check_str, str(o.check), id(o.check), type(o.check).__name__,
                    len(getattr(o.check, 'rules', [])) if hasattr(o.check, 'rules') else -1,
                    (d.name, d.check_str, str(d.check), id(d.check)) if d else None, repr(o.scope_types)))
    return out


def run(ctx, rep):
    N = ctx.n(300, 8000)
    creds = [{'roles': s} for s in gen.subsets(ROLES)]
    pend = []
    for case in range(N):
        with_dep = ctx.rng.random() < 0.7
        regs = [{'name': 'p', 'check_str': ctx.rng.choice(['role:r1', 'role:r0 and role:r1', 'role:r1 or role:r0', 'role:r0 or (role:r1 and role:r0) or role:r1']),
                 'deprecated': ('oldp', 'role:r0') if with_dep else None},
                {'name': 'q', 'check_str': 'role:r0', 'deprecated': ('q', 'role:r1') if with_dep and ctx.rng.random() < 0.5 else None},
                {'name': 'd', 'check_str': '@'}]
        k = ctx.rng.randint(1, 3)
        worlds = [fsharness.World(regs=regs, enforce_new_defaults=ctx.rng.random() < 0.5) for _ in range(k)]
        try:
            shared = worlds[0].rule_defaults()        # ONE list of real objects for all enforcers
            before = snap(shared)
            control = copy.deepcopy(shared)
            enfs = [w.new_enforcer(defaults=shared) for w in worlds]
            loads = [[] for _ in worlds]
            t = 2
            script = []
            for _ in range(ctx.rng.randint(2, 12)):
                i = ctx.rng.randrange(k)
                op = ctx.rng.choice(['load', 'load', 'force', 'enforce', 'edit', 'edit', 'edit_dir', 'edit_dir2', 'empty'])
                script.append((i, op))
                w, e = worlds[i], enfs[i]
                if op == 'load':
                    w.load(e)
                    loads[i].append(fsharness.observe(e))
                elif op == 'force':
                    w.load(e, force=True)
                    loads[i].append(fsharness.observe(e))
                elif op == 'enforce':
                    w.steps.append({'op': 'load', 'force': False, 'fs': w.snapshot()})
                    fsharness.decisions(e, ['p'], creds[:1])
                    loads[i].append(fsharness.observe(e))
                elif op == 'edit':
                    t += 1
                    w.write((None, None), ctx.rng.choice(CONTENTS), t)
                elif op == 'empty':
                    t += 1          # the file is edited down to no rules at all (main file or the policy.d file)
                    w.write(ctx.rng.choice([(None, None), (None, None), (0, 'o.yaml')]), {}, t)
                elif op == 'edit_dir2':
                    t += 1
                    w.write((1, 'x.yaml'), ctx.rng.choice(CONTENTS), t)
                else:
                    t += 1
                    w.write((0, 'o.yaml'), ctx.rng.choice(CONTENTS), t)
            key = 'c12:%r|%r' % (regs, script)
            # idempotence: k more loads (plain, forced, via enforce) leave the effective policy unchanged
            for i, (w, e) in enumerate(zip(worlds, enfs)):
                w.load(e)
                one = fsharness.observe(e)
                loads[i].append(one)
                d_one = fsharness.decisions(e, NAMES, creds, load=False)
                for rep_i in range(3):
                    w.load(e, force=(rep_i == 1))
                    again = fsharness.observe(e)
                    loads[i].append(again)
                    if again != one:
                        d_again = fsharness.decisions(e, NAMES, creds, load=False)
                        rep.fail(key + '|idem', 'enforcer %d: effective policy after %d more load(s) differs from after one: %r '
                                 'vs %r (decisions %s)' % (i, rep_i + 1, again, one, 'equal' if d_again == d_one else 'differ'),
                                 {'regs': regs, 'script': script, 'enforcer': i})
                        break
                # independence: same as a control enforcer built from private copies of the defaults
                ctl = w.new_enforcer(defaults=copy.deepcopy(control))
                ctl.load_rules()
                if fsharness.observe(ctl) != fsharness.observe(e):
                    rep.fail(key + '|indep', 'enforcer %d sharing RuleDefault objects with %d other(s) ends with %r; an enforcer '
                             'built from private copies has %r' % (i, k - 1, fsharness.observe(e), fsharness.observe(ctl)),
                             {'regs': regs, 'script': script, 'enforcer': i})
                pend.append((key, i, loads[i], w.model_request()))
            after = snap(shared)
            if after != before:
                rep.fail(key + '|mutate', 'loading changed the registered objects the service passed in: %r -> %r'
                         % (before, after), {'regs': regs, 'script': script})
            for _, op in script:
                rep.stat('op:' + op)
            rep.stat('enforcers:%d' % k)
            rep.case(key=key, nontrivial=True, n=sum(len(l) for l in loads),
                     sample={'regs': regs, 'script': script} if k == 3 and with_dep else None)
        finally:
            for w in worlds:
                w.close()
    for (key, i, obs, rq), ans in zip(pend, driver.call([p[3] for p in pend])):
        for j, (o, mo) in enumerate(zip(obs, ans['loads'])):
            mr = {a: b for a, b in mo['rules']}
            if mr != o:
                rep.disagree('loader-shared', {'key': key, 'enforcer': i, 'load_index': j}, mr, o)
                break
    rep.rules.append('%d scripts of 2..10 steps over {load, forced load, enforce, edit main file, edit policy.d file} across 1..3 '
                     'real enforcers (own files and enforce_new_defaults) sharing ONE list of RuleDefault/DeprecatedRule objects '
                     '(with and without deprecated predecessors): policy after 1 vs 2..4 loads (plain/forced), attribute and '
                     'identity snapshots of the shared objects before/after, each enforcer vs a control built from private '
                     'copies, and vs independent model instances' % N)


def replay(ctx, rep, data):
    run(ctx, rep)
