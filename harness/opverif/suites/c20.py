"""C20 — a decision taken during a reload sees the old or the new policy, never a mix."""
import os
import shutil

from oslo_config import cfg
from oslo_policy import opts, policy

from .. import driver, fsharness, impl, sched

META = {'assumptions': ['preemption happens at source-line boundaries inside the library (the granularity the property '
                        'quantifies over); finer bytecode-level interleavings are not explored',
                        'the model abstracts each rule to its decision for the fixed request of the scenario']}

CREDS = {'roles': ['a']}


def _w(path, text, t):
    with open(path, 'w') as fh:
        fh.write(text)
    os.utime(path, (t, t))


SCENARIOS = {
    # name: (regs, main_old, main_new, dir_old, dir_new, default_rule, query)
    'main_edit_dir_override': dict(regs=[('p', '@'), ('x', 'role:a')], main_old={'x': 'role:a'}, main_new={'x': 'role:b'},
                                   dir_old={'p': '!'}, dir_new={'p': '!'}, query='p'),
    'dir_edit': dict(regs=[('p', '!'), ('x', 'role:a')], main_old={'x': 'role:a'}, main_new={'x': 'role:a'},
                     dir_old={'p': 'role:a'}, dir_new={'p': 'role:a', 'y': '@'}, query='p'),
    'permissive_default_rule': dict(regs=[('x', 'role:a')], main_old={'default': '@', 'p': '!', 'x': 'role:a'},
                                    main_new={'default': '@', 'p': '!', 'x': 'role:b'}, dir_old={'p': '!'}, dir_new={'p': '!'},
                                    query='p', drop_main_p=True),
    # safe today: the concurrent thread's own load step re-merges the registered default before it decides
    'registered_default_permissive': dict(regs=[('foo', '!'), ('x', 'role:a')], main_old={'default': '@', 'x': 'role:a'},
                                          main_new={'default': '@', 'x': 'role:b'}, dir_old={'y': '!'}, dir_new={'y': '!'},
                                          query='foo', also_request=['y']),
    # the same without any file in policy.d: nothing after the main-file swap touches the rule store except the
    # re-application of the registered defaults (safe today for the same reason)
    'registered_default_no_dir_files': dict(regs=[('foo', '!'), ('x', 'role:a'), ('bar', 'role:zz')],
                                            main_old={'default': '@', 'x': 'role:a'}, main_new={'default': '@', 'x': 'role:b'},
                                            dir_old=None, dir_new=None, query='foo', no_model=True),
    # a main file without rules (comments only): the rule store is empty right after the main-file step, which every
    # caller notices in its own load step (`not self.rules`) and repairs before deciding
    'empty_main_dir_edit': dict(regs=[('p', '!'), ('x', 'role:a'), ('nz', 'role:zz')], main_old={}, main_new={},
                                dir_old={'p': 'role:a', 'default': '@'}, dir_new={'p': 'role:a', 'default': '@', 'y': '@'},
                                query='p', no_model=True),
    'main_emptied_dir_kept': dict(regs=[('p', '!'), ('x', 'role:a'), ('nz', 'role:zz')], main_old={'x': 'role:a', 'z': '@'},
                                  main_new={}, dir_old={'p': 'role:a', 'default': '@'}, dir_new={'p': 'role:a', 'default': '@'},
                                  query='p', no_model=True),
    # everything the request needs is in the main file, before and after the edit: the store is replaced by one assignment,
    # so even a decider that is already past its own load step sees the complete old or the complete new rules
    'main_only_allow': dict(regs=[('x', 'role:a')], main_old={'a': '@', 'x': 'role:a'}, main_new={'a': '@', 'x': 'role:b'},
                            dir_old=None, dir_new=None, query='a', no_model=True),
    # both threads evaluate a rule built from references; the files do not change the referenced rules
    'alias_evaluation': dict(regs=[('x', 'role:a')], main_old={'admin': 'role:a', 'owner': 'role:a or role:b', 'x': 'role:a',
                                                              'both': 'rule:admin and rule:owner and not rule:nobody',
                                                              'nobody': 'role:zz'},
                             main_new={'admin': 'role:a', 'owner': 'role:a or role:b', 'x': 'role:b',
                                       'both': 'rule:admin and rule:owner and not rule:nobody', 'nobody': 'role:zz'},
                             dir_old={'y': '!'}, dir_new={'y': '!'}, query='both', no_model=True),
    'deprecated_defaults': dict(regs=[('np', 'role:zz', ('op', 'role:zz')), ('x', 'role:a')], main_old={'x': 'role:a'},
                                main_new={'x': 'role:b'}, dir_old={'op': 'role:a'}, dir_new={'op': 'role:a'}, query='np',
                                expect_same=True, also_request=['op']),
}


def setup(sc, late_edit=False):
    d = fsharness.scratch('opverif-c20-')
    os.mkdir(os.path.join(d, 'policy.d'))
    import json
    main_old = dict(sc['main_old'])
    main_new = dict(sc['main_new'])
    if sc.get('drop_main_p'):
        # p is defined only in policy.d: between the main-file reload and the directory re-application an
        # unknown-name lookup falls back to the permissive default rule
        main_old.pop('p', None)
        main_new.pop('p', None)
    _w(os.path.join(d, 'policy.yaml'), json.dumps(main_old), 1000)
    if sc['dir_old'] is not None:
        _w(os.path.join(d, 'policy.d', 'a.yaml'), json.dumps(sc['dir_old']), 1000)
    os.utime(os.path.join(d, 'policy.d'), (1000, 1000))
    conf = cfg.ConfigOpts()
    conf(args=['--config-dir', d], project='opverif20', default_config_files=[])
    opts._register(conf)
    conf.set_override('enforce_new_defaults', False, group='oslo_policy')

    def mk():
        e = policy.Enforcer(conf)
        e.suppress_deprecation_warnings = True
        for r in sc['regs']:
            dep = policy.DeprecatedRule(r[2][0], r[2][1], deprecated_reason='r', deprecated_since='s') if len(r) > 2 else None
            e.register_default(policy.RuleDefault(r[0], r[1], deprecated_rule=dep))
        return e
    e = mk()
    old = impl.outcome(lambda: e.enforce(sc['query'], {}, dict(CREDS)))

    def edit():
        if main_new != main_old:
            _w(os.path.join(d, 'policy.yaml'), json.dumps(main_new), 2000)
        if sc['dir_new'] != sc['dir_old']:
            _w(os.path.join(d, 'policy.d', 'a.yaml'), json.dumps(sc['dir_new']), 2000)
    if not late_edit:
        edit()
    return d, e, old, mk, edit


def one(sc, segments, late_edit=False):
    """late_edit: the files change only when the second thread starts — the first thread (the decider) may by then be
    before, inside or past its own load step, which found nothing to reload."""
    d, e, old, mk, edit = setup(sc, late_edit)
    try:
        q = sc['query']
        fn = lambda: e.enforce(q, {}, dict(CREDS))    # noqa

        def fn_edit_first():
            edit()
            return e.enforce(q, {}, dict(CREDS))
        il = sched.Interleaver([fn, fn_edit_first if late_edit else fn], segments)
        res = il.run()
        fresh = mk()
        new = impl.outcome(lambda: fresh.enforce(q, {}, dict(CREDS)))
        final = impl.outcome(lambda: e.enforce(q, {}, dict(CREDS)))
        outs = []
        for r in res:
            if r is None:
                outs.append('hang')
            elif r[0] == 'ok':
                outs.append('allow' if r[1] else 'deny')
            else:
                outs.append('raise:' + r[1])
        return outs, old, new, final, il.counts, il.pauses
    finally:
        shutil.rmtree(d, ignore_errors=True)


def _explore(arg):
    """All schedules of one scenario: [(segments, outcomes, old, new, final, pauses, query)].

    The property quantifies over schedules with one or two context switches: A then B (one), and "A runs k lines, B runs
    its whole call, A finishes" for every k (two; B-first is the same by symmetry). Those are explored exhaustively in both
    tiers. `thorough` adds (a) the same for every other policy name of the scenario as the request, and (b) a grid of
    THREE-switch schedules (A k lines, B j lines, A finishes, B finishes), which lie beyond the quantifier and are
    reported separately."""
    name, thorough = arg
    base = SCENARIOS[name]
    queries = [base['query']] + list(base.get('also_request', []))
    if thorough:
        names = [r[0] for r in base['regs']] + list(base['main_old']) + list(base['main_new']) + \
            list(base['dir_old'] or {}) + list(base['dir_new'] or {}) + ['undefined_name']
        queries += [n for n in dict.fromkeys(names) if n not in queries and n != 'default']
    res = []
    for q in queries:
        sc = dict(base, query=q)
        outs, old, new, final, counts, _ = one(sc, [(0, None), (1, None)])     # sequential: A then B
        res.append(([(0, None), (1, None)], outs, old, new, final, [], q))
        nlines = counts[0]
        scheds = [[(0, k), (1, None), (0, None)] for k in range(1, nlines + 1)]
        if thorough and q == base['query']:
            step = max(1, nlines // 40)
            for k in range(1, nlines + 1, step):
                for j in range(1, nlines + 1, step):
                    scheds.append([(0, k), (1, j), (0, None), (1, None)])
        for segs in scheds:
            nseg = len(segs)
            outs, old, new, final, counts, pauses = one(sc, segs)
            res.append((segs if nseg == 3 else segs + ['beyond'], outs, old, new, final, pauses, q))
        # the decider D (thread 0) is preempted before, during or after its own load step — which finds nothing to reload
        # yet —, then the files change and the reloader R (thread 1) runs j lines, then D finishes (two context switches
        # up to D's decision), then R finishes
        outs, old, new, final, counts, _ = one(sc, [(0, None), (1, None)], late_edit=True)
        n_d, n_r = counts[0], counts[1]
        stacks = []
        for k in range(1, n_d + 1):
            _, _, _, _, _, pauses = one(sc, [(0, k), (1, None), (0, None)], late_edit=True)
            stacks.append(pauses[0][1] if pauses else [])
        after = next((i + 1 for i, st in enumerate(stacks) if st == ['enforce'] and any('load_rules' in x for x in stacks[:i])), n_d)
        inside = [i + 1 for i, st in enumerate(stacks) if 'load_rules' in st]
        ks = sorted({1, inside[len(inside) // 2] if inside else 1, after})
        jstep = 3
        if q != base['query'] and q not in base.get('also_request', []):
            ks, jstep = [after], 4          # thorough's extra requests: only the decider past its load step
        if thorough and q == base['query']:
            ks = sorted(set(range(1, n_d + 1, 5)) | {after, max(1, after - 1), min(n_d, after + 1)})
            jstep = 4
        for k in ks:
            # a decider already past its load step repairs nothing: that is where a narrow window shows, so every line j
            big = 2 if (n_r > 1000 and not thorough) else 1        # the one long scenario (five rules to parse): every other line
            for j in range(1, n_r + 1, big * (1 if (k == after and q == base['query']) else jstep)):
                segs = [(0, k), (1, j), (0, None), (1, None)]
                outs, old, new, final, counts, pauses = one(sc, segs, late_edit=True)
                dpos = 'in_load' if 'load_rules' in stacks[k - 1] else ('after_load' if k >= after else 'before_load')
                res.append((segs + ['late:' + dpos], outs, old, new, final, pauses, q))
    return res


def run(ctx, rep):
    total_sched = 0
    model_reqs = []
    observed = {}
    import collections
    beyond_q = collections.Counter()
    # the scenarios are independent: explore them in parallel processes (each schedule is still strictly sequential
    # inside its process: exactly one of the two threads is runnable at any time)
    import concurrent.futures
    with concurrent.futures.ProcessPoolExecutor(max_workers=min(12, len(SCENARIOS))) as ex:
        explored = dict(zip(SCENARIOS, ex.map(_explore, [(n, ctx.thorough) for n in SCENARIOS])))
    for name, sc in SCENARIOS.items():
        seen = set()
        for segs, outs, old, new, final, pauses, query in explored[name]:
            total_sched += 1
            beyond = segs[-1] == 'beyond'
            late = isinstance(segs[-1], str) and segs[-1].startswith('late:')
            # a thread is the "reloader" if it was preempted inside load_rules, else a "bystander" (it ran its own
            # load step without interruption); the window is open if any thread was preempted inside load_rules
            in_load = any('load_rules' in p[1] for p in pauses)
            role = {}
            for p in pauses:
                if 'load_rules' in p[1]:
                    role[p[0]] = 'reloader'
            where = pauses[0][1][-1] if pauses and pauses[0][1] else '-'
            for tid, o in enumerate(outs):
                if query == sc['query'] and not beyond and len(segs) == 3:
                    seen.add(o)
                if o not in (old, new):
                    label = name if query == sc['query'] else '%s/request=%s' % (name, query)
                    key = 'c20:%s|thread=%s|paused_in_load_rules=%s|decision=%s' % (label, role.get(tid, 'bystander'), in_load, o)
                    if late:
                        # thread 0 is the decider (its load step had nothing to reload), thread 1 the reloader; what matters
                        # is where the decider stood when the files changed and whether the reloader was inside load_rules
                        dpos = segs[-1][5:]
                        r_in = len(pauses) > 1 and 'load_rules' in pauses[1][1]
                        key = 'c20late:%s|thread=%s|decider=%s|reloader_in_load_rules=%s|decision=%s' % (
                            label, 'decider' if tid == 0 else 'reloader', dpos, r_in, o)
                    if beyond:
                        beyond_q[key.replace('c20:', 'c20-3switch:')] += 1      # three context switches: outside the quantifier
                        continue
                    rep.fail(key,
                             'scenario %s (request %s): old policy decides %s, new policy decides %s, but thread %s decided %s when '
                             'thread A was preempted after %s line(s) inside %s (stack %s)'
                             % (name, query, old, new, 'AB'[tid], o, segs[0][1], where, pauses[0][1] if pauses else []),
                             {'scenario': name, 'query': query, 'segments': segs, 'old': old, 'new': new, 'outcomes': outs})
            if final != new and not beyond:
                rep.fail('c20final%s:%s|paused_in_load_rules=%s' % ('late' if late else '', name if query == sc['query'] else '%s/request=%s' % (name, query), in_load),
                         'scenario %s (request %s): after both threads finished the enforcer decides %s, a fresh one decides %s '
                         '(schedule %r)' % (name, query, final, new, segs), {'scenario': name, 'query': query, 'segments': segs})
            if late:
                rep.stat('sched_late_edit:%s' % name)
                rep.case(key='%s|%s|%r' % (name, query, segs), nontrivial=True)
                continue
            if query != sc['query'] or beyond:
                rep.stat('sched_extra:%s' % ('three_switches' if beyond else 'other_request'))
                rep.case(key='%s|%s|%r' % (name, query, segs), nontrivial=True)
                continue
            rep.stat('sched:%s' % name)
            rep.case(key='%s|%r' % (name, segs), nontrivial=True,
                     sample={'scenario': name, 'segments': segs, 'outcomes': outs, 'old': old, 'new': new,
                             'paused_in': where} if total_sched % 97 == 0 else None)
        observed[name] = sorted(seen)
    rep.rules.append('%d schedules: for each of %d reload scenarios (main-file edit with directory overrides, directory edit, '
                     'permissive default rule with the rule in policy.d / as a registered default, deprecated defaults) thread A is preempted after every source line k inside the '
                     'library, thread B runs its whole enforce call, A resumes%s; both threads\' decisions are compared with '
                     'the decision under the complete old and the complete new policy, and the final state with a fresh enforcer'
                     % (total_sched, len(SCENARIOS), '; plus the same with every other policy name of the scenario as the request, and '
                        '(reported separately, beyond the quantifier) a grid of three-switch schedules' if ctx.thorough else ''))
    if beyond_q:
        rep.extra['beyond_the_quantifier_three_context_switches'] = dict(beyond_q)
    # correspondence with the Lean small-step model: the set of decisions obtainable over all one-switch schedules
    reqs, names = [], []
    for name, sc in SCENARIOS.items():
        if len(sc['regs'][0]) > 2 or sc.get('no_model'):
            continue        # deprecation is not in the scheduling model
        ids = {}

        def nid(n, ids=ids):
            return ids.setdefault(n, len(ids))

        def dec(text):
            return {'@': True, '!': False, 'role:a': True}.get(text, False)
        main_old = {k: v for k, v in sc['main_old'].items() if not (sc.get('drop_main_p') and k == 'p')}
        main_new = {k: v for k, v in sc['main_new'].items() if not (sc.get('drop_main_p') and k == 'p')}
        reqs.append({'op': 'sched', 'main_old': [[nid(k), dec(v)] for k, v in main_old.items()],
                     'main_new': [[nid(k), dec(v)] for k, v in main_new.items()],
                     'dirs_old': [[nid(k), dec(v)] for k, v in sc['dir_old'].items()],
                     'dirs_new': [[nid(k), dec(v)] for k, v in sc['dir_new'].items()],
                     'regs': [[nid(r[0]), dec(r[1])] for r in sc['regs']],
                     'default': nid('default'), 'query': nid(sc['query']),
                     'main_stale': main_old != main_new, 'dir_stale': sc['dir_old'] != sc['dir_new']})
        names.append(name)
    for name, ans in zip(names, driver.call(reqs)):
        pred = sorted(ans['outcomes'])
        if pred != observed[name]:
            rep.disagree('sched', {'scenario': name}, pred, observed[name])
    rep.extra['observed_decisions'] = observed


def replay(ctx, rep, data):
    c = data.get('case', {})
    if 'scenario' in c and 'segments' in c:
        outs, old, new, final, counts, pauses = one(SCENARIOS[c['scenario']], [tuple(s) for s in c['segments']])
        print('replay: scenario %s segments %r -> decisions %r (old %s, new %s), paused at %r'
              % (c['scenario'], c['segments'], outs, old, new, pauses[:1]))
    run(ctx, rep)
