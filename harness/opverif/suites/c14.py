"""C14 — evaluating a rule never crashes; what cannot be evaluated denies."""
import ast

from .. import gen, scenario
from . import c05

META = {'assumptions': ["the exception surface of ast.literal_eval is CPython's: the harness classifies each left side "
                        "(literal value / not a literal) and the model is proved for every such classification"]}

LHS = ['', "'", '"', "''", '""', "' '", 'x', '0', '-0', '-1', '00', '1 ', ' 1', ' a', 'a ', 'class', 'def', 'lambda', 'import', 'None', 'True', 'not_', 'is', 'in', 'if', 'else', 'yield', 'await',
       '1+', '+1', '1+1', '-', '--1', '*', '**', '~1', 'a.0', '0.a', '0.0.0', '..', 'a..b', '.a', 'a.', '.', 'a.b.', '1.', '.5',
       '[', ']', '[]', '[1', '{', '}', '{}', '{1', '[[', 'a[0]', 'a(b)', 'f()', '()', '(,)', '1,', ',',
       "'a", 'a"', "'''", '"""', "'\\'", 'b"x"', "r'x'", 'f"x"', "u'x'", '0x', '0o8', '1e', '1_0', '1__0', '0b2', '1j',
       'a b'.replace(' ', ' '), 'é', 'a.é', '$', '@x', '!x', 'a=b', 'a==b', 'a;b', 'a#b', '#', '\\', 'a\\b', '`',
       '{[]}', '{{}}', '{1,[2]}', '[{[]}]', '{(1,[])}', '{[1]}', '({[]},)', '{[],1}', 'roles', 'roles.0', 'roles.x', 'a', 'a.b', 'a.b.c', 'a.b.c.d', 'b.a', 'c', 'user_id', 'nested.roles']
RHS = ['x', '7', 'True', 'None', '', '%(k)s', '%(missing)s', 'pre%(k)s', '%(k)s%(n)s', '%%', '%%(k)s', "'x'", '[1, 2]', 'a:b', ':']
JSONV = [None, True, False, 0, 1, -1, 2.5, '', 'x', 's', [], [1], ['x'], [['x']], [[['x']]], {}, {'b': 'c'}, {'b': None},
         {'b': [1, 'c']}, {'b': {'c': 'x'}}, [{'b': 'c'}], [[{'b': 'c'}]], [None], [{'b': [{'c': {'d': 'x'}}]}], {'0': 'x'}]


def run(ctx, rep):
    scs = []
    N = ctx.n(1500, 60000)
    for _ in range(N):
        n_leaves = ctx.rng.randint(1, 4)
        leaves = ['%s:%s' % (ctx.rng.choice(LHS), ctx.rng.choice(RHS)) for _ in range(n_leaves)]
        # rules in list-of-lists form (no lexing constraints) and, when the leaf is a clean token, in text form
        rules = {}
        inner = [[l for l in leaves[:2]]] + [[l] for l in leaves[2:]]
        rules['p'] = inner
        clean = [l for l in leaves if not any(c.isspace() for c in l) and not l.startswith('(') and not l.endswith(')')
                 and not (len(l) >= 2 and l[0] == l[-1] and l[0] in '\'"') and l.lower() not in ('and', 'or', 'not')]
        if clean:
            e = gen.gen_e0(ctx.rng, 2, lambda r: r.choice(clean + ['rule:p', 'role:r0']))
            rules['q'] = gen.layout(ctx.rng, gen.render(e), plain=True)
        else:
            rules['q'] = 'rule:p'
        creds = {k: ctx.rng.choice(JSONV) for k in ctx.rng.sample(['a', 'b', 'c', 'roles_x', 'nested', 'user_id', '0', 'é'], 4)}
        if ctx.rng.random() < 0.8:
            creds['roles'] = ctx.rng.choice([[], ['r0'], ['r0', 'x']])
        target = {'k': ctx.rng.choice(JSONV), 'n': ctx.rng.choice(JSONV)}
        qs = [{'rule': n, 'target': target, 'creds': creds, 'do_raise': dr} for n in ('p', 'q') for dr in (False, True)]
        qs.append({'rule': {'check': rules['p']}, 'target': target, 'creds': creds})
        scs.append({'rules': rules, 'queries': qs, '_leaves': leaves})
    # rule texts that are one hostile word (an operator in odd case, a quoted word, a parenthesis): nothing to evaluate,
    # so they deny — by name, through a reference, and as a check object
    for word in ['NOT', 'And', 'oR', 'not', '"class"', "'1'", "''", '""', '"a b"'.replace(' ', '_'), '(', ')', '((', '()',
                 'class', '1+', ':', '::', 'a:', ':a']:
        creds = {'roles': ['r0'], 'a': 'x'}
        target = {'k': 'v', 'n': None}
        qs = [{'rule': n, 'target': target, 'creds': creds, 'do_raise': dr} for n in ('p', 'q') for dr in (False, True)]
        scs.append({'rules': {'p': word, 'q': 'rule:p or role:zz'}, 'queries': qs, '_leaves': [word]})
    # single leaves whose left side resolves to nothing (not a literal, no such credential path): they must deny,
    # whatever the right side renders as
    n_single = 0
    for lhs in LHS:
        try:
            ast.literal_eval(lhs)
            continue
        except Exception:
            pass
        for _ in range(ctx.bound(3, 12)):
            creds = {k: ctx.rng.choice(JSONV) for k in ctx.rng.sample(['a', 'b', 'c', 'nested', 'user_id', '0', 'é'], 3)}
            reach = []
            c05.reachable_strings(creds, lhs.split('.'), reach)
            if reach:
                continue
            rhs = ctx.rng.choice(RHS + ['None', '%(nul)s', '', '%(emp)s', '[]', '{}', 'False'])
            target = {'k': ctx.rng.choice(JSONV), 'n': ctx.rng.choice(JSONV), 'nul': None, 'emp': ''}
            leaf = '%s:%s' % (lhs, rhs)
            scs.append({'rules': {'p': [[leaf]], 'q': 'rule:p'}, '_leaves': [leaf], '_unresolvable': True,
                        'queries': [{'rule': 'p', 'target': target, 'creds': creds, 'do_raise': False}]})
            n_single += 1
    rep.rules.append('%d single leaves whose left side is neither a literal nor a path present in the credentials, against right '
                     'sides incl. None / empty renderings: each must deny' % n_single)
    rep.rules.append('%d rule sets whose leaves pair %d hostile left sides (Python keywords, operators, brackets, digits, dots, '
                     'quotes, prefixes, non-ASCII) with %d right sides (literals and well-formed %%(key)s placeholders, present or '
                     'missing), as list-of-lists and (when lexically clean) as text expressions with references; credentials '
                     'with values of every JSON type at every path position; flat targets with values of every JSON type; '
                     'by name and as check object, do_raise off/on' % (N, len(LHS), len(RHS)))

    def check(sc, outs):
        if sc.get('_unresolvable') and outs[0] != 'deny':
            rep.fail('c14deny:%r' % (sc['_leaves'],), 'leaf %r, whose left side is neither a literal nor a credential path present '
                     'in %r, gives %s against target %r; what cannot be evaluated must deny'
                     % (sc['_leaves'][0], sc['queries'][0]['creds'], outs[0], sc['queries'][0]['target']),
                     {'rules': sc['rules'], 'query': sc['queries'][0]})
        for q, got in zip(sc['queries'], outs):
            ok = got in ('allow', 'deny') if not q.get('do_raise') else \
                (got == 'allow' or got.startswith('raise:PolicyNotAuthorized'))
            if not ok:
                rep.fail('c14:%r' % (sc['_leaves'],), 'enforce(%r) with leaves %r, credentials %r, target %r escapes as %s'
                         % (q['rule'] if isinstance(q['rule'], str) else 'check object', sc['_leaves'], q['creds'], q['target'], got),
                         {'rules': sc['rules'], 'query': q})
            rep.stat('out:' + got.split(':')[0])
        for l in sc['_leaves']:
            rep.stat('lhs:' + ('path' if l.split(':')[0].replace('.', '').isalnum() else 'hostile'))
        rep.case(key=repr((sc['_leaves'], sc['queries'][0]['creds'], sc['queries'][0]['target'])), nontrivial=True,
                 n=len(outs), sample={'leaves': sc['_leaves'], 'creds': sc['queries'][0]['creds'], 'outcomes': outs})
    first = scenario.run_all(rep, scs, 'eval-hostile', check)
    # the same requests with debug logging switched on for the whole library must neither crash nor decide differently
    import logging
    lg = logging.getLogger('oslo_policy')
    old_level, old_disable = lg.level, logging.root.manager.disable
    h = logging.NullHandler()
    lg.addHandler(h)
    lg.setLevel(logging.DEBUG)
    logging.disable(logging.NOTSET)
    try:
        for sc, base in list(zip(scs, first))[:ctx.n(400, 10000)]:
            outs = scenario.impl_run(sc)
            if outs != base:
                k = [j for j in range(len(outs)) if outs[j] != base[j]][0]
                rep.fail('c14debug:%r' % (sc['_leaves'],), 'with debug logging on, enforce with leaves %r, credentials %r gives %s instead of %s'
                         % (sc['_leaves'], sc['queries'][k]['creds'], outs[k], base[k]), {'rules': sc['rules'], 'query': sc['queries'][k]})
            rep.stat('debug_logging_pass')
            rep.case(n=len(outs))
    finally:
        lg.setLevel(old_level)
        lg.removeHandler(h)
        logging.disable(logging.CRITICAL)


def replay(ctx, rep, data):
    run(ctx, rep)
