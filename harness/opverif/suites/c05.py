"""C05 — attribute checks compare a literal or credential path with the target value."""
import ast

from .. import gen, scenario

META = {'assumptions': ["ast.literal_eval and str() of containers/floats are CPython's: the harness passes the classified "
                        "literal value and the str() text to the model; the theorems hold for every such function"]}

KEYS = ['a', 'b', 'c', 'd']
SCALARS = ['x', 'y', '7', 'True', 'None', '', 7, 0, -3, True, False, None, 1.5, 'x.y', 1, 1.0, 0.0, -0.0, '1', '1.0', '0.0']
LITERALS = ['1', '1.0', '0.0', '-0.0', "'1'", "'",  '"', "'x'", '"x"', "'7'", '7', '-3', '0', '1.5', 'True', 'False', 'None', "'True'", '"a b"'.replace(' ', '_'),
            "'%s'" % 'y', '1e3', '0x10', "''", '"x.y"', '[1, 2]', '(1,)', '{1, 2}']


def gen_json(rng, depth):
    r = rng.random()
    if depth <= 0 or r < 0.35:
        return rng.choice(SCALARS)
    if r < 0.7:
        return {k: gen_json(rng, depth - 1) for k in rng.sample(KEYS, rng.randint(1, 3))}
    if r < 0.9:
        return [gen_json(rng, depth - 1) for _ in range(rng.randint(0, 3))]
    return [[gen_json(rng, depth - 2)] for _ in range(rng.randint(1, 2))]


def spec_matches(value, path, want):
    """The statement: follow the path; where it meets a list any element may match; compare string forms."""
    if not path:
        return str(value) == want
    if not isinstance(value, dict) or path[0] not in value:
        return False
    nxt = value[path[0]]
    if isinstance(nxt, list):
        return any(spec_matches(v, path[1:], want) for v in nxt)
    return spec_matches(nxt, path[1:], want)


def reachable_strings(value, path, out):
    if not path:
        out.append(str(value))
        return
    if isinstance(value, dict) and path[0] in value:
        nxt = value[path[0]]
        if isinstance(nxt, list):
            for v in nxt:
                reachable_strings(v, path[1:], out)
        else:
            reachable_strings(nxt, path[1:], out)


def run(ctx, rep):
    scs = []
    N = ctx.n(3000, 150000)
    for _ in range(N):
        creds = {k: gen_json(ctx.rng, 3) for k in ctx.rng.sample(KEYS, ctx.rng.randint(1, 4))}
        creds['roles'] = ['r0']
        if ctx.rng.random() < 0.35:
            lhs = ctx.rng.choice(LITERALS)
            path = None
            try:
                cands = [str(ast.literal_eval(lhs))]
            except Exception:
                cands = []
        else:
            path = [ctx.rng.choice(KEYS) for _ in range(ctx.rng.randint(1, 4))]
            lhs = '.'.join(path)
            cands = []
            reachable_strings(creds, path, cands)
        # right side: usually something that could match
        if cands and ctx.rng.random() < 0.7:
            val = ctx.rng.choice(cands)
        else:
            val = str(ctx.rng.choice(SCALARS))
        target = {'other': 1}
        tkey = ctx.rng.choice(['tk', 'tk', 'network:tenant_id', 'ext-parent/id', 'a.b', 'k 1'])
        if ctx.rng.random() < 0.5:
            rhs = '%(' + tkey + ')s'
            if ctx.rng.random() < 0.85:
                # target value of any JSON type whose string form is val when possible
                target[tkey] = ctx.rng.choice([val, val, _typed(val)])
        else:
            rhs = val.replace('%', '%%')
        scs.append({'rules': {'p': [[lhs + ':' + rhs]]},
                    'queries': [{'rule': 'p', 'target': target, 'creds': creds}],
                    '_lhs': lhs, '_rhs': rhs, '_path': path, '_tkey': tkey})
    # directed: list elements that are == to one another but print differently (True/1/1.0, False/0/0.0): each is an element
    # of its own (seeded change C05-A8 skipped an element equal to one already visited)
    n_dir = 0
    for L in ([True, 1], [1, True], [0, False], [False, 0], [1, 1.0], [1.0, 1], [0, 0.0, False], [True, 1.0, 1], ['1', 1, True],
              [False, '0', 0]):
        for x in sorted({str(e) for e in L} | {'2'}):
            for creds, lhs in (({'flags': list(L)}, 'flags'), ({'a': {'flags': list(L)}}, 'a.flags'),
                               ({'a': [{'b': e} for e in L]}, 'a.b'), ({'a': [[e] for e in L]}, 'a')):
                creds = dict(creds, roles=['r0'])
                scs.append({'rules': {'p': [[lhs + ':' + x]]},
                            'queries': [{'rule': 'p', 'target': {'other': 1}, 'creds': creds}],
                            '_lhs': lhs, '_rhs': x, '_path': lhs.split('.'), '_tkey': 'tk'})
                n_dir += 1
    rep.rules.append('%d directed checks over lists whose elements are equal under == but print differently' % n_dir)
    rep.rules.append('%d generic checks: left side a Python literal (both quote styles, ints, floats, booleans, None, containers) '
                     'or a dotted path of depth 1..4 over nested credentials (dicts, lists of dicts, lists of lists, scalars of '
                     'every JSON type incl. values equal to the string form of others); right side literal or %%(key)s '
                     'placeholder against flat targets (key present or missing, value of any type); ~70%% aimed at a '
                     'reachable value' % N)

    def check(sc, outs):
        q = sc['queries'][0]
        tgt, creds = q['target'], q['creds']
        lhs, rhs = sc['_lhs'], sc['_rhs']
        if rhs == '%(' + sc['_tkey'] + ')s':
            if sc['_tkey'] not in tgt:
                want, x = False, None
                rep.stat('missing_target_key')
            else:
                x = str(tgt[sc['_tkey']])
                want = None
        else:
            x = rhs.replace('%%', '%')
            want = None
        if want is None:
            try:
                litv = ast.literal_eval(lhs)
                want = (x == str(litv))
                rep.stat('lhs_literal')
            except Exception:
                want = spec_matches(creds, lhs.split('.'), x)
                rep.stat('lhs_path_depth_%d' % len(lhs.split('.')))
        rep.stat('want_allow' if want else 'want_deny')
        if outs[0] != ('allow' if want else 'deny'):
            rep.fail('c05:%s:%s' % (lhs, rhs), 'check %s:%s with target %r and credentials %r gives %s, expected %s'
                     % (lhs, rhs, tgt, creds, outs[0], 'allow' if want else 'deny'),
                     {'lhs': lhs, 'rhs': rhs, 'target': tgt, 'creds': creds})
        rep.case(key=(lhs, rhs, repr(tgt), repr(creds)), nontrivial=True,
                 sample={'check': lhs + ':' + rhs, 'target': tgt, 'creds': creds, 'decision': outs[0]})
    scenario.run_all(rep, scs, 'leaf-generic', check)


def _typed(s):
    for conv in (int, float):
        try:
            v = conv(s)
            if str(v) == s:
                return v
        except Exception:
            pass
    return {'True': True, 'False': False, 'None': None}.get(s, s)


def replay(ctx, rep, data):
    run(ctx, rep)
