"""Run 'enforce scenarios' on the real Enforcer (no files: use_conf=False) and on the model."""
import copy
import logging

from oslo_policy import _parser, policy

from . import driver, impl
from .suites import common

_CONFS = {}


def _conf(enforce_scope, default_rule_opt=None, content_type=None):
    key = (enforce_scope, default_rule_opt, content_type)
    if key not in _CONFS:
        c = impl.new_conf()
        c.set_override('enforce_scope', enforce_scope, group='oslo_policy')
        if default_rule_opt is not None:
            c.set_override('policy_default_rule', default_rule_opt, group='oslo_policy')
        if content_type is not None:
            c.set_override('remote_content_type', content_type, group='oslo_policy')
        _CONFS[key] = c
    return _CONFS[key]


def impl_run(sc):
    """sc: rules{name:value}, default (None | str | {'check': value}), default_opt (policy_default_rule option),
    registered [(name, scope_types|None)], enforce_scope, queries[…]. Returns list of canonical outcomes."""
    d = sc.get('default')
    default_rule = None
    if isinstance(d, str):
        default_rule = d
    elif isinstance(d, dict):
        default_rule = _parser.parse_rule(d['check'])
    conf = _conf(sc.get('enforce_scope', True), sc.get('default_opt'), sc.get('content_type'))
    e = policy.Enforcer(conf, use_conf=False, default_rule=default_rule)
    impl.install_rules(e, sc['rules'])
    for name, st in sc.get('registered', []):
        text = sc['rules'].get(name)      # the registered default repeats the rule's text when it is text (inert: use_conf=False)
        e.register_default(policy.RuleDefault(name, text if isinstance(text, str) and text else '!', scope_types=st))
    outs = []
    for q in sc['queries']:
        rule = q['rule']
        if isinstance(rule, dict):
            chk = _parser.parse_rule(rule['check'])
            if rule.get('scope') is not None:
                chk.scope_types = rule['scope']
            rule = chk
        kw = {}
        args = ()
        if q.get('do_raise'):
            kw['do_raise'] = True
        if q.get('exc'):
            kw['exc'] = impl.CustomExc
            args = tuple(q.get('exc_args', ()))
            kw.update(q.get('exc_kwargs', {}))
        creds = copy.deepcopy(q['creds'])
        target = copy.deepcopy(q['target'])
        fn = e.authorize if q.get('authorize') else e.enforce
        if q.get('exc'):
            outs.append(impl.outcome(lambda: fn(rule, target, creds, q.get('do_raise', False), impl.CustomExc,
                                                *args, **q.get('exc_kwargs', {}))))
        else:
            outs.append(impl.outcome(lambda: fn(rule, target, creds, **kw)))
    return outs


def effective_default(sc):
    """What Enforcer.__init__ computes: default_rule or conf.policy_default_rule."""
    d = sc.get('default')
    if isinstance(d, dict):
        return d
    if d:
        return d
    opt = sc.get('default_opt')
    return 'default' if opt is None else opt      # '' = option overridden to empty: no default rule at all


def model_request(sc):
    texts = []
    for v in sc['rules'].values():
        texts.extend(_leaf_texts(v))
    for q in sc['queries']:
        if isinstance(q['rule'], dict):
            texts.extend(_leaf_texts(q['rule']['check']))
    d = effective_default(sc)
    if isinstance(d, dict):
        texts.extend(_leaf_texts(d['check']))
        dd = {'check': driver.enc(d['check'])}
    else:
        dd = d
    qs = []
    for q in sc['queries']:
        mq = {'rule': q['rule'] if isinstance(q['rule'], str) else
              {'check': driver.enc(q['rule']['check']), 'scope': q['rule'].get('scope')},
              'target': q['target'], 'creds': q['creds'], 'do_raise': bool(q.get('do_raise')),
              'exc': bool(q.get('exc')), 'authorize': bool(q.get('authorize'))}
        qs.append(mq)
    rq = common.enforce_request(sc['rules'], qs, default=dd,
                                registered=[[n, st] for n, st in sc.get('registered', [])],
                                enforce_scope=sc.get('enforce_scope', True), lit=common.lit_table(texts))
    if 'remote' in sc:
        rq['remote'] = sc['remote']
    return rq


def _leaf_texts(v):
    """Leaf check texts occurring in a rule value (for the literal table): split text rules on whitespace/parens."""
    out = []
    if isinstance(v, str):
        for w in v.split():
            out.append(w.strip('()'))
    elif isinstance(v, list):
        for x in v:
            if isinstance(x, str):
                out.append(x)
            elif isinstance(x, list):
                out.extend(y for y in x if isinstance(y, str))
    return out


def _build(sc, rules=None):
    d = sc.get('default')
    default_rule = None
    if isinstance(d, str):
        default_rule = d
    elif isinstance(d, dict):
        default_rule = _parser.parse_rule(d['check'])
    conf = _conf(sc.get('enforce_scope', True), sc.get('default_opt'), sc.get('content_type'))
    e = policy.Enforcer(conf, use_conf=False, default_rule=default_rule)
    impl.install_rules(e, sc['rules'] if rules is None else rules)
    for name, st in sc.get('registered', []):
        text = sc['rules'].get(name)      # the registered default repeats the rule's text when it is text (inert: use_conf=False)
        e.register_default(policy.RuleDefault(name, text if isinstance(text, str) and text else '!', scope_types=st))
    return e


def _ask(e, q, creds, target):
    rule = q['rule']
    if isinstance(rule, dict):
        chk = _parser.parse_rule(rule['check'])
        if rule.get('scope') is not None:
            chk.scope_types = rule['scope']
        rule = chk
    fn = e.authorize if q.get('authorize') else e.enforce
    if q.get('exc'):
        return impl.outcome(lambda: fn(rule, target, creds, q.get('do_raise', False), impl.CustomExc,
                                       *tuple(q.get('exc_args', ())), **q.get('exc_kwargs', {})))
    return impl.outcome(lambda: fn(rule, target, creds, do_raise=bool(q.get('do_raise'))))


def stateful_probes(rep, scenarios, suite, every=7):
    """Decisions must not depend on what the same enforcer / check objects / credential objects were asked before.
    (a) every query asked twice in a row and then all again in reverse order on ONE enforcer, re-using the very same
        credentials and target objects; (b) an enforcer that served scenario P and then had scenario S's rules merged in
        with set_rules(overwrite=False) must decide S's queries like a fresh enforcer holding the merged rules; (c) an
        enforcer that served P and was then given S's rules in place of P's must decide S's queries like a fresh one."""
    last = {}
    for i, sc in enumerate(scenarios):
        if i % every:
            continue
        if any(isinstance(q['creds'], dict) is False for q in sc['queries']):
            continue
        pkey = (repr(sc.get('default')), sc.get('default_opt'), sc.get('enforce_scope', True), sc.get('content_type'))
        prev = last.get(pkey)
        if prev is not None and prev['rules'] == sc['rules']:
            prev = None
        e = _build(sc)
        objs = [(copy.deepcopy(q['creds']), copy.deepcopy(q['target'])) for q in sc['queries']]
        first = [_ask(e, q, c, t) for q, (c, t) in zip(sc['queries'], objs)]
        again = [_ask(e, q, c, t) for q, (c, t) in zip(sc['queries'], objs)]
        rev = [_ask(e, q, c, t) for q, (c, t) in reversed(list(zip(sc['queries'], objs)))][::-1]
        for name, other in (('asked again', again), ('asked again in reverse order', rev)):
            if other != first:
                k = [j for j in range(len(first)) if other[j] != first[j]][0]
                rep.fail('%s-repeat:%r' % (suite, sc['queries'][k]['rule']),
                         'the same request on the same enforcer decides %s the first time and %s when %s (rules %r, query %r)'
                         % (first[k], other[k], name, sc['rules'], sc['queries'][k]),
                         {'scenario': {k2: v for k2, v in sc.items() if not k2.startswith('_')}, 'query_index': k})
                break
        rep.stat('stateful_repeat')
        if (prev is not None and not prev.get('registered') and not sc.get('registered') and 'remote' not in sc
                and 'remote' not in prev):
            carried = _build(prev)
            for q in prev['queries']:
                _ask(carried, q, copy.deepcopy(q['creds']), copy.deepcopy(q['target']))
            impl.install_rules(carried, sc['rules'], overwrite=False)
            merged = dict(prev['rules'])
            merged.update(sc['rules'])
            fresh = _build(sc, rules=merged)
            # ask the new scenario's questions and the earlier ones again (rules that were not overwritten may refer to ones that were)
            qs = list(sc['queries']) + [q for q in prev['queries'] if isinstance(q['rule'], str)]
            a = [_ask(carried, q, copy.deepcopy(q['creds']), copy.deepcopy(q['target'])) for q in qs]
            b = [_ask(fresh, q, copy.deepcopy(q['creds']), copy.deepcopy(q['target'])) for q in qs]
            if a != b:
                k = [j for j in range(len(a)) if a[j] != b[j]][0]
                rep.fail('%s-carry:%r' % (suite, qs[k]['rule']),
                         'an enforcer that first served rules %r and then had %r merged in (set_rules overwrite=False) decides '
                         '%s for %r; a fresh enforcer with the merged rules decides %s'
                         % (prev['rules'], sc['rules'], a[k], qs[k]['rule'], b[k]),
                         {'first_rules': prev['rules'], 'merged_in': sc['rules'], 'query': qs[k]})
            rep.stat('stateful_carry_over')
            # (c) the same enforcer re-used: it served P, then its rule set was REPLACED by S's (overwrite=True)
            reused = _build(prev)
            for q in prev['queries']:
                _ask(reused, q, copy.deepcopy(q['creds']), copy.deepcopy(q['target']))
            impl.install_rules(reused, sc['rules'])
            c = [_ask(reused, q, copy.deepcopy(q['creds']), copy.deepcopy(q['target'])) for q in sc['queries']]
            if c != first:
                k = [j for j in range(len(c)) if c[j] != first[j]][0]
                rep.fail('%s-reuse:%r' % (suite, sc['queries'][k]['rule']),
                         'an enforcer that first served rules %r and was then given %r (set_rules, overwrite) decides %s for %r; '
                         'a fresh enforcer decides %s' % (prev['rules'], sc['rules'], c[k], sc['queries'][k]['rule'], first[k]),
                         {'first_rules': prev['rules'], 'then_rules': sc['rules'], 'query': sc['queries'][k]})
            rep.stat('stateful_reuse')
        last[pkey] = sc


def run_all(rep, scenarios, suite, check=None):
    """Run every scenario on both sides; record disagreements; call check(sc, impl_outs) for the
    direct property oracle. Returns list of impl outcome lists."""
    answers = driver.call([model_request(sc) for sc in scenarios])
    res = []
    for sc, ans in zip(scenarios, answers):
        io = impl_run(sc)
        mo = ans['out']
        rep.stat('left_sides_decided_by_literal_model', ans.get('lit_claimed', 0))
        rep.stat('left_sides_from_harness_table', len(model_request(sc).get('lit', {})) - ans.get('lit_claimed', 0))
        for k in ans.get('lit_mismatch', []):
            rep.disagree('literal-model', {'left_side': k}, 'litKnown claims otherwise', 'ast.literal_eval')
        for i, (a, b) in enumerate(zip(io, mo)):
            if a != b:
                rep.disagree(suite, {'scenario': {k: v for k, v in sc.items() if k != 'queries'},
                                     'query': sc['queries'][i]}, b, a)
        if check is not None:
            check(sc, io)
        res.append(io)
    stateful_probes(rep, scenarios, suite)
    return res
