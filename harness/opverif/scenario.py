"""Run 'enforce scenarios' on the real Enforcer (no files: use_conf=False) and on the model."""
import copy
import logging

from oslo_policy import _parser, policy

from . import driver, impl
from .suites import common

_CONFS = {}


def _conf(enforce_scope, default_rule_opt=None, content_type=None):
    key = (enforce_scope, default_rule_opt, content_type)
    if key not in _CONFS:
        c = impl.new_conf()
        c.set_override('enforce_scope', enforce_scope, group='oslo_policy')
        if default_rule_opt is not None:
            c.set_override('policy_default_rule', default_rule_opt, group='oslo_policy')
        if content_type is not None:
            c.set_override('remote_content_type', content_type, group='oslo_policy')
        _CONFS[key] = c
    return _CONFS[key]


def impl_run(sc):
    """sc: rules{name:value}, default (None | str | {'check': value}), default_opt (policy_default_rule option),
    registered [(name, scope_types|None)], enforce_scope, queries[…]. Returns list of canonical outcomes."""
    d = sc.get('default')
    default_rule = None
    if isinstance(d, str):
        default_rule = d
    elif isinstance(d, dict):
        default_rule = _parser.parse_rule(d['check'])
    conf = _conf(sc.get('enforce_scope', True), sc.get('default_opt'), sc.get('content_type'))
    e = policy.Enforcer(conf, use_conf=False, default_rule=default_rule)
    e.set_rules(policy.Rules.from_dict(sc['rules'], e.default_rule), use_conf=False)
    for name, st in sc.get('registered', []):
        e.register_default(policy.RuleDefault(name, '!', scope_types=st))
    outs = []
    for q in sc['queries']:
        rule = q['rule']
        if isinstance(rule, dict):
            chk = _parser.parse_rule(rule['check'])
            if rule.get('scope') is not None:
                chk.scope_types = rule['scope']
            rule = chk
        kw = {}
        args = ()
        if q.get('do_raise'):
            kw['do_raise'] = True
        if q.get('exc'):
            kw['exc'] = impl.CustomExc
            args = tuple(q.get('exc_args', ()))
            kw.update(q.get('exc_kwargs', {}))
        creds = copy.deepcopy(q['creds'])
        target = copy.deepcopy(q['target'])
        fn = e.authorize if q.get('authorize') else e.enforce
        if q.get('exc'):
            outs.append(impl.outcome(lambda: fn(rule, target, creds, q.get('do_raise', False), impl.CustomExc,
                                                *args, **q.get('exc_kwargs', {}))))
        else:
            outs.append(impl.outcome(lambda: fn(rule, target, creds, **kw)))
    return outs


def effective_default(sc):
    """What Enforcer.__init__ computes: default_rule or conf.policy_default_rule."""
    d = sc.get('default')
    if isinstance(d, dict):
        return d
    if d:
        return d
    opt = sc.get('default_opt')
    return 'default' if opt is None else opt      # '' = option overridden to empty: no default rule at all


def model_request(sc):
    texts = []
    for v in sc['rules'].values():
        texts.extend(_leaf_texts(v))
    for q in sc['queries']:
        if isinstance(q['rule'], dict):
            texts.extend(_leaf_texts(q['rule']['check']))
    d = effective_default(sc)
    if isinstance(d, dict):
        texts.extend(_leaf_texts(d['check']))
        dd = {'check': driver.enc(d['check'])}
    else:
        dd = d
    qs = []
    for q in sc['queries']:
        mq = {'rule': q['rule'] if isinstance(q['rule'], str) else
              {'check': driver.enc(q['rule']['check']), 'scope': q['rule'].get('scope')},
              'target': q['target'], 'creds': q['creds'], 'do_raise': bool(q.get('do_raise')),
              'exc': bool(q.get('exc')), 'authorize': bool(q.get('authorize'))}
        qs.append(mq)
    rq = common.enforce_request(sc['rules'], qs, default=dd,
                                registered=[[n, st] for n, st in sc.get('registered', [])],
                                enforce_scope=sc.get('enforce_scope', True), lit=common.lit_table(texts))
    if 'remote' in sc:
        rq['remote'] = sc['remote']
    return rq


def _leaf_texts(v):
    """Leaf check texts occurring in a rule value (for the literal table): split text rules on whitespace/parens."""
    out = []
    if isinstance(v, str):
        for w in v.split():
            out.append(w.strip('()'))
    elif isinstance(v, list):
        for x in v:
            if isinstance(x, str):
                out.append(x)
            elif isinstance(x, list):
                out.extend(y for y in x if isinstance(y, str))
    return out


def run_all(rep, scenarios, suite, check=None):
    """Run every scenario on both sides; record disagreements; call check(sc, impl_outs) for the
    direct property oracle. Returns list of impl outcome lists."""
    answers = driver.call([model_request(sc) for sc in scenarios])
    res = []
    for sc, ans in zip(scenarios, answers):
        io = impl_run(sc)
        mo = ans['out']
        for i, (a, b) in enumerate(zip(io, mo)):
            if a != b:
                rep.disagree(suite, {'scenario': {k: v for k, v in sc.items() if k != 'queries'},
                                     'query': sc['queries'][i]}, b, a)
        if check is not None:
            check(sc, io)
        res.append(io)
    return res
