"""Adapters that call the real oslo.policy code in-process and canonicalise what comes back."""
import json
import logging
import zlib

from oslo_config import cfg
from oslo_policy import _parser, opts, policy

logging.disable(logging.CRITICAL)
logging.getLogger().addHandler(logging.NullHandler())   # never fall back to stderr

DISALLOWED = ' is disallowed by policy'


class CustomExc(Exception):
    def __init__(self, *args, **kwargs):
        super().__init__(*args)
        self.kw = kwargs


def new_conf(args=None, **overrides):
    conf = cfg.ConfigOpts()
    conf(args=args or [], project='opverif', default_config_files=[], default_config_dirs=[])
    opts._register(conf)
    for k, v in overrides.items():
        conf.set_override(k, v, group='oslo_policy')
    return conf


def outcome(fn):
    """Run fn() (an enforce/authorize call) and canonicalise."""
    try:
        r = fn()
    except policy.PolicyNotAuthorized as e:
        s = str(e)
        return 'raise:PolicyNotAuthorized:' + (s[:-len(DISALLOWED)] if s.endswith(DISALLOWED) else s)
    except policy.InvalidScope:
        return 'raise:InvalidScope'
    except policy.InvalidContextObject:
        return 'raise:InvalidContextObject'
    except policy.PolicyNotRegistered as e:
        s = str(e)
        pre, suf = 'Policy ', ' has not been registered'
        return 'raise:PolicyNotRegistered:' + (s[len(pre):-len(suf)] if s.startswith(pre) and s.endswith(suf) else s)
    except CustomExc:
        return 'raise:Custom'
    except RecursionError:
        return 'raise:RecursionError'
    except Exception as e:      # noqa
        return 'raise:' + type(e).__name__
    return 'allow' if r else 'deny'


def install_rules(e, rules_dict, overwrite=True):
    """Hand a rule set to an enforcer in one of the ways a service may (all equivalent by the set_rules contract: the
    enforcer re-wraps whatever it is given with its own default rule). The way is a function of the rule set itself, so
    a replay of the same case installs it the same way."""
    how = zlib.crc32(repr(sorted(rules_dict.items(), key=lambda kv: repr(kv[0]))).encode('utf-8', 'replace')) % 4
    if how == 0:
        rules = policy.Rules.from_dict(rules_dict, e.default_rule)
    elif how == 1:
        rules = policy.Rules.from_dict(rules_dict)                       # a Rules object without a default rule
    elif how == 2:
        rules = {k: _parser.parse_rule(v) for k, v in rules_dict.items()}  # a plain dict of checks
    else:
        try:
            rules = policy.Rules.load(json.dumps(rules_dict))            # as read from a policy file's text
        except (TypeError, ValueError):
            rules = policy.Rules.from_dict(rules_dict)
    if overwrite:
        e.set_rules(rules)          # as a service writes it: the defaults (overwrite=True, use_conf=False) are part of the API
    else:
        e.set_rules(rules, overwrite=False, use_conf=False)
    return how


class Enf:
    """A real Enforcer that does not read files (use_conf=False): rules come from set_rules."""

    def __init__(self, default_rule=None, conf=None, **overrides):
        self.conf = conf or new_conf(**overrides)
        self.e = policy.Enforcer(self.conf, use_conf=False, default_rule=default_rule)

    def set_rules(self, rules_dict):
        install_rules(self.e, rules_dict)

    def decide(self, name, target, creds, **kw):
        return outcome(lambda: self.e.enforce(name, target, creds, **kw))


def parse_str(v):
    try:
        t = _parser.parse_rule(v)
    except Exception as e:   # noqa
        return 'raise:' + type(e).__name__
    if not isinstance(t, policy._checks.BaseCheck):
        return 'bogus:' + type(t).__name__
    return str(t)
