"""Adapters that call the real oslo.policy code in-process and canonicalise what comes back."""
import logging

from oslo_config import cfg
from oslo_policy import _parser, opts, policy

logging.disable(logging.CRITICAL)
logging.getLogger().addHandler(logging.NullHandler())   # never fall back to stderr

DISALLOWED = ' is disallowed by policy'


class CustomExc(Exception):
    def __init__(self, *args, **kwargs):
        super().__init__(*args)
        self.kw = kwargs


def new_conf(args=None, **overrides):
    conf = cfg.ConfigOpts()
    conf(args=args or [], project='opverif', default_config_files=[], default_config_dirs=[])
    opts._register(conf)
    for k, v in overrides.items():
        conf.set_override(k, v, group='oslo_policy')
    return conf


def outcome(fn):
    """Run fn() (an enforce/authorize call) and canonicalise."""
    try:
        r = fn()
    except policy.PolicyNotAuthorized as e:
        s = str(e)
        return 'raise:PolicyNotAuthorized:' + (s[:-len(DISALLOWED)] if s.endswith(DISALLOWED) else s)
    except policy.InvalidScope:
        return 'raise:InvalidScope'
    except policy.InvalidContextObject:
        return 'raise:InvalidContextObject'
    except policy.PolicyNotRegistered as e:
        s = str(e)
        pre, suf = 'Policy ', ' has not been registered'
        return 'raise:PolicyNotRegistered:' + (s[len(pre):-len(suf)] if s.startswith(pre) and s.endswith(suf) else s)
    except CustomExc:
        return 'raise:Custom'
    except RecursionError:
        return 'raise:RecursionError'
    except Exception as e:      # noqa
        return 'raise:' + type(e).__name__
    return 'allow' if r else 'deny'


class Enf:
    """A real Enforcer that does not read files (use_conf=False): rules come from set_rules."""

    def __init__(self, default_rule=None, conf=None, **overrides):
        self.conf = conf or new_conf(**overrides)
        self.e = policy.Enforcer(self.conf, use_conf=False, default_rule=default_rule)

    def set_rules(self, rules_dict):
        self.e.set_rules(policy.Rules.from_dict(rules_dict, self.e.default_rule), use_conf=False)

    def decide(self, name, target, creds, **kw):
        return outcome(lambda: self.e.enforce(name, target, creds, **kw))


def parse_str(v):
    try:
        t = _parser.parse_rule(v)
    except Exception as e:   # noqa
        return 'raise:' + type(e).__name__
    if not isinstance(t, policy._checks.BaseCheck):
        return 'bogus:' + type(t).__name__
    return str(t)
