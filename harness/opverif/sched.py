"""Deterministic two-thread scheduler at source-line granularity inside oslo_policy (sys.settrace).

A schedule is a list of segments (thread_index, n_lines | None); a thread runs until its segment's
quota of line events is used up, then the next segment's thread runs (hand-over-hand)."""
import os
import sys
import threading

LIB = os.sep + 'oslo_policy' + os.sep


class Interleaver:
    def __init__(self, funcs, segments):
        self.funcs = funcs
        self.segments = [list(s) for s in segments]
        self.cond = threading.Condition()
        self.seg = 0
        self.finished = [False] * len(funcs)
        self.results = [None] * len(funcs)
        self.counts = [0] * len(funcs)
        self.pauses = []          # (thread, stack of function names) at each hand-over
        self._skip()

    def _skip(self):
        while self.seg < len(self.segments) and self.finished[self.segments[self.seg][0]]:
            self.seg += 1

    def _turn(self):
        if self.seg < len(self.segments):
            return self.segments[self.seg][0]
        # schedule exhausted: let unfinished threads run in index order
        for i, f in enumerate(self.finished):
            if not f:
                return i
        return None

    def _wait_turn(self, tid):
        while self._turn() != tid:
            self.cond.wait(5.0)

    def _tracer(self, tid):
        def local(frame, event, arg):
            if event == 'line':
                with self.cond:
                    self.counts[tid] += 1
                    if self.seg < len(self.segments) and self.segments[self.seg][0] == tid:
                        q = self.segments[self.seg][1]
                        if q is not None:
                            q -= 1
                            self.segments[self.seg][1] = q
                            if q <= 0:
                                st = []
                                f = frame
                                while f is not None:
                                    if LIB in f.f_code.co_filename:
                                        st.append(f.f_code.co_name)
                                    f = f.f_back
                                self.pauses.append((tid, list(reversed(st)), frame.f_lineno))
                                self.seg += 1
                                self._skip()
                                self.cond.notify_all()
                                self._wait_turn(tid)
            return local

        def tracer(frame, event, arg):
            if LIB not in frame.f_code.co_filename or (os.sep + 'tests' + os.sep) in frame.f_code.co_filename:
                return None
            return local
        return tracer

    def _body(self, tid):
        with self.cond:
            self._wait_turn(tid)
        sys.settrace(self._tracer(tid))
        try:
            try:
                self.results[tid] = ('ok', self.funcs[tid]())
            except BaseException as e:     # noqa
                self.results[tid] = ('raise', type(e).__name__)
        finally:
            sys.settrace(None)
            with self.cond:
                self.finished[tid] = True
                self._skip()
                self.cond.notify_all()

    def run(self):
        ths = [threading.Thread(target=self._body, args=(i,)) for i in range(len(self.funcs))]
        for t in ths:
            t.start()
        for t in ths:
            t.join(30.0)
        return self.results
