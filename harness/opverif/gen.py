"""Seeded generators shared by the suites. Every random choice comes from the rng passed in."""
import itertools

WS = [' ', ' ', ' ', '  ', '\t', '\n', '\r\n', '\x0b', '\x0c', '\x1c', '\x85', '\xa0', ' ',
      ' ', '　', ' \t ']
ROLES = ['r0', 'r1', 'r2', 'r3', 'r4', 'r5']


# ---------------------------------------------------------------------------------------
# Stratified expressions, mirroring Spec/Grammar.lean:
#   E2 ::= ('leaf', text) | ('paren', E0) | ('not', E2)
#   E1 ::= ('up1', E2) | ('and', E1, E2)
#   E0 ::= ('up0', E1) | ('or', E0, E1)

def gen_e2(rng, depth, leaf):
    r = rng.random()
    if depth <= 0 or r < 0.55:
        return ('leaf', leaf(rng))
    if r < 0.8:
        return ('paren', gen_e0(rng, depth - 1, leaf))
    return ('not', gen_e2(rng, depth - 1, leaf))


def gen_e1(rng, depth, leaf):
    e = ('up1', gen_e2(rng, depth, leaf))
    while rng.random() < 0.4:
        e = ('and', e, gen_e2(rng, depth, leaf))
    return e


def gen_e0(rng, depth, leaf):
    e = ('up0', gen_e1(rng, depth, leaf))
    while rng.random() < 0.4:
        e = ('or', e, gen_e1(rng, depth, leaf))
    return e


def render(e):
    """Token yield: list of ('(',) (')',) ('and',) ('or',) ('not',) ('check', text)."""
    k = e[0]
    if k == 'leaf':
        return [('check', e[1])]
    if k == 'paren':
        return [('(',)] + render(e[1]) + [(')',)]
    if k == 'not':
        return [('not',)] + render(e[1])
    if k in ('up1', 'up0'):
        return render(e[1])
    if k == 'and':
        return render(e[1]) + [('and',)] + render(e[2])
    if k == 'or':
        return render(e[1]) + [('or',)] + render(e[2])
    raise ValueError(k)


def den(e, val):
    """Boolean value with precedence () > not > and > or; val(leaf_text) -> bool."""
    k = e[0]
    if k == 'leaf':
        return val(e[1])
    if k in ('paren', 'up1', 'up0'):
        return den(e[1], val)
    if k == 'not':
        return not den(e[1], val)
    if k == 'and':
        return den(e[1], val) and den(e[2], val)
    if k == 'or':
        return den(e[1], val) or den(e[2], val)
    raise ValueError(k)


def leaves(e):
    if e[0] == 'leaf':
        return [e[1]]
    out = []
    for c in e[1:]:
        out.extend(leaves(c))
    return out


def ejson(e):
    k = e[0]
    if k == 'leaf':
        return {'leaf': e[1]}
    if k in ('paren', 'not', 'up1', 'up0'):
        return {k: ejson(e[1])}
    return {k: [ejson(e[1]), ejson(e[2])]}


def rand_case(rng, w):
    return ''.join(c.upper() if rng.random() < 0.5 else c.lower() for c in w)


def layout(rng, toks, plain=False):
    """Spell a token list as text: any non-empty whitespace between words, '(' glued to
    what follows and ')' to what precedes (or not), keywords in any letter case."""
    out = []
    prev = None
    if not plain and rng.random() < 0.2:
        out.append(rng.choice(WS))
    for t in toks:
        kind = t[0]
        text = t[1] if kind == 'check' else (rand_case(rng, kind) if (kind in ('and', 'or', 'not') and not plain) else kind)
        if prev is not None:
            glue = False
            if not plain:
                if prev == '(' and rng.random() < 0.7:
                    glue = True          # '(' glued to what follows
                elif kind == ')' and rng.random() < 0.7:
                    glue = True          # ')' glued to what precedes
            if not glue:
                out.append(' ' if plain else rng.choice(WS))
        out.append(text)
        prev = kind
    if not plain and rng.random() < 0.2:
        out.append(rng.choice(WS))
    return ''.join(out)


def subsets(xs):
    xs = list(xs)
    for r in range(len(xs) + 1):
        for c in itertools.combinations(xs, r):
            yield list(c)


# ---------------------------------------------------------------------------------------
# Independent recogniser for token sequences (used by C01/C02 on exhaustive enumerations)

def recognise(toks):
    """Return a stratified expression if `toks` is a sentence of the documented grammar, else None."""
    pos = [0]

    def peek():
        return toks[pos[0]][0] if pos[0] < len(toks) else None

    def e2():
        k = peek()
        if k == 'check':
            t = toks[pos[0]]
            pos[0] += 1
            return ('leaf', t[1])
        if k == '(':
            pos[0] += 1
            e = e0()
            if e is None or peek() != ')':
                return None
            pos[0] += 1
            return ('paren', e)
        if k == 'not':
            pos[0] += 1
            e = e2()
            return None if e is None else ('not', e)
        return None

    def e1():
        e = e2()
        if e is None:
            return None
        e = ('up1', e)
        while peek() == 'and':
            pos[0] += 1
            r = e2()
            if r is None:
                return None
            e = ('and', e, r)
        return e

    def e0():
        e = e1()
        if e is None:
            return None
        e = ('up0', e)
        while peek() == 'or':
            pos[0] += 1
            r = e1()
            if r is None:
                return None
            e = ('or', e, r)
        return e

    e = e0()
    if e is None or pos[0] != len(toks):
        return None
    return e
