"""./check CXX [--tier quick|thorough] [--replay FILE]

Exit 0: property held on everything explored (KNOWN-FINDING lines allowed).
Exit 1: a line `VIOLATION property=<id> replay=<path>` was printed.
Exit 2: the tooling failed (never a violation).
"""
import argparse
import importlib
import json
import logging
import os
import random
import re
import sys
import time
import traceback
import warnings

from . import build, driver
from .report import Report, jsonable

TRUSTED_BASE = [
    "Lean 4.33.0 kernel (thorough tier: leanchecker re-check of the compiled .olean files)",
    "axioms admitted: propext, Classical.choice, Quot.sound only (audited per theorem on every run)",
    "Lean compiler/runtime for the executable driver that runs the model's definitions",
    "harness/opverif (table extractor, generators, canonicalisation, correspondence diff)",
    "Python runtime behaviour taken as parameters of the model (see assumptions)",
]


class Ctx:
    def __init__(self, prop, tier, seed):
        self.prop = prop
        self.tier = tier
        self.seed = seed
        self.rng = random.Random(seed)
        self.thorough = tier == 'thorough'
        self.scale = 1.0
        self.boost = False     # set when an obligation is already known broken

    def n(self, quick, thorough):
        """Random-case budget; tripled when an obligation is already known to be broken."""
        v = thorough if self.thorough else quick
        if self.boost and not self.thorough:
            v *= 3
        return int(v)

    def bound(self, quick, thorough):
        """Size/length bound of an exhaustive enumeration (never boosted)."""
        return thorough if self.thorough else quick


def load_known():
    p = os.path.join(driver.ROOT, 'known_findings.json')
    with open(p) as fh:
        return json.load(fh)


def match_known(prop, failure, known):
    for f in known.get('findings', []):
        if f['property'] != prop:
            continue
        if re.search(f['key_regex'], failure['key']):
            return f
    return None


def main(argv=None):
    ap = argparse.ArgumentParser()
    ap.add_argument('prop')
    ap.add_argument('--tier', default=os.environ.get('VERIF_TIER', 'quick'))
    ap.add_argument('--replay')
    ap.add_argument('--no-build', action='store_true')
    args = ap.parse_args(argv)
    prop = args.prop.upper()
    tier = args.tier if args.tier in ('quick', 'thorough') else 'quick'
    seed = int(os.environ.get('VERIF_SEED', '0') or 0)
    t0 = time.time()
    logging.disable(logging.CRITICAL)
    warnings.simplefilter('ignore')
    try:
        suite = importlib.import_module('opverif.suites.%s' % prop.lower())
    except ImportError:
        traceback.print_exc()
        print('no suite for %s' % prop)
        return 2
    ctx = Ctx(prop, tier, seed)
    try:
        if args.no_build:
            ob = {'obligations': [], 'broken': [], 'detail': {}, 'axioms': {}, 'wall_s': 0}
        else:
            ob = build.prepare(prop, thorough=ctx.thorough)
    except build.ToolFailure as e:
        print('TOOL FAILURE: %s' % e)
        return 2
    except Exception:
        traceback.print_exc()
        return 2
    ctx.boost = bool(ob['broken'])
    rep = Report()
    try:
        if args.replay:
            with open(args.replay) as fh:
                suite.replay(ctx, rep, json.load(fh))
        else:
            suite.run(ctx, rep)
    except driver.DriverError as e:
        print('TOOL FAILURE: %s' % e)
        return 2
    except Exception as e:
        tb = traceback.extract_tb(e.__traceback__)
        in_lib = [fr for fr in tb if os.sep + 'oslo_policy' + os.sep in fr.filename and os.sep + 'tests' + os.sep not in fr.filename]
        if not in_lib:
            traceback.print_exc()
            print('TOOL FAILURE: suite crashed')
            return 2
        # the exception was raised inside the library under check while the suite exercised it: on the unchanged tree this
        # does not happen, so the code has left the behaviour the model mirrors; reported like a lost correspondence
        # (with whatever failing inputs the suite had already found)
        where = in_lib[-1]
        rep.disagree('library-raised', {'exception': '%s: %s' % (type(e).__name__, str(e)[:300]),
                                        'raised_at': '%s:%d in %s' % (where.filename, where.lineno, where.name),
                                        'suite_frame': next(('%s:%d' % (fr.filename, fr.lineno) for fr in reversed(tb)
                                                             if os.sep + 'opverif' + os.sep in fr.filename), '?')},
                     'no exception', 'exception escaped from the library')

    known = load_known()
    new_failures, known_hits = [], {}
    for f in rep.failures:
        k = match_known(prop, f, known)
        if k is None:
            new_failures.append(f)
        else:
            known_hits.setdefault(k['id'], (k, f))
    for kid, (k, f) in sorted(known_hits.items()):
        print('KNOWN-FINDING: property=%s %s [%s] e.g. %s' % (prop, k['what'], kid, f['key']))

    # VERIF_OUT redirects evidence/ and replays/ (used only by tools/seed_matrix.py for parallel what-if runs;
    # registered commands never set it)
    out_root = os.environ.get('VERIF_OUT') or driver.ROOT
    os.makedirs(os.path.join(out_root, 'replays'), exist_ok=True)
    rc = 0
    replay_path = None
    if new_failures:
        f = new_failures[0]
        replay_path = os.path.join(out_root, 'replays', '%s-%d.json' % (prop, seed))
        with open(replay_path, 'w') as fh:
            json.dump(jsonable({'property': prop, 'kind': 'failing-input', 'what': f['what'],
                                'key': f['key'], 'case': f['case'], 'seed': seed, 'tier': tier,
                                'others': [x['key'] for x in new_failures[1:20]]}), fh, indent=1)
        print('VIOLATION property=%s replay=%s' % (prop, replay_path))
        print('  %s' % f['what'])
        rc = 1
    elif ob['broken'] or rep.disagreements:
        replay_path = os.path.join(out_root, 'replays', '%s-%d.json' % (prop, seed))
        with open(replay_path, 'w') as fh:
            json.dump(jsonable({'property': prop, 'kind': 'no-failing-input-found',
                                'broken_obligations': ob['broken'], 'detail': ob['detail'],
                                'broken_correspondence': rep.disagreements[:10],
                                'seed': seed, 'tier': tier}), fh, indent=1)
        what = ob['broken'][:3] + ['correspondence:%s' % d['suite'] for d in rep.disagreements[:3]]
        print('VIOLATION property=%s replay=%s no-failing-input-found' % (prop, replay_path))
        print('  no longer checks: %s' % ', '.join(what))
        rc = 1

    n_ob = len(ob['obligations'])
    n_ok = n_ob - len(ob['broken'])
    meta = getattr(suite, 'META', {})
    coverage = {
        'obligations': max(n_ob, 1) if not args.no_build else 1,
        'discharged': max(n_ok, 0) if not args.no_build else 1,
        'checker_cmd': 'cd lean && lake build && lake env lean Audit_%s.lean  (#print axioms on: %s)'
                       % (prop, ', '.join(build.registry().get(prop, {}).get('theorems', [])[:40])),
        'trusted_base': TRUSTED_BASE + meta.get('trusted', []),
        'theorems': ob['axioms'],
        'broken_obligations': ob['broken'],
        'evaluations': rep.evaluations,
        'distinct_nontrivial': len(rep.nontrivial),
        'rule': ' | '.join(rep.rules) or meta.get('rule', ''),
        'samples': jsonable(rep.samples) or ['(none)'],
        'traces_validated_against_impl': rep.evaluations,
        'correspondence_disagreements': len(rep.disagreements),
        'input_distribution': dict(rep.stats),
        'known_findings_hit': sorted(known_hits),
        'build_wall_s': ob['wall_s'],
    }
    coverage.update(jsonable(rep.extra))
    ev = {
        'property_id': prop, 'tier': tier, 'seed': seed, 'level': 'proof',
        'coverage': coverage,
        'assumptions': meta.get('assumptions', []),
        'wall_s': round(time.time() - t0, 2),
        'violations': len(new_failures) if new_failures else (1 if rc else 0),
    }
    os.makedirs(os.path.join(out_root, 'evidence'), exist_ok=True)
    with open(os.path.join(out_root, 'evidence', '%s.json' % prop), 'w') as fh:
        json.dump(ev, fh, indent=1, sort_keys=True)
    if rc == 0:
        print('OK property=%s tier=%s seed=%d obligations=%d/%d cases=%d nontrivial=%d wall=%.1fs' % (
            prop, tier, seed, n_ok, n_ob, rep.evaluations, len(rep.nontrivial), time.time() - t0))
    return rc


if __name__ == '__main__':
    sys.exit(main())
