"""Per-run bookkeeping shared by all suites: counts, samples, disagreements, failures."""
import collections
import json


class Report:
    def __init__(self):
        self.evaluations = 0
        self.nontrivial = set()
        self.samples = []
        self.stats = collections.Counter()
        self.disagreements = []     # model vs implementation (broken correspondence)
        self.failures = []          # the property itself fails on the implementation
        self.rules = []             # text: how cases are generated / what is non-trivial
        self.extra = {}

    def case(self, key=None, nontrivial=False, sample=None, n=1):
        self.evaluations += n
        if nontrivial and key is not None:
            self.nontrivial.add(key if isinstance(key, (str, int, tuple)) else json.dumps(key, sort_keys=True, default=str))
        if sample is not None and len(self.samples) < 8:
            self.samples.append(sample)

    def stat(self, name, n=1):
        self.stats[name] += n

    def disagree(self, suite, case, model, impl):
        self.disagreements.append({'suite': suite, 'case': case, 'model': model, 'impl': impl})

    def fail(self, key, what, case):
        """key identifies the failing input for known-finding matching."""
        self.failures.append({'key': key, 'what': what, 'case': case})


def jsonable(x):
    try:
        json.dumps(x)
        return x
    except Exception:
        if isinstance(x, dict):
            return {str(k): jsonable(v) for k, v in x.items()}
        if isinstance(x, (list, tuple, set)):
            return [jsonable(v) for v in x]
        return repr(x)
