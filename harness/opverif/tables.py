"""Extract, from the current /repo working tree and the running interpreter, the tables
the Lean obligations in Properties/Tie.lean are checked against on every run.

Generated/PyTables.lean   — CPython facts (whitespace set, lower-case map); used by the driver too
Generated/RepoTables.lean — oslo.policy facts (reducer table, tokenizer constants, check kinds,
                            option defaults, exception classes); imported by Tie.lean only

A table that cannot be extracted (a refactor moved it) is written as an empty/sentinel
value so that the corresponding obligation fails visibly instead of being skipped.
"""
import ast
import inspect
import os
import textwrap

from . import driver

GEN = os.path.join(driver.ROOT, 'lean', 'OsloPolicy', 'Generated')


def lstr(s):
    out = []
    for c in s:
        o = ord(c)
        if c == '"':
            out.append('\\"')
        elif c == '\\':
            out.append('\\\\')
        elif 32 <= o < 127:
            out.append(c)
        elif o <= 0xFFFF:
            out.append('\\u%04x' % o)
        else:
            out.append(c)
    return '"' + ''.join(out) + '"'


def llist(xs, f=lstr):
    return '[' + ', '.join(f(x) for x in xs) + ']'


def write_if_changed(path, text):
    old = None
    if os.path.exists(path):
        with open(path, encoding='utf-8') as fh:
            old = fh.read()
    if old != text:
        tmp = path + '.tmp%d' % os.getpid()
        with open(tmp, 'w', encoding='utf-8') as fh:
            fh.write(text)
        os.replace(tmp, path)
        return True
    return False


def py_tables():
    sp = [c for c in range(0x110000) if chr(c).isspace()]
    import re
    sp_re = [c for c in range(0x110000) if re.match(r'\s', chr(c))]
    pairs = []
    into_kw = []   # code points whose lower() contains a letter of and/or/not
    for c in range(0x110000):
        if 0xD800 <= c <= 0xDFFF:
            continue
        low = chr(c).lower()
        if len(low) == 1 and low != chr(c):
            pairs.append((c, ord(low)))
        if any(ch in 'andort' for ch in low):
            into_kw.append(c)
    out = ['namespace OsloPolicy.Generated',
           '/-- code points with `str.isspace()` -/',
           'def pySpaceCodes : List Nat := %s' % sp,
           '/-- code points matched by `re` `\\s` -/',
           'def pyReSpaceCodes : List Nat := %s' % sp_re,
           '/-- code points whose `str.lower()` contains one of the letters a n d o r t -/',
           'def pyLowerIntoKeyword : List Nat := %s' % into_kw]
    chunks = [pairs[i:i + 64] for i in range(0, len(pairs), 64)]
    for i, ch in enumerate(chunks):
        out.append('def pyLowerPairs%d : List (Nat × Nat) := [%s]' % (
            i, ', '.join('(%d, %d)' % p for p in ch)))
    out.append('def pyLowerPairs : List (Nat × Nat) := List.flatten [%s]' % ', '.join(
        'pyLowerPairs%d' % i for i in range(len(chunks))))
    out.append('end OsloPolicy.Generated')
    return '\n'.join(out) + '\n'


def _tokenizer_constants():
    """Keyword set and quote pairs of `_parse_tokenize`.

    Candidates are read from the source (every string constant of the module, every module-level sequence, every
    `x in <sequence>` test reachable from `_parse_tokenize`) plus a fixed list of plausible additions; a candidate is kept
    when the tokenizer itself treats it as a keyword / as a quote pair. So a refactoring that moves the literals around
    changes nothing, while a keyword or quote pair added to or dropped from the code changes the table."""
    import logging
    import string
    from oslo_policy import _parser
    kws, quotes = [], []
    logging.disable(logging.CRITICAL)      # junk probes make _parse_check log
    try:
        mod = ast.parse(inspect.getsource(_parser))
        consts = {n.value for n in ast.walk(mod) if isinstance(n, ast.Constant) and isinstance(n.value, str)}
        for v in [getattr(_parser, n) for n in dir(_parser) if not n.startswith('__')]:
            if isinstance(v, (tuple, list, set, frozenset)):
                for x in v:
                    if isinstance(x, str):
                        consts.add(x)
                    elif isinstance(x, (tuple, list)):
                        consts |= {y for y in x if isinstance(y, str)}
        words = sorted({w.lower() for w in consts if w and not any(c.isspace() or c in '()' for c in w)} |
                       {'and', 'or', 'not', 'xor', 'nand', 'nor', 'if', 'in', 'is', '&&', '||', '&', '|', '~'})
        for w in words:
            try:
                toks = list(_parser._parse_tokenize(w))
            except Exception:
                continue
            if len(toks) == 1 and toks[0][0] == w and toks[0][1] == w:
                kws.append(w)
        chars = sorted((set(string.punctuation) | {c for w in consts if len(w) <= 2 for c in w} | set('‘’“”«»`'))
                       - set('()') - set(string.whitespace))
        for a in chars:
            for b in chars:
                try:
                    toks = list(_parser._parse_tokenize(a + 'x' + b))
                except Exception:
                    continue
                if len(toks) == 1 and toks[0][0] == 'string' and toks[0][1] == 'x':
                    quotes.append([a, b])
    except Exception:
        pass
    finally:
        logging.disable(logging.NOTSET)
    return kws, quotes


def repo_tables():
    out = ['namespace OsloPolicy.Generated']
    # reducer table
    try:
        from oslo_policy import _parser
        red = [(list(p), m) for p, m in _parser.ParseState.reducers]
    except Exception:
        red = []
    out.append('/-- `ParseState.reducers`: (pattern bottom→top, method name) in metaclass order -/')
    out.append('def reducers : List (List String × String) := [%s]' % ', '.join(
        '(%s, %s)' % (llist(p), lstr(m)) for p, m in red))
    try:
        from oslo_policy import _parser
        unred = list(_parser._UNREDUCED_TOKENS)
    except Exception:
        unred = []
    out.append('def unreducedTokens : List String := %s' % llist(unred))
    kws, quotes = _tokenizer_constants()
    out.append('def keywords : List String := %s' % llist(kws))
    out.append('def quotePairs : List (List String) := [%s]' % ', '.join(llist(q) for q in quotes))
    try:
        from oslo_policy import _parser
        pat = _parser._tokenize_re.pattern
    except Exception:
        pat = ''
    out.append('def tokenizeRe : String := %s' % lstr(pat))
    # registered check kinds (None ↦ "<None>")
    try:
        from oslo_policy import _checks
        kinds = sorted('<None>' if k is None else k for k in _checks.registered_checks)
        exts = sorted(_checks.get_extensions())
    except Exception:
        kinds, exts = [], []
    out.append('def registeredKinds : List String := %s' % llist(kinds))
    out.append('def extensionKinds : List String := %s' % llist(exts))
    # option defaults
    try:
        from oslo_policy import opts
        d = {o.name: o.default for o in opts._options}
    except Exception:
        d = {}

    def b(x):
        return 'true' if x else 'false'
    out.append('def optEnforceScope : Bool := %s' % b(d.get('enforce_scope') is True))
    out.append('def optEnforceNewDefaults : Bool := %s' % b(d.get('enforce_new_defaults') is True))
    out.append('def optPolicyFile : String := %s' % lstr(str(d.get('policy_file'))))
    out.append('def optPolicyDefaultRule : String := %s' % lstr(str(d.get('policy_default_rule'))))
    out.append('def optPolicyDirs : List String := %s' % llist([str(x) for x in (d.get('policy_dirs') or [])]))
    out.append('def optRemoteContentType : String := %s' % lstr(str(d.get('remote_content_type'))))
    # documented exceptions
    try:
        from oslo_policy import policy
        excs = [n for n in ('PolicyNotAuthorized', 'InvalidScope', 'InvalidContextObject',
                            'PolicyNotRegistered', 'InvalidDefinitionError', 'DuplicatePolicyError')
                if isinstance(getattr(policy, n, None), type) and issubclass(getattr(policy, n), Exception)]
    except Exception:
        excs = []
    out.append('def exceptionClasses : List String := %s' % llist(excs))
    # default values of the parameters of the public entry points the models assume (inspect.signature)
    api = []
    try:
        from oslo_policy import policy, shell
        for label, fn, params in (
                ('Enforcer', policy.Enforcer.__init__, ('policy_file', 'rules', 'default_rule', 'use_conf', 'overwrite',
                                                        'fallback_to_json_file')),
                ('Enforcer.enforce', policy.Enforcer.enforce, ('do_raise', 'exc')),
                ('Enforcer.authorize', policy.Enforcer.authorize, ('do_raise', 'exc')),
                ('Enforcer.load_rules', policy.Enforcer.load_rules, ('force_reload',)),
                ('Enforcer.set_rules', policy.Enforcer.set_rules, ('overwrite', 'use_conf')),
                ('Enforcer.check_rules', policy.Enforcer.check_rules, ('raise_on_violation',)),
                ('Rules.load', policy.Rules.load, ('default_rule',)),
                ('Rules.from_dict', policy.Rules.from_dict, ('default_rule',)),
                ('RuleDefault', policy.RuleDefault.__init__, ('deprecated_rule', 'deprecated_for_removal', 'scope_types')),
                ('shell.tool', shell.tool, ('is_admin', 'target_file', 'enforcer_config'))):
            sig = inspect.signature(fn)
            for prm in params:
                d = sig.parameters[prm].default if prm in sig.parameters else '<missing>'
                api.append(['%s.%s' % (label, prm), '<required>' if d is inspect.Parameter.empty else repr(d)])
    except Exception:
        api = []
    out.append('/-- defaults of the public entry points (`inspect.signature`) -/')
    out.append('def apiDefaults : List (String × String) := [%s]' % ', '.join('(%s, %s)' % (lstr(a), lstr(b)) for a, b in api))
    out.append('end OsloPolicy.Generated')
    return '\n'.join(out) + '\n'


def regenerate():
    os.makedirs(GEN, exist_ok=True)
    a = write_if_changed(os.path.join(GEN, 'PyTables.lean'), py_tables())
    b = write_if_changed(os.path.join(GEN, 'RepoTables.lean'), repo_tables())
    return a, b
