"""Real policy files in a scratch directory, explicit integer mtimes, real Enforcers; and the
matching request for the model's `loader` op."""
import json
import os
import shutil
import tempfile

import yaml
from oslo_config import cfg
from oslo_policy import opts, policy

from . import driver, impl

DIRS = ['policy.d', 'extra.d']


def scratch(prefix):
    base = '/dev/shm' if os.path.isdir('/dev/shm') else None
    return tempfile.mkdtemp(prefix=prefix, dir=base)


_MADE = 0      # enforcers constructed so far in this run (deterministic: every suite run starts from 0)


class World:
    def __init__(self, dirs=DIRS, enforce_new_defaults=True, regs=(), policy_file=None, make_dirs=True):
        self.tmp = scratch('opverif-fs-')
        self.dirs = list(dirs)
        self.regs = list(regs)          # dicts: name, check_str, deprecated (old, oldstr) | None
        self.enforce_new_defaults = enforce_new_defaults
        self.conf = cfg.ConfigOpts()
        self.conf(args=['--config-dir', self.tmp], project='opverif', default_config_files=[])
        opts._register(self.conf)
        self.conf.set_override('policy_dirs', self.dirs, group='oslo_policy')
        self.conf.set_override('enforce_new_defaults', enforce_new_defaults, group='oslo_policy')
        self.policy_file = policy_file or 'policy.yaml'
        self.content = {}               # path -> parsed mapping (what we wrote)
        self.steps = []
        if make_dirs:
            for d in self.dirs:
                os.mkdir(os.path.join(self.tmp, d))
                os.utime(os.path.join(self.tmp, d), (1, 1))
        self.fs0 = self.snapshot()

    def close(self):
        shutil.rmtree(self.tmp, ignore_errors=True)

    # ---- files
    def path(self, fid):
        if fid[0] is None:
            return os.path.join(self.tmp, self.policy_file)
        return os.path.join(self.tmp, self.dirs[fid[0]], fid[1])

    def _stamp_dir(self, fid, t):
        if fid[0] is not None:
            os.utime(os.path.join(self.tmp, self.dirs[fid[0]]), (t, t))

    def write(self, fid, content, t, fmt='yaml', record=True):
        p = self.path(fid)
        with open(p, 'w') as fh:
            if fmt == 'json':
                fh.write(json.dumps(content))
            else:
                fh.write(yaml.safe_dump(content, default_flow_style=False) if content else '')
        os.utime(p, (t, t))
        self._stamp_dir(fid, t)
        self.content[p] = dict(content)
        if record:
            self.steps.append({'op': 'write', 'dir': fid[0], 'name': fid[1], 't': t,
                               'c': [[k, driver.enc(v)] for k, v in content.items()]})

    def touch(self, fid, t):
        p = self.path(fid)
        if os.path.exists(p):
            os.utime(p, (t, t))
        self.steps.append({'op': 'touch', 'dir': fid[0], 'name': fid[1], 't': t})

    def delete(self, fid, t):
        p = self.path(fid)
        if os.path.exists(p):
            os.unlink(p)
            self._stamp_dir(fid, t)
            self.content.pop(p, None)
        else:
            self._stamp_dir(fid, t)
        self.steps.append({'op': 'delete', 'dir': fid[0], 'name': fid[1], 't': t})

    def mkdir_entry(self, di, name, t):
        """a sub-directory inside a policy directory (must be ignored by the loader)"""
        p = os.path.join(self.tmp, self.dirs[di], name)
        os.mkdir(p)
        os.utime(p, (t, t))
        os.utime(os.path.join(self.tmp, self.dirs[di]), (t, t))

    def snapshot(self):
        def cont(p):
            return [[k, driver.enc(v)] for k, v in self.content.get(p, {}).items()]
        mp = os.path.join(self.tmp, self.policy_file)
        main = None
        if os.path.exists(mp):
            main = {'c': cont(mp), 't': int(os.path.getmtime(mp))}
        dirs = []
        for d in self.dirs:
            dp = os.path.join(self.tmp, d)
            if not os.path.isdir(dp):
                dirs.append(None)
                continue
            es = []
            for n in os.listdir(dp):
                ep = os.path.join(dp, n)
                es.append({'n': n, 'd': os.path.isdir(ep), 't': int(os.path.getmtime(ep)), 'c': cont(ep)})
            dirs.append({'t': int(os.path.getmtime(dp)), 'entries': es})
        return {'main': main, 'dirs': dirs}

    # ---- enforcers
    def rule_defaults(self):
        out = []
        for r in self.regs:
            dep = None
            if r.get('deprecated'):
                dep = policy.DeprecatedRule(r['deprecated'][0], r['deprecated'][1], deprecated_reason='r',
                                            deprecated_since='s')
            out.append(policy.RuleDefault(r['name'], r['check_str'], deprecated_rule=dep,
                                          scope_types=r.get('scope_types')))
        return out

    def new_enforcer(self, defaults=None, **kw):
        # every other enforcer is constructed before the deployment's enforce_new_defaults value is in place (a service may
        # build its enforcer before it has parsed its configuration): only the value at load time counts
        global _MADE
        _MADE += 1
        late = _MADE % 2 == 0
        if late:
            self.conf.set_override('enforce_new_defaults', not self.enforce_new_defaults, group='oslo_policy')
        e = policy.Enforcer(self.conf, **kw)
        if late:
            self.conf.set_override('enforce_new_defaults', self.enforce_new_defaults, group='oslo_policy')
        e.suppress_deprecation_warnings = True
        e.register_defaults(defaults if defaults is not None else self.rule_defaults())
        return e

    def load(self, enforcer, force=False):
        """load_rules on the long-lived enforcer; record the step for the model."""
        self.steps.append({'op': 'load', 'force': force, 'fs': self.snapshot()})
        try:
            enforcer.load_rules(force)
        except Exception as ex:    # noqa
            return 'raise:' + type(ex).__name__
        return None

    @staticmethod
    def reg_json(r):
        return {'name': r['name'], 'check_str': driver.enc(r['check_str']),
                'deprecated': [r['deprecated'][0], driver.enc(r['deprecated'][1])] if r.get('deprecated') else None}

    def register(self, enforcer, specs):
        """register_default on the long-lived enforcer between loads; recorded for the model."""
        by_name = {d.name: d for d in self.rule_defaults()}
        for r in specs:
            self.steps.append({'op': 'register', 'reg': self.reg_json(r)})
            enforcer.register_default(by_name[r['name']])

    def model_request(self, initial_regs=None):
        return {'op': 'loader', 'enforce_new_defaults': self.enforce_new_defaults,
                'regs': [self.reg_json(r) for r in (self.regs if initial_regs is None else initial_regs)],
                'fs': self.fs0, 'steps': self.steps}


def observe(enforcer):
    """{name: printed check} of the effective policy."""
    return {k: str(v) for k, v in enforcer.rules.items()}


def decisions(enforcer, names, creds_list, load=True):
    out = []
    for n in names:
        for c in creds_list:
            if load:
                out.append(impl.outcome(lambda: enforcer.enforce(n, {}, dict(c))))
            else:
                def f():
                    if not enforcer.rules:
                        return False
                    try:
                        chk = enforcer.rules[n]
                    except KeyError:
                        return False
                    return policy._checks._check(chk, {}, dict(c), enforcer, n)
                out.append(impl.outcome(f))
    return out
