"""Regenerate /verif/MANIFEST.json from the table below:  python -m opverif.manifest"""
import json
import os

from . import driver

LEVEL_NOTE = ("Trusted: Lean 4.33.0 kernel (leanchecker in the thorough tier); axioms propext, Classical.choice, "
              "Quot.sound only (audited on every run, no sorry/native_decide/own axioms); the hand-written model is tied "
              "to /repo by tables regenerated from the source on every run (Tie obligations) and by the differential "
              "correspondence check run by this command; ")

CHECKS = {
    'C01': dict(
        text="Theorems over the model, unbounded in expression size: the greedy shift-reduce parser accepts every sentence of "
             "the documented grammar (parse_complete); the tree it builds denotes the sentence with precedence ()>not>and>or "
             "for every valuation and the short-circuiting evaluator returns that value (parse_denotes, decision); every "
             "layout - any whitespace run of str.isspace, keyword case, glued parentheses - of a sentence parses to the same "
             "tree (lex_layout, layout_decision, layouts_agree); extra grouping never changes a decision (parens); constants. "
             "Correspondence: all token sequences up to a bound + random sentences x layouts x all assignments, list-of-lists "
             "shapes, against the real parser/enforcer and against Spec.den.",
        note="leaf semantics are C04/C05; str.lower/isspace are CPython's (tables re-extracted every run).",
        technique="Lean 4 proof (simulation by mutual induction on the grammar; character-level lexer lemma) + differential correspondence",
        design="§7 C01"),
    'C02': dict(
        text="Theorems: the parser accepts only sentences (sound: stack invariant carrying grammar derivations), so any "
             "non-sentence parses to ! and denies for every target/credentials (reject, text_fails_closed, text_denies, "
             "text_total); a quoted-string token never occurs in a sentence; a colon-free check is !; every rule value that is "
             "not a string or a list of strings / lists of strings denies (values_fail_closed and one corollary per JSON type). "
             "Correspondence: all rejected token sequences up to a bound, one-token rules, random strings, corruptions, every "
             "JSON/YAML value type through parse_rule, Rules.from_dict and Rules.load.",
        note="yaml/json parsers are library behaviour.",
        technique="Lean 4 proof (soundness invariant of the shift-reduce parser; case analysis on value types) + differential correspondence",
        design="§7 C02"),
    'C03': dict(
        text="Theorems: a defined name is decided by its own definition (defined_decides); an undefined name by the usable "
             "default rule, else deny, and deny on an empty rule set, never an exception of its own (undefined_decides); "
             "allow_iff states the property as one equivalence, for all rule stores, default-rule settings, names and "
             "credentials; registered_name_own_definition: a name defined by registration and not by the files gets exactly its own "
             "default check from the loader's merge, whatever the store holds under other names (incl. `default`). "
             "Correspondence: the small-universe table against the real Enforcer and an oracle written from the statement; "
             "600 decisions on enforcers with registered (plain / renamed / older-check) defaults and a file-defined default rule.",
        note="oslo.config option resolution is library behaviour.",
        technique="Lean 4 proof (case analysis over the model of Rules.__missing__/enforce) + differential correspondence",
        design="§7 C03"),
    'C04': dict(
        text="Theorem allow_iff: for every lower-casing function, target and credentials with a list of string roles, role:X "
             "allows iff X after %(key)s substitution equals one of the roles under lower; missing key, no roles entry and "
             "empty list deny; the check always returns a decision. ascii_allow_iff: closed form on ASCII names with no lower "
             "parameter left (position-wise equality up to the case of A-Z), discharged for CPython by the TieLower obligation "
             "on the interpreter's lower-case table; subst_without_placeholder: X of a placeholder-free check is the text with "
             "%% read as %, whatever the target. Correspondence: generated names (incl. per-cent signs) over ASCII/punctuation/"
             "non-ASCII one-to-one-case letters, literal and placeholder forms, against the real RoleCheck.",
        note="PARTIAL: Unicode case folding itself is str.lower (parameter of the theorem; table from the running interpreter in the driver).",
        technique="Lean 4 proof (for all `lower`) + differential correspondence",
        design="§7 C04"),
    'C05': dict(
        text="Theorems: find_iff - the recursive credential search equals declarative path matching (any element where the "
             "path meets a list, string form at the end) by induction on the path for all nested values; allow_iff - the "
             "generic check allows iff rhs after substitution equals the literal's string form or matches the path; missing "
             "target key / attribute deny; never raises. Correspondence: literals of every kind and paths of depth 1..4 over "
             "random nested credentials against the real GenericCheck and an oracle written from the statement.",
        note="PARTIAL: ast.literal_eval and str() of containers/floats are CPython's (parameters of the theorem).",
        technique="Lean 4 proof (induction on the path, for all `lit`) + differential correspondence",
        design="§7 C05"),
    'C06': dict(
        text="Theorems: a reference evaluates as looking the name up exactly like enforce does (default fallback, deny for "
             "unknown) and evaluating that definition (alias_is_definition, alias_transparent, undefined_denies); inlining a "
             "definition for its reference anywhere in a body never changes a decision (inline_same_decision, via a "
             "substitution lemma and fuel monotonicity of the evaluator); the enforced name is the one passed to every leaf. "
             "Correspondence: acyclic rule graphs with alias chains to depth 9, undefined references, default rules; alias and "
             "inlining checked on the real Enforcer; recording custom checks with 3/4-parameter signatures.",
        note="PARTIAL: inspect.getfullargspec arity adaptation is Python reflection (exercised only).",
        technique="Lean 4 proof (fuel monotonicity + substitution lemma) + differential correspondence",
        design="§7 C06"),
    'C07': dict(
        text="Theorems for all rule stores/trees/credentials: on_from_off - the do_raise outcome is the do_raise-off outcome "
             "with ret false replaced by InvalidScope (scope gate), the caller's exception, or PolicyNotAuthorized naming the "
             "policy; falsy_iff_raises; allow_same (an allowed request never raises, do_raise never returns falsy); authorize "
             "raises PolicyNotRegistered independent of rules/credentials for unregistered names and is enforce otherwise; "
             "non-mapping credentials raise InvalidContextObject. Correspondence: generated scenarios x do_raise x custom "
             "exception/args x name/check object x authorize x debug logging, with mutation probes.",
        note="PARTIAL: side-effect freedom of the debug dump is strutils/jsonutils behaviour (exercised only).",
        technique="Lean 4 proof (case analysis over the model of enforce) + differential correspondence",
        design="§7 C07"),
    'C08': dict(
        text="Theorems for every scope-type list, rule store, tree and credentials: mismatch_denies (registered scope types, "
             "enforcement on, token scope not listed -> False / InvalidScope whatever the stored check), "
             "otherwise_check_decides, scope_from_registration (the rule store cannot influence the gate), check-object gate, "
             "system_scope spelling. Correspondence: the complete finite table of the quantifier incl. three credential representations.",
        note="PARTIAL: RequestContext.to_policy_values is oslo.context (exercised only).",
        technique="Lean 4 proof (case analysis, unbounded in scope list and tree) + exhaustive correspondence table",
        design="§7 C08"),
    'C09': dict(
        text="Theorems for all layer contents: layers - the store a new enforcer computes maps every name to its last "
             "definition in the order registered default < policy file < configured directories in configured order < files "
             "in sorted name order (induction over layers; insertion sort proved a sorted permutation; dot-files and "
             "sub-directories filtered); undefined names stay undefined; missing file/directories skipped; "
             "policy_file_choice - the file-choice function equals the documented sentence. C10.fresh_is_compute links "
             "`compute` to the loader. Correspondence: random layerings with real files (JSON or YAML each) and the complete "
             "file-choice table against oslo.config.",
        note="PARTIAL: JSON/YAML equivalence and oslo.config find_file/location tracking are library behaviour (exercised only).",
        technique="Lean 4 proof (induction over layers, sorting lemma, decision function) + differential correspondence with real files",
        design="§7 C09"),
    'C10': dict(
        text="Theorem history: for every initial file system and EVERY finite sequence of file operations (write/touch/delete on "
             "the main file and directory files, each stamped with a fresh larger time) interleaved with plain and forced "
             "loads, the next load of the long-lived enforcer yields exactly the rule store of a brand-new enforcer (which by "
             "C09 is the last definition in layer order). Proved by an inductive invariant with a ghost snapshot of the file "
             "system at the last load (invariant_initial, invariant_step, next_load_is_compute); vanished main file = empty; "
             "deleted_main_leaves_no_trace: after any history ending with the main file deleted, however often it came and went. "
             "Correspondence: all short histories + random histories to 40 steps with real files and os.utime against real "
             "long-lived/fresh enforcers; the model's file-operation semantics is compared with observed snapshots.",
        note="os.path.getmtime/listdir/walk and the file parsers are library behaviour; directory creation/removal is outside the alphabet.",
        technique="Lean 4 proof (state-machine invariant / refinement to `compute`, unbounded histories) + differential correspondence",
        design="§7 C10"),
    'C11': dict(
        text="Theorems: table - for every registered default (unique name), file contents and flag, the loader installs exactly "
             "`governs` (the documented override table) under its name; new_override_governs, old_override_governs, "
             "alias_does_not_govern, no_override (+ or_decides), nothing_else (dependence only on the entries under the new "
             "and old name). Correspondence: all rows of the table x check-string pairs from the expression generator x role "
             "subsets with real files; oracle written from the statement.",
        note="policy files parsed by the JSON/YAML libraries.",
        technique="Lean 4 proof (table = model of _handle_deprecated_rule, for all trees) + differential correspondence",
        design="§7 C11"),
    'C12': dict(
        text="Theorems: load_twice / load_many - along any history, further loads (plain or forced, any number) leave the rule "
             "store unchanged, so a merged deprecated OrCheck cannot grow; merge_idempotent. Correspondence (this is where "
             "aliasing is caught): scripts over {load, forced load, enforce, edit} across 1..3 REAL enforcers sharing one list "
             "of RuleDefault objects vs independent model instances; identity/attribute snapshots of the shared objects; "
             "controls built from private copies.",
        note="PARTIAL: non-mutation of caller objects is about copy.deepcopy / Python aliasing (correspondence only).",
        technique="Lean 4 proof (corollary of the C10 invariant) + differential correspondence with shared real objects",
        design="§7 C12"),
    'C13': dict(
        text="Theorems: exact - check_rules() is false iff some rule references an undefined rule or can reach a reference "
             "cycle, stated on the reference graph (all rule: leaves incl. under not), both directions, for all rule sets: the "
             "path-sensitive DFS with fuel |rules|+1 finds a repeat iff some walk repeats (pigeonhole on Nodup walks), so "
             "diamonds are not reported; exact_skip; terminates - when nothing is reported every rule evaluates within "
             "|rules|+1 levels of reference nesting for any leaves and default rule; validator exit status. Correspondence: "
             "all small rule graphs + random graphs against check_rules and an independent graph analysis, clean graphs "
             "evaluated; policy files through the real _validate_policy.",
        note="yaml.safe_load in the validator is library behaviour.",
        technique="Lean 4 proof (DFS exactness + pigeonhole; termination from absence of reported cycles) + differential correspondence",
        design="§7 C13"),
    'C14': dict(
        text="Theorems: leaf_decides - a role or generic leaf returns a decision for every classification of the left side by "
             "literal_eval, every target and JSON-like credentials (string roles), well-formed placeholders; enforce_documented - "
             "then enforce returns a decision or raises only documented exceptions (or exhausts fuel, excluded by C13), by "
             "induction over trees and reference depth. Correspondence: hostile leaf alphabet x credentials/targets with every "
             "JSON type at every position on the real Enforcer.",
        note="PARTIAL: which exceptions ast.literal_eval can raise is CPython's; the repaired code treats every one as 'not a literal'.",
        technique="Lean 4 proof (unreachability of raise outcomes, for all `lit`) + differential correspondence",
        design="§7 C14"),
    'C15': dict(
        text="Theorems: fix - parse(print t) = t for every printable tree; parser_image_printable - every tree the text parser "
             "produces is printable, hence roundtrip on every string; print_injective / same_print_same_decision; list-of-lists "
             "rules with clean checks round-trip; rule-set dump/load is the identity entry by entry. Proved at character level "
             "(the printer's text is a layout of printToks; tokenizer lemma) and token level (stack simulation). "
             "Correspondence: expression-generator rules of every leaf kind, rule sets, RuleDefault equality.",
        note="PARTIAL: jsonutils dumps/loads trusted.",
        technique="Lean 4 proof (printer layout lemma + parser simulation) + differential correspondence",
        design="§7 C15"),
    'C16': dict(
        text="Theorems: true_iff - for EVERY string, the reply allows iff it is True surrounded by any number of double quotes "
             "(character-level lemma on lstrip/rstrip); the status code is irrelevant; faults_never_allow (timeout -> "
             "RuntimeError, other transport failures propagate, missing TLS files raise before sending); allow_needs_reply; "
             "payload - whatever is sent goes to the URL with placeholders filled and carries the enforced policy name, the "
             "complete target (bare objects blanked in a copy) and the credentials in the configured encoding. Correspondence: "
             "reply bodies around the accepted form x http/https x depth/alias, injected Timeout/ConnectionError, all TLS-file "
             "configurations, both content types, caller's target deep-compared, with requests.post stubbed.",
        note="PARTIAL: transport, TLS and JSON/form encoding are requests/oslo.serialization (stubbed / exercised only).",
        technique="Lean 4 proof (string lemma for all bodies; case analysis) + differential correspondence with a recording stub",
        design="§7 C16"),
    'C17': dict(
        text="Theorems for every wrap satisfying textwrap's contract, every splitlines, arbitrary description/reason text and "
             "printable names/check strings: overrides_nothing - every line of the YAML sample is empty or begins with # and "
             "contains no line-break character; states_every_default - the lines of the form #\"... are exactly the rule lines of "
             "the defaults, one each; notes_only_in_comments; json_sample. Correspondence: the real _generate_sample on hostile "
             "descriptions (every splitlines separator, YAML-significant words, long words, literal blocks) compared line by "
             "line with the model, re-read with yaml.safe_load / json.loads / Rules.load before and after un-commenting.",
        note="PARTIAL: textwrap.wrap, str.splitlines and the YAML reading of double-quoted scalars are library contracts (checked on every generated paragraph).",
        technique="Lean 4 proof (line-structure invariant, for all wrap/splitlines meeting their contracts) + differential correspondence",
        design="§7 C17"),
    'C18': dict(
        text="Theorems on the mapping each tool's output denotes: upgrade_preserves - under the upgraded file every registered "
             "policy is governed (C11 table) by exactly what governed it before, for all files/default sets within the "
             "property's exclusions, incl. one deprecated name split into several (loop invariant over the registrations); "
             "other names untouched, old names removed, the tool is total; convert_keeps_or_comments + "
             "equal_to_default_is_default (print injectivity, C15) - commenting out / deleting a rule equal to its default "
             "changes no decision; redundant_reports; generate_states_effective. Correspondence: the real upgrade_policy, "
             "_convert_policy_json_to_yaml, _generate_policy, _list_redundant on generated files/default sets, decisions of "
             "real enforcers on input vs output for every surviving name and role set; model outputs compared.",
        note="PARTIAL: emitted text <-> mapping is the YAML/JSON parsers'; stevedore lookups replaced by the harness.",
        technique="Lean 4 proof (loop invariant; reuse of the C11 table and C15 injectivity) + differential correspondence through the real tools",
        design="§7 C18"),
    'C19': dict(
        text="Theorems: verdict_is_library_decision - for every store, name it can resolve, credentials and target, the value the "
             "tool obtains is exactly Enforcer.enforce's (do_raise off); derived_creds_mirror_invariant - the credentials the "
             "tool derives are a fixed point of the library's system_scope mirroring; names_with_colon / names_sorted / "
             "requested_only - which verdicts, in which order. Correspondence: real shell.tool stdout vs a real Enforcer on "
             "the credentials/target the tool derived vs the model, on generated policies, sample and generated tokens, "
             "nested target files, requested rules.",
        note="json loading of token/target/policy files is library behaviour; a requested rule that is undefined with no default rule makes the tool raise KeyError (outside the property's inputs).",
        technique="Lean 4 proof (unfolding to the enforce model; insertion-sort lemmas) + differential correspondence",
        design="§7 C19"),
    'C20': dict(
        text="The property is FALSE for the current code: inplace_violates is a machine-checked counterexample (two-thread "
             "small-step model of the in-place rebuild, by decide) and the deterministic scheduler reproduces it on the real "
             "Enforcer (known findings F10-*). Proved instead: decisions taken while no reload is in progress are old-or-new "
             "(sequential schedules); with nothing in the policy directories every 'A preempted after k steps, B's whole call, A's "
             "rest' schedule is old-or-new for every k, scenario and list of registered defaults (no_dirs_one_switch_safe); and "
             "the build-then-publish variant is old-or-new for ALL schedules (swap_safe). The check enumerates, at source-line "
             "granularity and for twelve reload scenarios, the schedules with at most two context switches (the property's "
             "quantifier) in two families - files changed before both calls (A preempted after every line k, B's whole call, "
             "A's rest) and files changed after the decider started (decider preempted before / inside / after its own load "
             "step, reloader preempted after every line j, decider finishes) - compares the set of obtainable decisions with the "
             "model's, prints KNOWN-FINDING for the fifteen recorded windows and reports any other mixed decision; thorough adds "
             "every other policy name as the request, more decider positions and, as observations beyond the quantifier, a "
             "grid of three-switch schedules.",
        note="PARTIAL: preemption at source-line boundaries inside the library (the property's own granularity); bytecode-level interleavings not explored.",
        technique="Lean 4 proof (decide witness; case analysis over all preemption points for directory-free scenarios; invariant over all schedules for the safe variant) + exhaustive enumeration of the schedules with at most two context switches on the real code",
        design="§7 C20"),
}

NOT_YET = "no check built yet in this session (planned, see DESIGN.md §7); not claimed until its theorem and correspondence suite exist"


def main():
    props = [json.loads(l) for l in open(os.path.join(driver.ROOT, 'properties.jsonl'))]
    checks, na = [], []
    for p in props:
        pid = p['id']
        c = CHECKS.get(pid)
        if c is None:
            na.append({'property_id': pid, 'reason': NOT_YET})
            continue
        checks.append({
            'property_id': pid,
            'quick_cmd': './check %s --tier quick' % pid,
            'thorough_cmd': './check %s --tier thorough' % pid,
            'evidence_file': 'evidence/%s.json' % pid,
            'replay_cmd_template': './check %s --replay {path}' % pid,
            'engine': 'lean-proof+correspondence',
            'level_claimed': {'category': 'proof', 'text': c['text'], 'design_ref': c['design']},
            'level_note': LEVEL_NOTE + c['note'],
            'technique': c['technique'],
        })
    m = {
        'version': 1,
        'setup_cmd': 'cd lean && lake build OsloPolicy opdriver',
        'hooks': {
            'guard': 'OSLO_POLICY_VERIF',
            'enable': 'no source hooks are needed: the harness drives the unmodified library in-process '
                      '(os.utime for mtimes, a stub for requests.post, sys.settrace for schedules); '
                      './check exports OSLO_POLICY_VERIF=1 for uniformity only',
            'baseline_off_cmd': 'cd /repo && /venv/bin/python -m pytest -ra -q -p no:cacheprovider --timeout=900 '
                                '--continue-on-collection-errors',
            'source_commits': [],
            'add_only': True,
        },
        'engines': [
            {'name': 'lean-proof+correspondence', 'path': 'lean/ + harness/opverif/',
             'serves_properties': [c['property_id'] for c in checks],
             'kind_free_text': 'Lean 4 model + theorems (lake project lean/OsloPolicy), compiled JSON-lines driver of the '
                               'model, Python harness running the real oslo.policy in-process and diffing'}],
        'checks': checks,
        'notes': 'Genuine defects repaired by fix: commits in /repo and the known findings are listed in known_findings.json '
                 'and DESIGN.md §8.',
        'not_applicable': na,
    }
    with open(os.path.join(driver.ROOT, 'MANIFEST.json'), 'w') as fh:
        json.dump(m, fh, indent=1)
    print('claimed: %d, not claimed: %d' % (len(checks), len(na)))


if __name__ == '__main__':
    main()
