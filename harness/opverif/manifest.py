"""Regenerate /verif/MANIFEST.json from the table below:  python -m opverif.manifest"""
import json
import os

from . import driver

LEVEL_NOTE = ("Trusted: Lean 4.33.0 kernel (leanchecker in the thorough tier); axioms propext, Classical.choice, "
              "Quot.sound only (audited on every run, no sorry/native_decide/own axioms); the hand-written model is tied "
              "to /repo by tables regenerated from the source on every run (Tie obligations) and by the differential "
              "correspondence check run by this command; ")

CHECKS = {
    'C01': dict(
        text="Theorems over the model: the greedy shift-reduce parser accepts every sentence of the documented grammar "
             "(parse_complete), the tree it builds denotes the sentence with precedence ()>not>and>or for every valuation "
             "(parse_denotes, decision), extra grouping never changes a decision (parens), constants. Unbounded in "
             "expression size. Correspondence: exhaustive short token sequences + random sentences x layouts x all "
             "assignments against the real parser and enforcer and against Spec.den.",
        note="leaf semantics are C04/C05; str.lower/isspace are CPython's (tables re-extracted every run).",
        technique="Lean 4 proof (simulation by mutual induction on the grammar) + differential correspondence",
        design="§7 C01"),
}

NOT_YET = "no check built yet in this session (planned, see DESIGN.md §7); not claimed until its theorem and correspondence suite exist"


def main():
    props = [json.loads(l) for l in open(os.path.join(driver.ROOT, 'properties.jsonl'))]
    checks, na = [], []
    for p in props:
        pid = p['id']
        c = CHECKS.get(pid)
        if c is None:
            na.append({'property_id': pid, 'reason': NOT_YET})
            continue
        checks.append({
            'property_id': pid,
            'quick_cmd': './check %s --tier quick' % pid,
            'thorough_cmd': './check %s --tier thorough' % pid,
            'evidence_file': 'evidence/%s.json' % pid,
            'replay_cmd_template': './check %s --replay {path}' % pid,
            'engine': 'lean-proof+correspondence',
            'level_claimed': {'category': 'proof', 'text': c['text'], 'design_ref': c['design']},
            'level_note': LEVEL_NOTE + c['note'],
            'technique': c['technique'],
        })
    m = {
        'version': 1,
        'setup_cmd': 'cd lean && lake build OsloPolicy opdriver',
        'hooks': {
            'guard': 'OSLO_POLICY_VERIF',
            'enable': 'no source hooks are needed: the harness drives the unmodified library in-process '
                      '(os.utime for mtimes, a stub for requests.post, sys.settrace for schedules); '
                      './check exports OSLO_POLICY_VERIF=1 for uniformity only',
            'baseline_off_cmd': 'cd /repo && /venv/bin/python -m pytest -ra -q -p no:cacheprovider --timeout=900 '
                                '--continue-on-collection-errors',
            'source_commits': [],
            'add_only': True,
        },
        'engines': [
            {'name': 'lean-proof+correspondence', 'path': 'lean/ + harness/opverif/',
             'serves_properties': [c['property_id'] for c in checks],
             'kind_free_text': 'Lean 4 model + theorems (lake project lean/OsloPolicy), compiled JSON-lines driver of the '
                               'model, Python harness running the real oslo.policy in-process and diffing'}],
        'checks': checks,
        'notes': 'Genuine defects repaired by fix: commits in /repo and the known findings are listed in known_findings.json '
                 'and DESIGN.md §8.',
        'not_applicable': na,
    }
    with open(os.path.join(driver.ROOT, 'MANIFEST.json'), 'w') as fh:
        json.dump(m, fh, indent=1)
    print('claimed: %d, not claimed: %d' % (len(checks), len(na)))


if __name__ == '__main__':
    main()
